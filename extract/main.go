// lqextract lists the shared mutable cells that code reachable at render time
// writes: stores to variables captured by closures that outlive the call that
// created them (the render closures the tag and block compilers return), and
// stores to package-level variables outside init.  The result is the `cells`
// constant of the engine specification (LqEngine: NoConflict).
package main

import (
	"encoding/json"
	"fmt"
	"os"
	"regexp"
	"sort"
	"strings"

	"go/types"

	"golang.org/x/tools/go/packages"
	"golang.org/x/tools/go/ssa"
	"golang.org/x/tools/go/ssa/ssautil"
)

type cell struct {
	Func string `json:"func"`
	Var  string `json:"var"`
	Pos  string `json:"pos"`
	Kind string `json:"kind"`
}

// localObject: the address of a structure allocated in this very function (directly, or a field of one)
func localObject(v ssa.Value) bool {
	switch x := v.(type) {
	case *ssa.Alloc:
		return true
	case *ssa.FieldAddr:
		return localObject(x.X)
	case *ssa.IndexAddr:
		return localObject(x.X)
	}
	return false
}

func fieldName(fa *ssa.FieldAddr) string {
	t := fa.X.Type().Underlying()
	if p, ok := t.(*types.Pointer); ok {
		if st, ok := p.Elem().Underlying().(*types.Struct); ok {
			return st.Field(fa.Field).Name()
		}
	}
	return fmt.Sprint(fa.Field)
}

// sharedTypes: the named structure types reachable from a configured engine or a parsed template (through fields,
// pointers, slices, maps, and - for interface-typed fields - every type of the repository implementing the
// interface).  Values of these types are shared by all the goroutines that parse and render with one engine.
func sharedTypes(pkgs []*packages.Package) map[string]bool {
	var named []*types.Named
	var roots []types.Type
	packages.Visit(pkgs, nil, func(p *packages.Package) {
		if !strings.HasPrefix(p.PkgPath, "github.com/osteele/liquid") {
			return
		}
		sc := p.Types.Scope()
		for _, n := range sc.Names() {
			if tn, ok := sc.Lookup(n).(*types.TypeName); ok {
				if nt, ok := tn.Type().(*types.Named); ok {
					named = append(named, nt)
					if p.PkgPath == "github.com/osteele/liquid" && (n == "Engine" || n == "Template") {
						roots = append(roots, nt)
					}
				}
			}
		}
	})
	seen := map[string]bool{}
	var visit func(t types.Type)
	visit = func(t types.Type) {
		switch x := t.(type) {
		case *types.Named:
			key := x.String()
			if seen[key] || !strings.HasPrefix(key, "github.com/osteele/liquid") {
				return
			}
			seen[key] = true
			visit(x.Underlying())
			if it, ok := x.Underlying().(*types.Interface); ok && it.NumMethods() > 0 {
				for _, nt := range named {
					if _, isIface := nt.Underlying().(*types.Interface); isIface {
						continue
					}
					if types.Implements(nt, it) || types.Implements(types.NewPointer(nt), it) {
						visit(nt)
					}
				}
			}
		case *types.Pointer:
			visit(x.Elem())
		case *types.Slice:
			visit(x.Elem())
		case *types.Array:
			visit(x.Elem())
		case *types.Map:
			visit(x.Key())
			visit(x.Elem())
		case *types.Struct:
			for i := 0; i < x.NumFields(); i++ {
				visit(x.Field(i).Type())
			}
		case *types.Signature:
			// (closures: their captured variables are covered by the "captured" rule)
		}
	}
	for _, r := range roots {
		visit(r)
	}
	return seen
}

var shared map[string]bool

// perCall: not one of the structures shared through the engine or a template
func perCall(t string) bool { return !shared[strings.TrimPrefix(t, "*")] }

func main() {
	dir := os.Args[1]
	cfg := &packages.Config{Mode: packages.LoadAllSyntax, Dir: dir, Env: append(os.Environ(), "GOFLAGS=-mod=mod")}
	pkgs, err := packages.Load(cfg, "./...")
	if err != nil {
		fmt.Fprintln(os.Stderr, err)
		os.Exit(2)
	}
	if packages.PrintErrors(pkgs) > 0 {
		os.Exit(2)
	}
	shared = sharedTypes(pkgs)
	if os.Getenv("LQ_EXTRACT_DEBUG") != "" {
		for k := range shared {
			fmt.Fprintln(os.Stderr, "shared type", k)
		}
	}
	prog, _ := ssautil.AllPackages(pkgs, ssa.InstantiateGenerics)
	prog.Build()
	var cells []cell
	escaping := map[*ssa.Function]bool{}
	// a closure escapes unless every use of its MakeClosure value is as the callee of a call (or a defer / go of it)
	for fn := range ssautil.AllFunctions(prog) {
		for _, b := range fn.Blocks {
			for _, ins := range b.Instrs {
				mc, ok := ins.(*ssa.MakeClosure)
				if !ok {
					continue
				}
				esc := false
				for _, ref := range *mc.Referrers() {
					switch r := ref.(type) {
					case ssa.CallInstruction:
						if r.Common().Value != mc {
							esc = true // passed as an argument
						}
					default:
						esc = true
					}
				}
				if esc {
					escaping[mc.Fn.(*ssa.Function)] = true
				}
			}
		}
	}
	// closures nested in an escaping closure escape with it
	changed := true
	for changed {
		changed = false
		for fn := range ssautil.AllFunctions(prog) {
			if fn.Parent() != nil && escaping[fn.Parent()] && !escaping[fn] {
				escaping[fn] = true
				changed = true
			}
		}
	}
	inRepo := func(fn *ssa.Function) bool {
		return fn.Pkg != nil && strings.HasPrefix(fn.Pkg.Pkg.Path(), "github.com/osteele/liquid") &&
			!strings.HasSuffix(fn.Pkg.Pkg.Path(), "/cmd/liquid")
	}
	// package-level maps that are written outside init (in whatever function, under a lock or not): every access to
	// them at parse / render time must hold a lock
	globalOf := func(v ssa.Value) *ssa.Global {
		if un, ok := v.(*ssa.UnOp); ok {
			if g, ok := un.X.(*ssa.Global); ok {
				return g
			}
		}
		return nil
	}
	mutableMaps := map[*ssa.Global]bool{}
	for fn := range ssautil.AllFunctions(prog) {
		if !inRepo(fn) || fn.Name() == "init" || strings.HasPrefix(fn.Name(), "init#") {
			continue
		}
		for _, b := range fn.Blocks {
			for _, ins := range b.Instrs {
				if mu, ok := ins.(*ssa.MapUpdate); ok {
					if g := globalOf(mu.Map); g != nil {
						mutableMaps[g] = true
					}
				}
			}
		}
	}
	for fn := range ssautil.AllFunctions(prog) {
		if !inRepo(fn) || fn.Name() == "init" || strings.HasPrefix(fn.Name(), "init#") {
			continue
		}
		if fn.Synthetic != "" {
			continue
		}
		// guarded[ins]: the instruction runs with a lock held - the function defers an Unlock (lock for the rest of the
		// call), or a Lock call precedes it in its basic block with no Unlock in between
		isCallTo := func(ins ssa.Instruction, names ...string) bool {
			call, ok := ins.(ssa.CallInstruction)
			if !ok {
				return false
			}
			callee := call.Common().StaticCallee()
			if callee == nil {
				return false
			}
			for _, n := range names {
				if callee.Name() == n {
					return true
				}
			}
			return false
		}
		deferUnlock := false
		for _, b := range fn.Blocks {
			for _, ins := range b.Instrs {
				if _, ok := ins.(*ssa.Defer); ok && isCallTo(ins, "Unlock", "RUnlock") {
					deferUnlock = true
				}
			}
		}
		guarded := map[ssa.Instruction]bool{}
		for _, b := range fn.Blocks {
			held := false
			for _, ins := range b.Instrs {
				if _, isDefer := ins.(*ssa.Defer); !isDefer {
					if isCallTo(ins, "Lock", "RLock") {
						held = true
					} else if isCallTo(ins, "Unlock", "RUnlock") {
						held = false
					}
				}
				guarded[ins] = held || deferUnlock
			}
		}
		configTime := regexp.MustCompile(`^(Add|Register|New|add|Clause|Compiler|Renderer|Delims|StrictVariables)`).MatchString(fn.Name())
		for _, b := range fn.Blocks {
			for _, ins := range b.Instrs {
				if mu, ok := ins.(*ssa.MapUpdate); ok && !guarded[ins] && !configTime {
					// a map reached through a field of a (shared) structure, written outside configuration
					if un, ok := mu.Map.(*ssa.UnOp); ok {
						if fa, ok := un.X.(*ssa.FieldAddr); ok {
							pos := prog.Fset.Position(mu.Pos())
							name := fa.X.Type().String() + "." + fmt.Sprint(fa.Field)
							// the variable map of one render (a copy made when the render starts) is not shared
							if strings.HasSuffix(fa.X.Type().String(), "expressions.context") || strings.HasSuffix(fa.X.Type().String(), "render.nodeContext") {
								continue
							}
							cells = append(cells, cell{fn.String(), name, fmt.Sprintf("%s:%d", strings.TrimPrefix(pos.Filename, dir+"/"), pos.Line), "sharedmap"})
						}
					}
				}
				if !guarded[ins] && !configTime {
					var m ssa.Value
					switch x := ins.(type) {
					case *ssa.Lookup:
						m = x.X
					case *ssa.Range:
						m = x.X
					case *ssa.MapUpdate:
						m = x.Map
					}
					if m != nil {
						if g := globalOf(m); g != nil && mutableMaps[g] {
							pos := prog.Fset.Position(ins.Pos())
							cells = append(cells, cell{fn.String(), g.Name(), fmt.Sprintf("%s:%d", strings.TrimPrefix(pos.Filename, dir+"/"), pos.Line), "globalmap"})
						}
					}
				}
				st, ok := ins.(*ssa.Store)
				if !ok {
					continue
				}
				pos := prog.Fset.Position(st.Pos())
				switch a := st.Addr.(type) {
				case *ssa.FieldAddr:
					// a field of a structure the function did not create itself (it came in as a parameter or
					// receiver, or was read from somewhere): shared unless the structure belongs to one call
					if !guarded[ins] && !configTime && !localObject(a.X) && !perCall(a.X.Type().String()) {
						name := a.X.Type().String() + "." + fieldName(a)
						cells = append(cells, cell{fn.String(), name, fmt.Sprintf("%s:%d", strings.TrimPrefix(pos.Filename, dir+"/"), pos.Line), "sharedfield"})
					}
				case *ssa.FreeVar:
					if escaping[fn] {
						cells = append(cells, cell{fn.String(), a.Name(), fmt.Sprintf("%s:%d", strings.TrimPrefix(pos.Filename, dir+"/"), pos.Line), "captured"})
					}
				case *ssa.Global:
					if a.Pkg == fn.Pkg && !strings.HasPrefix(a.Name(), "init$") {
						cells = append(cells, cell{fn.String(), a.Name(), fmt.Sprintf("%s:%d", strings.TrimPrefix(pos.Filename, dir+"/"), pos.Line), "global"})
					}
				}
			}
		}
	}
	sort.Slice(cells, func(i, j int) bool { return cells[i].Pos < cells[j].Pos })
	// parser-generated code (goyacc, ragel) keeps debugging globals that are only written under a flag
	out := []cell{}
	for _, c := range cells {
		if strings.Contains(c.Pos, "_test.go") {
			continue
		}
		out = append(out, c)
	}
	json.NewEncoder(os.Stdout).Encode(out)
}
