// lqextract lists the shared mutable cells that code reachable at render time
// writes: stores to variables captured by closures that outlive the call that
// created them (the render closures the tag and block compilers return), and
// stores to package-level variables outside init.  The result is the `cells`
// constant of the engine specification (LqEngine: NoConflict).
package main

import (
	"encoding/json"
	"fmt"
	"os"
	"regexp"
	"sort"
	"strings"

	"golang.org/x/tools/go/packages"
	"golang.org/x/tools/go/ssa"
	"golang.org/x/tools/go/ssa/ssautil"
)

type cell struct {
	Func string `json:"func"`
	Var  string `json:"var"`
	Pos  string `json:"pos"`
	Kind string `json:"kind"`
}

func main() {
	dir := os.Args[1]
	cfg := &packages.Config{Mode: packages.LoadAllSyntax, Dir: dir, Env: append(os.Environ(), "GOFLAGS=-mod=mod")}
	pkgs, err := packages.Load(cfg, "./...")
	if err != nil {
		fmt.Fprintln(os.Stderr, err)
		os.Exit(2)
	}
	if packages.PrintErrors(pkgs) > 0 {
		os.Exit(2)
	}
	prog, _ := ssautil.AllPackages(pkgs, ssa.InstantiateGenerics)
	prog.Build()
	var cells []cell
	escaping := map[*ssa.Function]bool{}
	// a closure escapes unless every use of its MakeClosure value is as the callee of a call (or a defer / go of it)
	for fn := range ssautil.AllFunctions(prog) {
		for _, b := range fn.Blocks {
			for _, ins := range b.Instrs {
				mc, ok := ins.(*ssa.MakeClosure)
				if !ok {
					continue
				}
				esc := false
				for _, ref := range *mc.Referrers() {
					switch r := ref.(type) {
					case ssa.CallInstruction:
						if r.Common().Value != mc {
							esc = true // passed as an argument
						}
					default:
						esc = true
					}
				}
				if esc {
					escaping[mc.Fn.(*ssa.Function)] = true
				}
			}
		}
	}
	// closures nested in an escaping closure escape with it
	changed := true
	for changed {
		changed = false
		for fn := range ssautil.AllFunctions(prog) {
			if fn.Parent() != nil && escaping[fn.Parent()] && !escaping[fn] {
				escaping[fn] = true
				changed = true
			}
		}
	}
	inRepo := func(fn *ssa.Function) bool {
		return fn.Pkg != nil && strings.HasPrefix(fn.Pkg.Pkg.Path(), "github.com/osteele/liquid") &&
			!strings.HasSuffix(fn.Pkg.Pkg.Path(), "/cmd/liquid")
	}
	for fn := range ssautil.AllFunctions(prog) {
		if !inRepo(fn) || fn.Name() == "init" || strings.HasPrefix(fn.Name(), "init#") {
			continue
		}
		if fn.Synthetic != "" {
			continue
		}
		locks := false
		for _, b := range fn.Blocks {
			for _, ins := range b.Instrs {
				if call, ok := ins.(ssa.CallInstruction); ok {
					if callee := call.Common().StaticCallee(); callee != nil && (callee.Name() == "Lock" || callee.Name() == "RLock") {
						locks = true
					}
				}
			}
		}
		configTime := regexp.MustCompile(`^(Add|Register|New|add|Clause|Compiler|Renderer|Delims|StrictVariables)`).MatchString(fn.Name())
		for _, b := range fn.Blocks {
			for _, ins := range b.Instrs {
				if mu, ok := ins.(*ssa.MapUpdate); ok && !locks && !configTime {
					// a map reached through a field of a (shared) structure, written outside configuration
					if un, ok := mu.Map.(*ssa.UnOp); ok {
						if fa, ok := un.X.(*ssa.FieldAddr); ok {
							pos := prog.Fset.Position(mu.Pos())
							name := fa.X.Type().String() + "." + fmt.Sprint(fa.Field)
							// the variable map of one render (a copy made when the render starts) is not shared
							if strings.HasSuffix(fa.X.Type().String(), "expressions.context") || strings.HasSuffix(fa.X.Type().String(), "render.nodeContext") {
								continue
							}
							cells = append(cells, cell{fn.String(), name, fmt.Sprintf("%s:%d", strings.TrimPrefix(pos.Filename, dir+"/"), pos.Line), "sharedmap"})
						}
					}
				}
				st, ok := ins.(*ssa.Store)
				if !ok {
					continue
				}
				pos := prog.Fset.Position(st.Pos())
				switch a := st.Addr.(type) {
				case *ssa.FreeVar:
					if escaping[fn] {
						cells = append(cells, cell{fn.String(), a.Name(), fmt.Sprintf("%s:%d", strings.TrimPrefix(pos.Filename, dir+"/"), pos.Line), "captured"})
					}
				case *ssa.Global:
					if a.Pkg == fn.Pkg && !strings.HasPrefix(a.Name(), "init$") {
						cells = append(cells, cell{fn.String(), a.Name(), fmt.Sprintf("%s:%d", strings.TrimPrefix(pos.Filename, dir+"/"), pos.Line), "global"})
					}
				}
			}
		}
	}
	sort.Slice(cells, func(i, j int) bool { return cells[i].Pos < cells[j].Pos })
	// parser-generated code (goyacc, ragel) keeps debugging globals that are only written under a flag
	out := []cell{}
	for _, c := range cells {
		if strings.Contains(c.Pos, "_test.go") {
			continue
		}
		out = append(out, c)
	}
	json.NewEncoder(os.Stdout).Encode(out)
}
