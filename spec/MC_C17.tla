------------------------------- MODULE MC_C17 -------------------------------
(***************************************************************************)
(* C17 - numeric filters.  TLC visits every (receiver, filter, argument)   *)
(* over a universe of integers, exact fractions, strings that spell        *)
(* numbers, nil and strings that do not, checks the arithmetic laws on the *)
(* reference (exact rationals) and emits  {{ x | f: y }}  for replay.      *)
(***************************************************************************)
EXTENDS LqRender, Json, TLC

CONSTANT K        \* integers -K..K
VARIABLES xi, op, ai
vars == <<xi, op, ai>>

\* universes are sequences (TLC cannot build a set of integers and strings)
IntSeq == [i \in 1..(2 * K + 1) |-> IntV(i - K - 1)] \o <<IntV(100), IntV(0 - 100), IntV(1000)>>
QuarterNums == SelectSeq([i \in 1..(4 * K + 1) |-> i - 2 * K - 1], LAMBDA n : n % 4 # 0)
FracSeq == [i \in 1..Len(QuarterNums) |-> Flt(QuarterNums[i], 4)] \o <<Flt(10, 1), Flt(0, 1), Flt(0 - 3, 1), Flt(1, 8), Flt(201, 2), Flt(1, 1), Flt(0 - 1, 1), Flt(2, 1),
               \* (more fractional digits, still exactly floats: 1/64 = 0.015625, -7/32 = -0.21875)
               Flt(1, 64), Flt(0 - 7, 32)>>
\* (the last four: leading zeros are still decimal - "010" spells ten)
NumStrs == <<Str(<<51>>), Str(<<45, 50>>), Str(<<50, 46, 53>>), Str(<<48>>), Str(<<45, 48, 46, 50, 53>>), Str(<<49, 48>>),
             Str(<<48, 49, 48>>), Str(<<48, 49, 50>>), Str(<<48, 48, 55>>), Str(<<45, 48, 49, 49>>)>>
\* numbers as the engine itself prints them beyond 10^6 and below 10^-4: 1e+06  2.5e-05  1.5e3  1E2  -4e+00
ExpStrs == <<Str(<<49, 101, 43, 48, 54>>), Str(<<50, 46, 53, 101, 45, 48, 53>>), Str(<<49, 46, 53, 101, 51>>), Str(<<49, 69, 50>>), Str(<<45, 52, 101, 43, 48, 48>>)>>
\* (also texts that BEGIN like a number and go on with something no number holds: "3,5", "12%", "7 up")
BadStrs == <<Str(<<97, 98, 99>>), Str(<<>>), Str(<<51, 120>>), Str(<<32>>), Str(<<51, 44, 53>>), Str(<<49, 50, 37>>), Str(<<55, 32, 117, 112>>)>>
\* whole numbers beyond 32 bits that are exactly 64-bit floats (up to 2^53), as integers and as strings of digits: 2^53,
\* 2^53 - 1, 2^52, 2^52 + 1, 2^40, 10^12 + 1
BigDigits == << <<57, 48, 48, 55, 49, 57, 57, 50, 53, 52, 55, 52, 48, 57, 57, 50>>, <<57, 48, 48, 55, 49, 57, 57, 50, 53, 52, 55, 52, 48, 57, 57, 49>>,
                <<52, 53, 48, 51, 53, 57, 57, 54, 50, 55, 51, 55, 48, 52, 57, 54>>, <<52, 53, 48, 51, 53, 57, 57, 54, 50, 55, 51, 55, 48, 52, 57, 55>>,
                <<49, 48, 57, 57, 53, 49, 49, 54, 50, 55, 55, 55, 54>>, <<49, 48, 48, 48, 48, 48, 48, 48, 48, 48, 48, 48, 49>> >>
BigSeq == [i \in 1..Len(BigDigits) |-> BigV(FALSE, BigDigits[i])] \o [i \in 1..Len(BigDigits) |-> Str(BigDigits[i])]
Recvs == IntSeq \o FracSeq \o NumStrs \o ExpStrs \o BadStrs \o <<Nil>> \o BigSeq
IsBigRecv(i) == i > Len(Recvs) - Len(BigSeq)
Args == IntSeq \o FracSeq \o <<Str(<<51>>), Str(<<97, 98, 99>>), Nil>> \o <<Flt(11, 4), Flt(7, 8), Flt(3, 2), IntV(7), IntV(10), IntV(999)>>

Binary == {"plus", "minus", "times", "divided_by", "modulo"}
\* ai: index into Args for the binary filters; for round 0 = no argument, 1..3 = places 0..2; 0 otherwise
Init == /\ xi \in 1..Len(Recvs)
        /\ op \in IF IsBigRecv(xi) THEN {"modulo"} ELSE Binary \cup {"abs", "ceil", "floor", "round"}
        /\ ai \in IF op \in Binary THEN 1..Len(Args) ELSE IF op = "round" THEN 0..3 ELSE {0}
Next == UNCHANGED vars

x == Recvs[xi]
call == [name |-> op,
         args |-> IF op \in Binary THEN <<Args[ai]>> ELSE IF op = "round" /\ ai > 0 THEN <<IntV(ai - 1)>> ELSE <<>>]

R == Filter(call.name, x, call.args)
Dec == R.r = "val" /\ ~IsUnspec(R.v)
XN == AsNum(x, TRUE)
F(name, recv, args) == Filter(name, recv, args)
BothNum == XN.r = "num" /\ Len(call.args) = 1 /\ IsNum(call.args[1])

\* ------------------------------------------------------------------ laws
PlusMinusInverse == (call.name = "plus" /\ BothNum /\ Dec) =>
                       LET back == F("minus", R.v, call.args) IN back.r = "unspec" \/ (back.r = "val" /\ (IsUnspec(back.v) \/ NumEq(back.v, XN.v)))
Commutative == (call.name \in {"plus", "times"} /\ BothNum /\ Dec) =>
                  LET sw == F(call.name, call.args[1], <<XN.v>>) IN sw.r = "unspec" \/ (sw.r = "val" /\ (IsUnspec(sw.v) \/ NumEq(sw.v, R.v)))
FloorCeil == (call.name = "floor" /\ Dec) =>
                LET c == F("ceil", x, <<>>) IN
                  /\ ~NumLess(XN.v, R.v) /\ ~NumLess(c.v, XN.v)
                  /\ c.v.v - R.v.v \in {0, 1}
                  /\ (c.v.v = R.v.v) = IsWhole(XN.v)
RoundNearest == (call.name = "round" /\ call.args = <<>> /\ Dec) =>
                   LET fl == F("floor", x, <<>>).v.v IN
                     /\ NumN(R.v) \in {fl, fl + 1} /\ NumD(R.v) = 1
                     \* |x - round(x)| <= 1/2, ties up
                     /\ ~NumLess(Flt(1, 2), NumSub(XN.v, R.v))
                     /\ (NumLess(NumSub(R.v, XN.v), Flt(1, 2)) \/ NumEq(NumSub(R.v, XN.v), Flt(1, 2)))
                     /\ ~NumEq(NumSub(XN.v, R.v), Flt(1, 2))
AbsNonNeg == (call.name = "abs" /\ Dec) => NumN(R.v) >= 0 /\ (NumEq(R.v, XN.v) \/ NumEq(NumAdd(R.v, XN.v), IntV(0)))
DivisionUndoes == (call.name = "divided_by" /\ BothNum /\ Dec /\ call.args[1].k = "flt") =>
                     NumEq(NumMul(R.v, call.args[1]), XN.v)
IntDivisionBounds == (call.name = "divided_by" /\ BothNum /\ Dec /\ call.args[1].k = "int") =>
                        /\ R.v.k = "int"
                        /\ LET q == NumDivReal(XN.v, call.args[1]) IN ~NumLess(q, R.v) /\ NumLess(NumSub(q, R.v), IntV(1))
ZeroDivisorIsError == (call.name \in {"divided_by", "modulo"} /\ XN.r = "num" /\ IsNum(call.args[1]) /\ NumN(call.args[1]) = 0)
                        => R.r = "err"
NotANumberIsError == (XN.r = "err") => R.r = "err"
ModuloRange == (call.name = "modulo" /\ BothNum /\ Dec) =>
                  /\ ~NumLess(R.v, IntV(0)) /\ NumLess(R.v, call.args[1])
\* the big receivers are decided for every small positive divisor with a power-of-two denominator
BigModuloDecided == (IsBigRecv(xi) /\ IsNum(call.args[1]) /\ NumN(call.args[1]) > 0 /\ NumD(call.args[1]) \in {1, 2, 4, 8}) => Dec

X == <<120>>
Prog == << [t |-> "obj", e |-> [t |-> "filter", e |-> [t |-> "var", name |-> X], name |-> call.name,
                                args |-> [i \in 1..Len(call.args) |-> [t |-> "lit", v |-> call.args[i]]]]] >>
\* the same call with its arguments (and its receiver) held in variables, in other Go representations: a Drop, a
\* pointer, another numeric width - an argument is evaluated in the current bindings like any expression
ArgName(i) == <<97, 48 + i>>         \* a1 a2
ProgV == << [t |-> "obj", e |-> [t |-> "filter", e |-> [t |-> "var", name |-> X], name |-> call.name,
                                 args |-> [i \in 1..Len(call.args) |-> [t |-> "var", name |-> ArgName(i)]]]] >>
HintFor(v, n) ==
  CASE v.k = "int" -> IF v.v >= 0 /\ v.v < 128 THEN <<"uint8", "int64", "drop", "ptr", "uint32", "int16">>[(n % 6) + 1]
                      ELSE IF v.v < 0 /\ v.v > 0 - 128 THEN <<"int8", "int64", "drop", "int32">>[(n % 4) + 1]
                      ELSE <<"int64", "drop", "ptr">>[(n % 3) + 1]
    [] v.k = "flt" -> <<"drop", "ptr", "float32">>[(n % 3) + 1]
    [] v.k = "str" -> <<"drop", "ptr">>[(n % 2) + 1]
    [] OTHER -> "drop"
\* (float32 only where the value is exactly representable: quarters)
Exact32(v) == v.k # "flt" \/ v.d \in {1, 2, 4}
ReprV == [p \in {"x"} \cup {"a" \o ToString(i) : i \in 1..Len(call.args)} |->
            IF p = "x" THEN (IF Exact32(x) THEN HintFor(x, xi + ai) ELSE "drop")
            ELSE LET i == IF p = "a1" THEN 1 ELSE 2 IN IF Exact32(call.args[i]) THEN HintFor(call.args[i], xi + ai + i) ELSE "drop"]
EmitCase ==
  /\ PrintT(ToJson([id |-> ToString(xi) \o "-" \o op \o "-" \o ToString(ai), kind |-> "render", f |-> call.name, prog |-> Prog, env |-> << <<X, x>> >>]))
  /\ PrintT(ToJson([id |-> "v" \o ToString(xi) \o "-" \o op \o "-" \o ToString(ai), kind |-> "render", f |-> call.name, prog |-> ProgV,
                    env |-> << <<X, x>> >> \o [i \in 1..Len(call.args) |-> <<ArgName(i), call.args[i]>>], repr |-> ReprV]))
=============================================================================
