------------------------------- MODULE MC_C14 -------------------------------
(***************************************************************************)
(* C14 - include renders the named file (or cached source) with the        *)
(* current variables.  Layouts: the includer at depth 0/1/2 of a directory *)
(* tree; the include argument as a literal, a variable, a filtered         *)
(* expression, or a variable assigned earlier in the render, naming a file *)
(* in the includer's directory or below it; the target on disk, only in    *)
(* the cache, in both with different content, or missing; a decoy file of  *)
(* the same name relative to the working directory; nested includes;       *)
(* include inside a loop; failures (missing file, non-string argument,     *)
(* failing or unparseable included template).                              *)
(* TLC runs the render machine on each and checks that include is          *)
(* inlining (IncludeIsInlining).                                           *)
(***************************************************************************)
EXTENDS LqRender, Json, TLC

VARIABLES c, st
vars == <<c, st>>

T(s) == [t |-> "text", s |-> s]
Var(n) == [t |-> "var", name |-> n]
Lit(v) == [t |-> "lit", v |-> v]
Ob(e) == [t |-> "obj", e |-> e]
S(s) == Str(s)
F_LIQ == <<102, 46, 108, 105, 113>>                  \* f.liq
G_LIQ == <<103, 46, 108, 105, 113>>                  \* g.liq
SUB_F == <<115, 117, 98, 47>> \o F_LIQ               \* sub/f.liq
TOPS == << <<116, 46, 108, 105, 113>>, <<100, 47, 116, 46, 108, 105, 113>>, <<100, 47, 101, 47, 116, 46, 108, 105, 113>> >>
VV == <<118>>
WW == <<119>>
NN == <<110>>

\* content of the included file: sees the binding v and the variable w assigned by the includer
Body(tag) == <<T(<<91>> \o tag \o <<58>>), Ob(Var(VV)), T(<<124>>), Ob(Var(WW)), T(<<93>>)>>
DISK == <<68>>  CACHE == <<67>>  DECOY == <<88>>  NEST == <<78>>
Failing == Ob([t |-> "filter", e |-> Lit(IntV(1)), name |-> "divided_by", args |-> <<Lit(IntV(0))>>])

ArgForms == {"lit", "var", "filtered", "assigned"}
Cases ==
  [g : {"basic"}, top : 1..3, rel : {"same", "sub"}, arg : ArgForms, where : {"disk", "cache", "both", "missing"}, decoy : BOOLEAN]
  \cup [g : {"nested"}, top : 1..3, where : {"disk", "cache"}]
  \* the intermediate file lives in a sub-directory: the inner include is still resolved against the
  \* directory of the path the (top-level) template was parsed with; a decoy sits next to the intermediate file
  \cup [g : {"nestedsub"}, top : 1..3, where : {"disk", "cache"}]
  \* a target with no content at all (an empty file, an empty registered source): included, it inserts nothing
  \cup [g : {"empty"}, top : 1..3, where : {"disk", "cache", "both-emptydisk", "both-emptycache"}]
  \* the files change between two renders on the same engine: what is included is what is there at that render
  \cup [g : {"changed"}, top : 1..3, change : {"edit", "remove", "create", "shadow", "unshadow"}, phase : 1..2]
  \* whitespace control inside the included file stops at the file's edges (and the includer's at the include tag)
  \cup [g : {"trimedge"}, top : 1..2, k : 1..5, where : {"disk", "cache"}]
  \* one engine, two templates in different directories that include the same file ("../s/part.liq"), whose own
  \* include ("leaf.liq") is resolved against the directory of the template being rendered
  \cup [g : {"crossdir"}, where : {"disk", "cache"}, phase : 1..2]
  \* the file is the one named by exactly the string value: white space at either end is part of the name
  \cup [g : {"exactname"}, top : 1..2, k : 1..6, where : {"disk", "cache"}]
  \* (a name that begins with a separator is still relative to the includer's directory: d + "/" + "/f.liq")
  \cup [g : {"exactname"}, top : {2}, k : {7}, where : {"disk", "cache"}]
  \* the text of the included file reaches the output whole: also the line end(s) it finishes with
  \cup [g : {"tailnl"}, top : 1..2, k : 1..3, where : {"disk", "cache"}]
  \cup [g : {"loop"}, top : 1..2]
  \cup [g : {"fail"}, top : 1..2, how : {"nonstring-int", "nonstring-nil", "nonstring-arr", "inner-error", "inner-syntax", "missing-nested"}]

\* 1: " f.liq" (next to f.liq)   2: "f.liq " (only f.liq is there)   3: "f.liq\n", captured (next to f.liq)   4: "f.liq" (only " f.liq" is there)
\* 5: "a\f.liq", a backslash in the name (next to a/f.liq)   6: the same with only a/f.liq there
BSL == <<97, 92>> \o F_LIQ
SLA == <<97, 47>> \o F_LIQ
Nm(k) == CASE k = 1 -> <<32>> \o F_LIQ [] k = 2 -> F_LIQ \o <<32>> [] k = 3 -> F_LIQ \o <<10>> [] k = 4 -> F_LIQ [] k \in {5, 6} -> BSL [] k = 7 -> <<47>> \o F_LIQ
TailOf(k) == CASE k = 1 -> <<10>> [] k = 2 -> <<13, 10>> [] k = 3 -> <<10, 10>>
InDir(x, name) == JoinPath(DirOf(TOPS[x.top]), name)
ExactFiles(x) == CASE x.k = 1 -> << <<InDir(x, Nm(1)), Body(IF x.where = "disk" THEN DISK ELSE CACHE)>>, <<InDir(x, F_LIQ), Body(DECOY)>> >>
                   [] x.k = 2 -> << <<InDir(x, F_LIQ), Body(DECOY)>> >>
                   [] x.k = 3 -> << <<InDir(x, Nm(3)), Body(IF x.where = "disk" THEN DISK ELSE CACHE)>>, <<InDir(x, F_LIQ), Body(DECOY)>> >>
                   [] x.k = 4 -> << <<InDir(x, Nm(1)), Body(DECOY)>> >>
                   [] x.k = 5 -> << <<InDir(x, BSL), Body(IF x.where = "disk" THEN DISK ELSE CACHE)>>, <<InDir(x, SLA), Body(DECOY)>> >>
                   [] x.k = 6 -> << <<InDir(x, SLA), Body(DECOY)>> >>
                   [] x.k = 7 -> << <<InDir(x, F_LIQ), Body(IF x.where = "disk" THEN DISK ELSE CACHE)>> >>
RelOf(x) == IF (x.g = "basic" /\ x.rel = "sub") \/ x.g = "nestedsub" THEN SUB_F ELSE F_LIQ
Target(x) == JoinPath(DirOf(TOPS[x.top]), RelOf(x))
IncArg(x) ==
  CASE x.arg = "lit" -> Lit(S(RelOf(x)))
    [] x.arg = "var" -> Var(NN)
    [] x.arg = "filtered" -> [t |-> "filter", e |-> Lit(S(SubSeq(RelOf(x), 1, Len(RelOf(x)) - 4))), name |-> "append", args |-> <<Lit(S(<<46, 108, 105, 113>>))>>]
    [] x.arg = "assigned" -> Var(<<109>>)
AssignW == [t |-> "assign", name |-> WW, e |-> Lit(S(<<87>>))]
Inc(e) == [t |-> "include", e |-> e]

UP_PART == <<46, 46, 47, 115, 47, 112, 46, 108, 105, 113>>         \* ../s/p.liq
S_PART == <<115, 47, 112, 46, 108, 105, 113>>                       \* s/p.liq
LEAF == <<108, 46, 108, 105, 113>>                                  \* l.liq
TopOf(x) == IF x.g = "crossdir" THEN (IF x.phase = 1 THEN <<100, 47, 116, 46, 108, 105, 113>> ELSE <<101, 47, 116, 46, 108, 105, 113>>)
            ELSE TOPS[x.top]
CrossFiles == << <<S_PART, <<T(<<40>>), Inc(Lit(S(LEAF))), T(<<41>>)>> >>, <<<<100, 47>> \o LEAF, Body(DISK)>>, <<<<101, 47>> \o LEAF, Body(DECOY)>> >>
ProgOf(x) ==
  CASE x.g = "crossdir" -> <<T(<<60>>), AssignW, Inc(Lit(S(UP_PART))), T(<<62>>)>>
    [] x.g = "basic" ->
         <<T(<<60>>), AssignW>> \o (IF x.arg = "assigned" THEN <<[t |-> "assign", name |-> <<109>>, e |-> Lit(S(RelOf(x)))]>> ELSE <<>>)
         \o <<Inc(IncArg(x)), T(<<62>>)>>
    [] x.g \in {"nested", "empty", "changed"} -> <<T(<<60>>), AssignW, Inc(Lit(S(F_LIQ))), T(<<62>>)>>
    [] x.g = "nestedsub" -> <<T(<<60>>), AssignW, Inc(Lit(S(SUB_F))), T(<<62>>)>>
    [] x.g = "trimedge" ->
         <<T(<<97, 32, 10>>)>> \o (IF x.k = 5 THEN <<[t |-> "trimL"], Inc(Lit(S(F_LIQ))), [t |-> "trimR"]>> ELSE <<Inc(Lit(S(F_LIQ)))>>) \o <<T(<<32, 10, 32, 98>>)>>
    [] x.g = "tailnl" -> <<T(<<60>>), AssignW, Inc(Lit(S(F_LIQ))), T(<<62>>)>>
    [] x.g = "exactname" ->
         <<T(<<60>>), AssignW>>
         \o (IF x.k = 3 THEN <<[t |-> "capture", name |-> <<109>>, body |-> <<T(Nm(3))>>], Inc(Var(<<109>>))>> ELSE <<Inc(Lit(S(Nm(x.k))))>>)
         \o <<T(<<62>>)>>
    [] x.g = "loop" -> <<[t |-> "for", tag |-> "for", var |-> VV, coll |-> [t |-> "range", a |-> Lit(IntV(1)), b |-> Lit(IntV(3))],
                         body |-> <<Inc(Lit(S(F_LIQ))), T(<<44>>)>>], Ob(Var(VV))>>
    [] x.g = "fail" ->
         <<T(<<60>>),
           Inc(CASE x.how = "nonstring-int" -> Lit(IntV(5)) [] x.how = "nonstring-nil" -> Var(<<113>>)
                 [] x.how = "nonstring-arr" -> Var(<<97>>) [] OTHER -> Lit(S(F_LIQ))),
           T(<<62>>)>>
EnvOf2(x) == << <<VV, S(<<86>>)>>, <<NN, S(RelOf(x))>>, <<<<97>>, Arr(<<S(F_LIQ)>>)>> >>

EdgeBody(k) ==
  CASE k = 1 -> <<[t |-> "trimL"], Ob(Var(VV)), [t |-> "trimR"]>>                                   \* {{- v -}}
    [] k = 2 -> <<T(<<32>>), [t |-> "trimL"], [t |-> "assign", name |-> <<113>>, e |-> Lit(IntV(1))], [t |-> "trimR"], T(<<32, 120, 32>>),
                  [t |-> "trimL"], [t |-> "assign", name |-> <<113>>, e |-> Lit(IntV(2))], [t |-> "trimR"]>>   \* " {%- assign -%} x {%- assign -%}"
    [] k = 3 -> <<Ob(Var(VV)), [t |-> "trimR"]>>                                                     \* {{ v -}}
    [] k = 4 -> <<[t |-> "trimL"], Ob(Var(VV))>>                                                     \* {{- v }}
    [] k = 5 -> <<T(<<32, 10>>), Ob(Var(VV)), T(<<10, 32>>)>>                                        \* the includer's own hyphens: {%- include -%}
FilesOf(x) ==
  CASE x.g = "crossdir" -> IF x.where = "disk" THEN CrossFiles ELSE <<>>
    [] x.g = "trimedge" -> IF x.where = "disk" THEN << <<Target(x), EdgeBody(x.k)>> >> ELSE <<>>
    [] x.g = "basic" ->
         (IF x.where \in {"disk", "both"} THEN << <<Target(x), Body(DISK)>> >> ELSE <<>>)
         \o (IF x.decoy /\ x.top > 1 THEN << <<RelOf(x), Body(DECOY)>> >> ELSE <<>>)
    [] x.g = "nested" ->
         (IF x.where = "disk" THEN << <<Target(x), <<T(<<40>>), Inc(Lit(S(G_LIQ))), T(<<41>>)>> >>,
                                     <<JoinPath(DirOf(TOPS[x.top]), G_LIQ), Body(NEST)>> >> ELSE <<>>)
    [] x.g = "nestedsub" ->
         (IF x.where = "disk" THEN << <<Target(x), <<T(<<40>>), Inc(Lit(S(G_LIQ))), T(<<41>>)>> >>,
                                     <<JoinPath(DirOf(TOPS[x.top]), G_LIQ), Body(NEST)>>,
                                     <<JoinPath(DirOf(Target(x)), G_LIQ), Body(DECOY)>> >> ELSE <<>>)
    [] x.g = "loop" -> << <<Target(x), Body(DISK)>> >>
    [] x.g = "exactname" -> IF x.where = "disk" THEN ExactFiles(x) ELSE <<>>
    [] x.g = "tailnl" -> IF x.where = "disk" THEN << <<Target(x), Body(DISK) \o <<T(TailOf(x.k))>> >> >> ELSE <<>>
    [] x.g = "changed" ->
         (CASE x.change = "edit" -> << <<Target(x), Body(IF x.phase = 1 THEN DISK ELSE DECOY)>> >>
            [] x.change = "remove" -> IF x.phase = 1 THEN << <<Target(x), Body(DISK)>> >> ELSE <<>>
            [] x.change = "create" -> IF x.phase = 1 THEN <<>> ELSE << <<Target(x), Body(DISK)>> >>
            [] x.change = "shadow" -> IF x.phase = 1 THEN <<>> ELSE << <<Target(x), Body(DISK)>> >>       \* cached; then also on disk
            [] x.change = "unshadow" -> IF x.phase = 1 THEN << <<Target(x), Body(DISK)>> >> ELSE <<>>)     \* on disk and cached; then only cached
    [] x.g = "empty" -> (CASE x.where \in {"disk", "both-emptydisk"} -> << <<Target(x), <<>>>> >>
                           [] x.where = "both-emptycache" -> << <<Target(x), Body(DISK)>> >>
                           [] OTHER -> <<>>)
    [] x.g = "fail" ->
         (CASE x.how = "inner-error" -> << <<Target(x), <<T(<<97>>), Failing>>>> >>
            [] x.how = "inner-syntax" -> << <<Target(x), <<T(<<97>>)>>, "bad">> >>
            [] x.how = "missing-nested" -> << <<Target(x), <<Inc(Lit(S(G_LIQ)))>>>> >>
            \* (a file whose name is the very word the undefined variable is spelled with: still no string, still an error)
            [] x.how = "nonstring-nil" -> << <<Target(x), Body(DISK)>>, <<JoinPath(DirOf(TOPS[x.top]), <<113>>), Body(DECOY)>> >>
            [] OTHER -> << <<Target(x), Body(DISK)>> >>)
CacheOf(x) ==
  CASE x.g = "crossdir" -> IF x.where = "cache" THEN CrossFiles ELSE <<>>
    [] x.g = "trimedge" -> IF x.where = "cache" THEN << <<Target(x), EdgeBody(x.k)>> >> ELSE <<>>
    [] x.g = "basic" -> IF x.where \in {"cache", "both"} THEN << <<Target(x), Body(CACHE)>> >> ELSE <<>>
    [] x.g = "nested" -> IF x.where = "cache" THEN << <<Target(x), <<T(<<40>>), Inc(Lit(S(G_LIQ))), T(<<41>>)>> >>,
                                                     <<JoinPath(DirOf(TOPS[x.top]), G_LIQ), Body(NEST)>> >> ELSE <<>>
    [] x.g = "nestedsub" -> IF x.where = "cache" THEN << <<Target(x), <<T(<<40>>), Inc(Lit(S(G_LIQ))), T(<<41>>)>> >>,
                                                        <<JoinPath(DirOf(TOPS[x.top]), G_LIQ), Body(NEST)>>,
                                                        <<JoinPath(DirOf(Target(x)), G_LIQ), Body(DECOY)>> >> ELSE <<>>
    [] x.g = "changed" -> IF x.change \in {"shadow", "unshadow"} THEN << <<Target(x), Body(CACHE)>> >> ELSE <<>>
    [] x.g = "exactname" -> IF x.where = "cache" THEN ExactFiles(x) ELSE <<>>
    [] x.g = "tailnl" -> IF x.where = "cache" THEN << <<Target(x), Body(CACHE) \o <<T(TailOf(x.k))>> >> >> ELSE <<>>
    [] x.g = "empty" -> (CASE x.where \in {"cache", "both-emptycache"} -> << <<Target(x), <<>>>> >>
                           [] x.where = "both-emptydisk" -> << <<Target(x), Body(CACHE)>> >>
                           [] OTHER -> <<>>)
    [] OTHER -> <<>>

Cx(x) == [Cx0 EXCEPT !.path = TopOf(x), !.fs = FilesOf(x), !.cache = CacheOf(x)]
Init == \E x \in Cases : c = x /\ st = InitSt(ProgOf(x), EnvOf(EnvOf2(x)), Sink0, Cx(x))
Next == st.status = "run" /\ st' = Step(Cx(c), st) /\ c' = c

\* ------------------------------------------------------------------ laws
Decided == st.status \in {"run", "ok", "error"}
Tag(x) == IF x.where \in {"disk", "both"} THEN DISK ELSE CACHE
IncludeIsInlining ==
  (c.g = "basic" /\ st.status # "run") =>
     IF c.where = "missing" THEN st.status = "error"
     ELSE st.status = "ok" /\ st.sink.acc = <<60, 91>> \o Tag(c) \o <<58, 86, 124, 87, 93, 62>>
NestedAndLoop ==
  /\ (c.g \in {"nested", "nestedsub"} /\ st.status # "run") => st.status = "ok" /\ st.sink.acc = <<60, 40, 91>> \o NEST \o <<58, 86, 124, 87, 93, 41, 62>>
  /\ (c.g = "loop" /\ st.status # "run") =>
        st.status = "ok" /\ st.sink.acc = Flatten([i \in 1..3 |-> <<91>> \o DISK \o <<58>> \o IntText(i) \o <<124, 93, 44>>]) \o <<86>>
ExactName == (c.g = "exactname" /\ st.status # "run") =>
               IF c.k \in {1, 3, 5, 7} THEN st.status = "ok" /\ st.sink.acc = <<60, 91>> \o Tag(c) \o <<58, 86, 124, 87, 93, 62>>
               ELSE st.status = "error"
TailKept == (c.g = "tailnl" /\ st.status # "run") =>
              st.status = "ok" /\ st.sink.acc = <<60, 91>> \o Tag(c) \o <<58, 86, 124, 87, 93>> \o TailOf(c.k) \o <<62>>
EmptyIsIncluded == (c.g = "empty" /\ st.status # "run") =>
                     st.status = "ok" /\ st.sink.acc = (IF c.where = "both-emptycache" THEN <<60, 91>> \o DISK \o <<58, 86, 124, 87, 93, 62>> ELSE <<60, 62>>)
Inl(tag) == <<60, 91>> \o tag \o <<58, 86, 124, 87, 93, 62>>
ChangedFilesSeen == (c.g = "changed" /\ st.status # "run") =>
   LET want == CASE c.change = "edit" -> IF c.phase = 1 THEN Inl(DISK) ELSE Inl(DECOY)
                 [] c.change = "remove" -> IF c.phase = 1 THEN Inl(DISK) ELSE <<>>
                 [] c.change = "create" -> IF c.phase = 1 THEN <<>> ELSE Inl(DISK)
                 [] c.change = "shadow" -> IF c.phase = 1 THEN Inl(CACHE) ELSE Inl(DISK)
                 [] c.change = "unshadow" -> IF c.phase = 1 THEN Inl(DISK) ELSE Inl(CACHE)
   IN  IF want = <<>> THEN st.status = "error" ELSE st.status = "ok" /\ st.sink.acc = want
\* include inserts what rendering the file by itself gives: its hyphens do not reach the includer's text
TrimStopsAtTheEdge == (c.g = "trimedge" /\ st.status # "run") =>
   st.status = "ok" /\ st.sink.acc = (IF c.k = 5 THEN <<97>> ELSE <<97, 32, 10>>)
                                     \o Render([Cx0 EXCEPT !.path = TOPS[c.top]], EdgeBody(c.k), EnvOf(EnvOf2(c))).out
                                     \o (IF c.k = 5 THEN <<98>> ELSE <<32, 10, 32, 98>>)
CrossDirLaw == (c.g = "crossdir" /\ st.status # "run") =>
   st.status = "ok" /\ st.sink.acc = <<60, 40, 91>> \o (IF c.phase = 1 THEN DISK ELSE DECOY) \o <<58, 86, 124, 87, 93, 41, 62>>
FailuresFail == (c.g = "fail" /\ st.status # "run") => st.status = "error"
\* the includer's variables are untouched by the include (it renders with a copy)
IncluderEnvKept == \A j \in 1..Len(st.k) : (st.k[j].f = "seq" /\ st.k[j].end = "include") => Same(Lookup(st.k[j].aux, VV), Str(<<86>>)) \/ c.g = "loop"

IdOf(x) ==
  CASE x.g = "basic" -> "basic-" \o ToString(x.top) \o "-" \o x.rel \o "-" \o x.arg \o "-" \o x.where \o "-" \o ToString(x.decoy)
    [] x.g \in {"nested", "nestedsub", "empty"} -> x.g \o "-" \o ToString(x.top) \o "-" \o x.where
    [] x.g = "changed" -> "changed-" \o ToString(x.top) \o "-" \o x.change \o "-" \o ToString(x.phase)
    [] x.g = "crossdir" -> "crossdir-" \o x.where \o "-" \o ToString(x.phase)
    [] x.g = "trimedge" -> "trimedge-" \o ToString(x.top) \o "-" \o ToString(x.k) \o "-" \o x.where
    [] x.g = "tailnl" -> "tailnl-" \o ToString(x.top) \o "-" \o ToString(x.k) \o "-" \o x.where
    [] x.g = "exactname" -> "exactname-" \o ToString(x.top) \o "-" \o ToString(x.k) \o "-" \o x.where
    [] x.g = "loop" -> "loop-" \o ToString(x.top)
    [] x.g = "fail" -> "fail-" \o ToString(x.top) \o "-" \o x.how
\* (the second phase of a "changed" case is observed by the harness itself, after the first, on the same engine)
\* the name in a variable that is a Drop, a pointer, a Drop of a Drop: its string value names the file all the same
VarReprCase == (c.g = "basic" /\ c.arg = "var" /\ ~c.decoy) =>
  \A h \in {"drop", "ptr", "dropdrop"} :
    PrintT(ToJson([id |-> h \o "-" \o IdOf(c), kind |-> "render", prog |-> ProgOf(c), env |-> EnvOf2(c), path |-> TopOf(c),
                   files |-> FilesOf(c), cache |-> CacheOf(c), usedir |-> TRUE, repr |-> [n |-> h]]))
EmitCase == (st.status # "run" /\ ~(c.g \in {"changed", "crossdir"} /\ c.phase = 2)) =>
  /\ VarReprCase
  /\ PrintT(ToJson([id |-> IdOf(c), kind |-> "render", prog |-> ProgOf(c), env |-> EnvOf2(c), path |-> TopOf(c),
                 files |-> FilesOf(c), cache |-> CacheOf(c), usedir |-> TRUE]
                @@ (IF c.g = "changed" THEN [then |-> [id |-> IdOf([c EXCEPT !.phase = 2]), files |-> FilesOf([c EXCEPT !.phase = 2])]] ELSE <<>>)
                @@ (IF c.g = "crossdir" THEN [then |-> [id |-> IdOf([c EXCEPT !.phase = 2]), path |-> TopOf([c EXCEPT !.phase = 2])]] ELSE <<>>)))
=============================================================================
