------------------------------ MODULE TraceC20 ------------------------------
(***************************************************************************)
(* Trace validation for C20.  The harness wraps the caller's writer and    *)
(* logs, for each run of a template against a writer failing at its k-th   *)
(* call, the events                                                        *)
(*   start  (program, bindings, reference output of a fault-free run)      *)
(*   write  (bytes offered, number accepted, failed)   one per Write call  *)
(*   end    (ok | error | panic, is SourceError, carries the failure)      *)
(* The trace specification replays the writes through the sink of the      *)
(* specification (SinkWrite) and requires, in every state, that what the   *)
(* sink has accepted is a prefix of the reference output; at the end, that *)
(* a run whose sink failed returned a SourceError carrying that failure    *)
(* (never success, never a panic) and that a run without a fault returned  *)
(* success with exactly the reference output, which itself must be the     *)
(* output the specification predicts (a template that the specification    *)
(* says fails by itself may return its own error instead).  Number and size of the writes are   *)
(* logged facts, not expectations.                                         *)
(***************************************************************************)
EXTENDS LqRender, Json, TLC, IOUtils

Trace == ndJsonDeserialize(IOEnv.LQ_TRACE)
VARIABLES l, sink, ref, bad, rst
vars == <<l, sink, ref, bad, rst>>

Init == l = 1 /\ sink = Sink0 /\ ref = <<>> /\ bad = "" /\ rst = "ok"

Start(t) ==
  /\ t.ev = "start"
  /\ sink' = Sink0
  /\ ref' = t.ref
  /\ LET r == Render(Cx0, t.prog, EnvOf(t.env)) IN
       /\ rst' = r.status     \* "ok", "error" (the template itself fails) or "unspec"
       /\ bad' = IF r.status = "ok" /\ r.out # t.ref THEN "the fault-free output differs from the reference semantics" ELSE ""

Write(t) ==
  /\ t.ev = "write"
  /\ UNCHANGED <<ref, rst>>
  \* the implementation's call, replayed through the specification's sink
  /\ sink' = SinkWrite([sink EXCEPT !.failAt = IF t.failed THEN sink.calls + 1 ELSE 0, !.keep = t.n], t.b)
  /\ bad' = IF bad # "" THEN bad
            ELSE IF sink.failed THEN "the writer was called again after it had failed"
            ELSE IF ~IsPrefixOf(sink'.acc, ref) THEN "accepted bytes are not a prefix of the fault-free output"
            ELSE ""

End(t) ==
  /\ t.ev = "end"
  /\ UNCHANGED <<sink, ref, rst>>
  /\ LET verdict ==
           IF bad # "" THEN bad
           ELSE IF t.outcome = "panic" THEN "panic"
           ELSE IF sink.failed /\ t.outcome = "ok" THEN "success reported although the writer failed"
           ELSE IF sink.failed /\ ~(t.outcome = "error" /\ t.srcerr /\ t.carries) THEN "the error is not a SourceError carrying the writer's failure"
           ELSE IF ~sink.failed /\ t.outcome = "ok" /\ sink.acc # ref THEN "fault-free run with a different output"
           ELSE IF ~sink.failed /\ t.outcome # "ok" /\ rst = "ok" THEN "error without a fault"
           ELSE ""
     IN  /\ bad' = ""
         /\ IF verdict = "" THEN PrintT(<<"V", t.id, "ok">>)
            ELSE PrintT(<<"V", t.id, "REJECT", ToJson([why |-> verdict])>>)

Next == l <= Len(Trace) /\ l' = l + 1 /\ LET t == Trace[l] IN Start(t) \/ Write(t) \/ End(t)

AcceptedIsPrefix == bad = "" => IsPrefixOf(sink.acc, ref)
TraceAccepted == TLCGet("stats").diameter - 1 = Len(Trace)
=============================================================================
