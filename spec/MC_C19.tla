------------------------------- MODULE MC_C19 -------------------------------
(***************************************************************************)
(* C19 - custom delimiters are equivalent to the defaults.                 *)
(* Scanner level: for every delimiter quadruple of the pool (lengths 1-4,  *)
(* regexp metacharacters, shared characters, every subset of positions     *)
(* left empty = default) and every token list of up to N tokens (texts,    *)
(* objects, tags, every hyphen combination), scanning the list spelled     *)
(* with those delimiters gives the list back - types, inner text, hyphen   *)
(* flags and lines (SpellScanRoundTrip) - so tokenisation does not depend  *)
(* on the spelling of the delimiters.  Render level: fixed programs with   *)
(* hyphens, raw, comment, default delimiter strings as text and a failing  *)
(* object on a later line are emitted with each quadruple for replay on an *)
(* engine configured with Delims.                                          *)
(***************************************************************************)
EXTENDS LqScan, LqRender, Json, TLC

CONSTANT N
VARIABLES c
vars == <<c>>

\* ----------------------------------------------------------- quadruples
LT == 60  GT == 62  LB == 91  RB == 93  LP == 40  RP == 41  DL == 36  HS == 35  ST == 42  QM == 63  PL == 43  CR == 94  AT == 64  TD == 126
Base == << <<LT, LT>>, <<GT, GT>>, <<LT, QM>>, <<QM, GT>> >>
QuadsFull == <<
  Base,
  << <<LB, LB>>, <<RB, RB>>, <<LB, HS>>, <<HS, RB>> >>,
  << <<LP, LP>>, <<RP, RP>>, <<LP, ST>>, <<ST, RP>> >>,
  << <<DL>>, <<HS>>, <<AT>>, <<TD>> >>,                                   \* length 1
  << <<LT>>, <<GT>>, <<LB>>, <<RB>> >>,
  << <<DL, LP, LP>>, <<RP, RP, DL>>, <<DL, LB, LB>>, <<RB, RB, RB>> >>,     \* length 3, repeated characters
  << <<LT, ST, ST, ST>>, <<ST, ST, ST, GT>>, <<LT, PL, PL, PL>>, <<PL, PL, PL, GT>> >>,   \* length 4
  << <<LP, LP>>, <<RP, RP>>, <<LB, LB>>, <<RP, RP, RP>> >>,               \* tagRight ")))" , objectRight its prefix-free sibling "))"? no: see NonPrefixing
  << <<CR, CR>>, <<DL, DL>>, <<CR, ST>>, <<ST, DL>> >>,                   \* anchors
  << <<QM, QM>>, <<PL, PL>>, <<QM, LP>>, <<RP, PL>> >>,
  << <<LT, AT>>, <<AT, GT>>, <<LT, HS, HS>>, <<HS, GT>> >>,               \* mixed lengths 2/2/3/2
  << <<LB>>, <<RB, RB, RB, RB>>, <<LP, LP, LP>>, <<RP>> >>,                \* 1/4/3/1
  \* pairs of quadruples that cut the same character string differently (a process-wide cache keyed carelessly would confuse them)
  << <<LP>>, <<RP, RP>>, <<LT>>, <<GT>> >>,
  << <<LP, RP>>, <<RP>>, <<LT>>, <<GT>> >>,
  << <<DL, DL>>, <<HS, HS>>, <<AT>>, <<TD>> >>,
  << <<DL, DL, HS>>, <<HS>>, <<AT>>, <<TD>> >>,
  \* an object delimiter longer than a whole short tag ("<x>"): the end of the source comes before it would
  << <<LP, LP, LP, LP>>, <<RP, RP, RP, RP>>, <<LT>>, <<GT>> >>,
  \* punctuation beyond ASCII (characters of two and three bytes): the guillemets, one of them after an ASCII sign
  << <<194, 171>>, <<194, 187>>, <<226, 128, 185>>, <<226, 128, 186>> >>,
  << <<LB, LB>>, <<RB, RB>>, <<194, 171, 37>>, <<37, 194, 187>> >>,
  << <<194, 161>>, <<33>>, <<194, 191>>, <<63, 226, 128, 186>> >>,
  \* delimiters that hold a hyphen themselves (the comment signs of HTML), and a one-character object delimiter that
  \* an object's own text may begin with: the hyphen that controls white space is the one right inside the delimiter
  << <<LT, 33, 45, 45>>, <<45, 45, GT>>, <<LT, 37>>, <<37, GT>> >>,
  << <<LP>>, <<RB>>, <<LT, 37>>, <<37, GT>> >>,
  \* ... the same signs as tag delimiters, and arrows (a hyphen at the inner edge of each delimiter)
  << <<LT, LT>>, <<GT, GT>>, <<LT, 33, 45, 45>>, <<45, 45, GT>> >>,
  << <<LT, 45>>, <<45, GT>>, <<LT, 37>>, <<37, GT>> >>
>>
NonPrefixing(q) == \A i, j \in 1..4 : i # j => ~IsPrefixOf(q[i], q[j])
Quads == SelectSeq(QuadsFull, NonPrefixing)
\* every subset of positions left empty (= default) on the base quadruple
EmptySubsets == [m \in 0..15 |-> [i \in 1..4 |-> IF (m \div (2^(i - 1))) % 2 = 1 THEN <<>> ELSE Base[i]]]

\* --------------------------------------------------------------- tokens
Texts == << <<97>>, <<32, 98, 10>>, <<10>>, <<120, 32, 121>> >>
\* (the last one: a range that starts with a parenthesis and a minus sign, written tight)
ObjInner == << <<32, 120, 32>>, <<120>>, <<32, 39, 118, 39, 32, 124, 32, 117, 112, 99, 97, 115, 101, 32>>, <<40, 45, 50, 46, 46, 49, 41, 32>> >>
TagInner == << <<32, 97, 115, 115, 105, 103, 110, 32, 121, 32, 61, 32, 49, 32>>, <<98, 114, 101, 97, 107>>, <<32, 105, 102, 32, 120, 10>> >>
TokPool == [ty : {"text"}, i : 1..Len(Texts)]
           \cup [ty : {"obj"}, i : 1..Len(ObjInner), tl : BOOLEAN, tr : BOOLEAN]
           \cup [ty : {"tag"}, i : 1..Len(TagInner), tl : BOOLEAN, tr : BOOLEAN]
RECURSIVE TokSeqs(_)
TokSeqs(n) == IF n = 0 THEN {<<>>}
              ELSE UNION {{<<x>> \o t : t \in {u \in TokSeqs(n - 1) : ~(u # <<>> /\ u[1].ty = "text" /\ x.ty = "text")}} : x \in TokPool}

Hy(b) == IF b THEN <<45>> ELSE <<>>
SpellTok(x, d) ==
  CASE x.ty = "text" -> Texts[x.i]
    [] x.ty = "obj" -> d[1] \o Hy(x.tl) \o ObjInner[x.i] \o Hy(x.tr) \o d[2]
    [] x.ty = "tag" -> d[3] \o Hy(x.tl) \o TagInner[x.i] \o Hy(x.tr) \o d[4]
Spell(xs, d) == Flatten([i \in 1..Len(xs) |-> SpellTok(xs[i], d)])

\* (an object whose own text holds the closing delimiter cannot be written with it)
Spellable(xs, d) == \A k \in 1..Len(xs) : xs[k].ty = "obj" => ~HasSub(ObjInner[xs[k].i], d[2])
Cases == {x \in [g : {"scan"}, q : 1..Len(Quads), xs : UNION {TokSeqs(n) : n \in 0..N}, line0 : {0, 7}] : Spellable(x.xs, EffDelims(Quads[x.q]))}
         \cup {x \in [g : {"scan"}, q : {0}, m : 0..15, xs : UNION {TokSeqs(n) : n \in 0..2}, line0 : {0}] : Spellable(x.xs, EffDelims(EmptySubsets[x.m]))}
         \cup [g : {"render"}, q : 1..Len(Quads), m : {0}, k : 1..9]
         \cup [g : {"render"}, q : {0}, m : {0, 3, 5, 10, 12, 15}, k : 1..9]
QuadOf(x) == IF x.q = 0 THEN EmptySubsets[x.m] ELSE Quads[x.q]

\* ------------------------------------------------------------ scanner law
\* what the scanner must give back for a spelled token list
Expected(xs, d, line0) ==
  [i \in 1..Len(xs) |->
     LET src == SpellTok(xs[i], d)
         line == line0 + Newlines(Flatten([j \in 1..(i - 1) |-> SpellTok(xs[j], d)]))
     IN  IF xs[i].ty = "text" THEN [ty |-> "text", src |-> src, line |-> line]
         ELSE [ty |-> xs[i].ty, src |-> src, line |-> line, tl |-> xs[i].tl, tr |-> xs[i].tr]]
SpellScanRoundTrip ==
  c.g = "scan" =>
    LET d == EffDelims(QuadOf(c)) IN Tokens(Spell(c.xs, d), c.line0, QuadOf(c)) = Expected(c.xs, d, c.line0)
\* the same token list spelled with the defaults scans to the same list up to the spelling of the delimiters
DelimEquivalence ==
  c.g = "scan" =>
    LET d == EffDelims(QuadOf(c))
        a == Tokens(Spell(c.xs, d), c.line0, QuadOf(c))
        b == Tokens(Spell(c.xs, DefaultDelims), c.line0, DefaultDelims)
    IN  /\ Len(a) = Len(b)
        /\ \A i \in 1..Len(a) : a[i].ty = b[i].ty /\ a[i].line = b[i].line
                                /\ (a[i].ty # "text" => a[i].tl = b[i].tl /\ a[i].tr = b[i].tr)
                                /\ (a[i].ty = "text" => a[i].src = b[i].src)
EmptySelectsDefault == \A m \in 0..15 : \A i \in 1..4 : EffDelims(EmptySubsets[m])[i] = IF EmptySubsets[m][i] = <<>> THEN DefaultDelims[i] ELSE Base[i]

\* ---------------------------------------------------------- render level
T(s) == [t |-> "text", s |-> s]
Var(n) == [t |-> "var", name |-> n]
Lit(v) == [t |-> "lit", v |-> v]
Ob(e) == [t |-> "obj", e |-> e]
TL == [t |-> "trimL"]
TR == [t |-> "trimR"]
X == <<120>>
DefaultsAsText == <<123, 123, 32, 120, 32, 125, 125, 123, 37, 32, 105, 102, 32, 37, 125>>       \* "{{ x }}{% if %}"
Failing == Ob([t |-> "filter", e |-> Lit(IntV(1)), name |-> "divided_by", args |-> <<Lit(IntV(0))>>])
IncName == <<105, 46, 108, 105, 113>>
IncBody == <<T(<<32, 113, 32>>), TL, Ob(Var(X)), TR, T(<<32, 10>>), [t |-> "assign", name |-> <<121>>, e |-> Lit(IntV(2))], Ob(Var(<<121>>))>>
TopPath == <<116, 46, 108, 105, 113>>
RProgs(custom) == <<
  <<T(<<97, 32>>), TL, Ob(Var(X)), TR, T(<<32, 98>>)>>,
  <<T(<<97, 10>>), [t |-> "if", branches |-> <<[c |-> Var(X), body |-> <<TR, T(<<32, 121, 32>>), TL>>], [c |-> [t |-> "else"], body |-> <<T(<<110>>)>>]>>], T(<<10, 122>>)>>,
  <<[t |-> "for", tag |-> "for", var |-> <<105>>, coll |-> Var(<<108>>), body |-> <<Ob(Var(<<105>>)), TR, T(<<32, 44>>)>>]>>,
  <<[t |-> "raw", s |-> IF custom THEN DefaultsAsText ELSE <<32, 114, 32>>], [t |-> "comment", s |-> <<32, 113, 32>>], T(<<33>>)>>,
  <<T(IF custom THEN DefaultsAsText ELSE <<116>>), Ob(Var(X))>>,
  <<T(<<97, 10, 98, 10>>), [t |-> "assign", name |-> <<121>>, e |-> Lit(IntV(2))], T(<<10>>), Failing>>,
  <<[t |-> "capture", name |-> <<99>>, body |-> <<T(<<32, 113, 32>>), TL, Ob(Var(X))>>], Ob(Var(<<99>>))>>,
  <<T(<<10, 10>>), [t |-> "if", branches |-> <<[c |-> Lit(Bool(TRUE)), body |-> <<T(<<10>>), Failing>>]>>]>>,
  \* an included file is written with the engine's delimiters as well (its hyphens work, its objects are evaluated)
  <<T(<<115>>), [t |-> "include", e |-> Lit(Str(IncName))], T(<<101>>)>>
>>
REnv == << <<X, Str(<<88>>)>>, <<<<108>>, Arr(<<IntV(1), IntV(2)>>)>> >>
\* default delimiter strings are ordinary text only when none of the four positions is a default
AllCustom(x) == x.q # 0 \/ x.m = 0

Init == c \in Cases
Next == UNCHANGED vars

\* (the included source sits in the engine's cache for the cases of even quadruple number, on disk for the odd ones)
IncFields == IF c.g = "render" /\ c.k = 9
             THEN [path |-> TopPath, usedir |-> TRUE] @@ (IF (c.q + c.m) % 2 = 0 THEN [cache |-> << <<IncName, IncBody>> >>] ELSE [files |-> << <<IncName, IncBody>> >>])
             ELSE <<>>
IdOf(x) == IF x.g = "scan" THEN "scan-" \o ToString(x.q) \o "-" \o (IF x.q = 0 THEN ToString(x.m) ELSE "") \o "-" \o ToString(x.line0) \o "-" \o ToString(x.xs)
           ELSE "render-" \o ToString(x.q) \o "-" \o ToString(x.m) \o "-" \o ToString(x.k)
EmitCase ==
  IF c.g = "scan"
  THEN PrintT(ToJson([id |-> IdOf(c), kind |-> "scan", tm |-> "TraceC05", src |-> Spell(c.xs, EffDelims(QuadOf(c))),
                      delims |-> QuadOf(c), line0 |-> c.line0]))
  ELSE /\ PrintT(ToJson([id |-> IdOf(c), kind |-> "render", tm |-> "TraceRender", prog |-> RProgs(AllCustom(c))[c.k], env |-> REnv,
                         spell |-> [delims |-> QuadOf(c)], chkline |-> TRUE, line0 |-> 1] @@ IncFields))
       \* the same on an engine that had been given other delimiters before: the last call of Delims is the one that counts,
       \* and a position it leaves empty is the default again
       /\ PrintT(ToJson([id |-> "re" \o IdOf(c), kind |-> "render", tm |-> "TraceRender", prog |-> RProgs(AllCustom(c))[c.k], env |-> REnv,
                         spell |-> [delims |-> QuadOf(c)], chkline |-> TRUE, line0 |-> 1,
                         predelims |-> << <<60, 60>>, <<62, 62>>, <<60, 37>>, <<37, 62>> >>] @@ IncFields))
=============================================================================
