------------------------------ MODULE TraceC07 ------------------------------
(***************************************************************************)
(* Trace validation for C07.  An event carries a program with exactly one  *)
(* failing construct, the parse location (path, starting line) and what    *)
(* the implementation returned.  The expected line is computed from the    *)
(* program: for a construct that fails at parse time, the starting line    *)
(* plus the newlines that precede it in document order; for a render-time  *)
(* failure, the line the render machine reports.                           *)
(***************************************************************************)
EXTENDS LqRender, Json, TLC, IOUtils

Trace == ndJsonDeserialize(IOEnv.LQ_TRACE)
VARIABLE l

ParseBad == {"badobj", "badtag", "unknowntag", "strayend", "strayclause", "badif", "openif", "openraw", "opencomment"}
\* newlines before the first parse-time failing node, in document order: [found, n]
RECURSIVE ScanSeq(_, _)
RECURSIVE ScanNode(_, _)
Padded(n, acc) == [found |-> acc.found, n |-> acc.n + Fld(n, "padnl", 0)]
ScanBodies(bs, acc) ==
  LET F[k \in 0..Len(bs)] == IF k = 0 THEN acc ELSE IF F[k - 1].found THEN F[k - 1] ELSE ScanSeq(bs[k].body, F[k - 1]) IN F[Len(bs)]
ScanNode(n, acc) ==
  IF acc.found THEN acc
  ELSE CASE n.t \in ParseBad -> [found |-> TRUE, n |-> acc.n]
         [] n.t \in {"text", "raw", "comment"} -> [found |-> FALSE, n |-> acc.n + Newlines(n.s)]
         [] n.t = "if" -> ScanBodies(n.branches, Padded(n, acc))
         [] n.t = "case" -> ScanBodies(n.whens, ScanSeq(Fld(n, "pre", <<>>), Padded(n, acc)))
         [] n.t = "for" -> LET a1 == ScanSeq(n.body, Padded(n, acc)) IN IF a1.found THEN a1 ELSE ScanSeq(Fld(n, "else", <<>>), a1)
         [] n.t = "capture" -> ScanSeq(n.body, Padded(n, acc))
         [] OTHER -> [found |-> FALSE, n |-> acc.n + Fld(n, "padnl", 0)]
ScanSeq(ns, acc) ==
  LET F[k \in 0..Len(ns)] == IF k = 0 THEN acc ELSE ScanNode(ns[k], F[k - 1]) IN F[Len(ns)]

Want(t) ==
  LET line0 == Fld(t, "line0", 0)
      cx == [Cx0 EXCEPT !.strict = Fld(t, "strict", FALSE), !.path = Fld(t, "path", <<>>), !.line0 = line0]
  IN  IF t.parsebad THEN [status |-> "error", line |-> line0 + ScanSeq(t.prog, [found |-> FALSE, n |-> 0]).n]
      ELSE LET r == Render(cx, t.prog, EnvOf(t.env)) IN [status |-> r.status, line |-> r.err.line]

Why(t, w) ==
  IF w.status # "error" THEN "the reference does not fail here (generator error)"
  ELSE IF t.outcome = "panic" THEN "panic"
  ELSE IF t.outcome # "error" THEN "no error was returned"
  ELSE IF ~t.srcerr THEN "the error is not a SourceError, or output was returned together with it"
  ELSE IF w.line >= 0 /\ t.errline # w.line THEN "LineNumber is not the line on which the failing tag or object begins"
  ELSE IF "errline2" \in DOMAIN t /\ w.line >= 0 /\ t.errline2 # w.line + 17
       THEN "parsed again on the same engine 17 lines further down, the error does not carry the new LineNumber"
  ELSE IF t.errpath # Fld(t, "path", <<>>) THEN "Path is not the path the template was parsed with"
  ELSE IF Fld(t, "wantcause", FALSE) /\ ~t.hascause THEN "the wrapped error is not available through Cause"
  ELSE IF Fld(t, "wantcausekind", "") # "" /\ "causekind" \in DOMAIN t /\ t.causekind # t.wantcausekind
       THEN "Cause is not the error that was wrapped (the conversion error / the filter's error)"
  ELSE IF "msgok" \in DOMAIN t /\ ~t.msgok THEN "the message does not name the problem"
  ELSE ""

Init == l = 1
Next ==
  /\ l <= Len(Trace)
  /\ l' = l + 1
  /\ LET t == Trace[l] w == Want(t) y == Why(t, w) IN
       IF y = "" THEN PrintT(<<"V", t.id, "ok">>)
       ELSE PrintT(<<"V", t.id, "REJECT", ToJson([why |-> y, line |-> w.line])>>)
TraceAccepted == TLCGet("stats").diameter - 1 = Len(Trace)
=============================================================================
