------------------------------- MODULE LqTrim -------------------------------
(***************************************************************************)
(* C13 - the declarative reading of whitespace control.                    *)
(*                                                                         *)
(* The parser puts the marker of a hyphen next to the tag it belongs to,   *)
(* in the sequence where the neighbouring literal text (if any) also       *)
(* lives, so "the hyphen faces literal text" is a local condition:         *)
(*   a trimL faces text iff the node before it in its sequence is a text;  *)
(*   a trimR faces text iff the node after it in its sequence is a text;   *)
(* at the edges of the whole template there is nothing to remove and the   *)
(* hyphen counts as facing (empty) text.                                   *)
(*                                                                         *)
(* StripAdj is the source-level transformation of the statement: drop the  *)
(* hyphens and delete the whitespace of the facing text on that side.      *)
(* DropTrims just drops the hyphens.                                       *)
(***************************************************************************)
EXTENDS LqRender

IsTrim(n) == n.t \in {"trimL", "trimR"}

RECURSIVE FacingSeq(_, _)
RECURSIVE FacingNode(_)
FacingBodies(bs) == \A i \in 1..Len(bs) : FacingSeq(bs[i].body, FALSE)
FacingNode(n) ==
  CASE n.t = "if" -> FacingBodies(n.branches)
    [] n.t = "case" -> FacingSeq(Fld(n, "pre", <<>>), FALSE) /\ FacingBodies(n.whens)
    [] n.t = "for" -> FacingSeq(n.body, FALSE) /\ FacingSeq(Fld(n, "else", <<>>), FALSE)
    [] n.t = "capture" -> FacingSeq(n.body, FALSE)
    [] OTHER -> TRUE
FacingSeq(ns, root) ==
  \A i \in 1..Len(ns) :
    CASE ns[i].t = "trimL" -> IF i = 1 THEN root ELSE ns[i - 1].t = "text"
      [] ns[i].t = "trimR" -> IF i = Len(ns) THEN root ELSE ns[i + 1].t = "text"
      [] OTHER -> FacingNode(ns[i])
Facing(prog) == FacingSeq(prog, TRUE)

RECURSIVE MapSeq(_, _)
RECURSIVE MapNode(_, _)
MapBodies(bs, strip) == [i \in 1..Len(bs) |-> [bs[i] EXCEPT !.body = MapSeq(bs[i].body, strip)]]
MapNode(n, strip) ==
  CASE n.t = "if" -> [n EXCEPT !.branches = MapBodies(n.branches, strip)]
    [] n.t = "case" -> [n EXCEPT !.whens = MapBodies(n.whens, strip), !.pre = MapSeq(Fld(n, "pre", <<>>), strip)]
    [] n.t = "for" -> IF "else" \in DOMAIN n
                      THEN [n EXCEPT !.body = MapSeq(n.body, strip), !["else"] = MapSeq(n["else"], strip)]
                      ELSE [n EXCEPT !.body = MapSeq(n.body, strip)]
    [] n.t = "capture" -> [n EXCEPT !.body = MapSeq(n.body, strip)]
    [] OTHER -> n
\* drop the trim markers of a sequence; with strip, also delete the facing whitespace
MapSeq(ns, strip) ==
  LET fix(i) ==
        IF ns[i].t = "text" /\ strip THEN
          LET s1 == IF i < Len(ns) /\ ns[i + 1].t = "trimL" THEN RStrip(ns[i].s) ELSE ns[i].s
              s2 == IF i > 1 /\ ns[i - 1].t = "trimR" THEN LStrip(s1) ELSE s1
          IN  <<[ns[i] EXCEPT !.s = s2]>>
        ELSE IF IsTrim(ns[i]) THEN <<>>
        ELSE <<MapNode(ns[i], strip)>>
  IN  Flatten([i \in 1..Len(ns) |-> fix(i)])
StripAdj(prog) == MapSeq(prog, TRUE)
DropTrims(prog) == MapSeq(prog, FALSE)
=============================================================================
