------------------------------- MODULE MC_C11 -------------------------------
(***************************************************************************)
(* C11 - loops visit exactly the selected items with consistent forloop    *)
(* state.  Exhaustive exploration of the render machine (LqRender!Step)    *)
(* on families of probe programs:                                          *)
(*   G1 modifier grid   length x offset x limit x reversed                 *)
(*   G2 signals         break / continue at every position                 *)
(*   G3 ranges          (lo..hi) for all small endpoints, with else        *)
(*   G4 tablerow        length x cols                                      *)
(*   G5 collections     nil, empty, maps; for-else                         *)
(*   G6 cycle           groups and value lists, per loop                   *)
(*   G7 nesting         break/continue act on the innermost loop only      *)
(* Every step of every behaviour is a TLC state, so the invariants below   *)
(* are evaluated in every intermediate render state, and the terminal      *)
(* output is compared with a declarative definition written independently  *)
(* of the machine.  Each case is emitted as JSON (Emit) for replay against *)
(* the implementation.                                                     *)
(***************************************************************************)
EXTENDS LqRender, Json, TLC

CONSTANT L        \* largest array length explored

VARIABLES c, st   \* the case, the render state
vars == <<c, st>>

None == 0 - 9     \* "modifier absent"

\* ------------------------------------------------------------ byte texts
T(s) == [t |-> "text", s |-> s]
Ob(e) == [t |-> "obj", e |-> e]
Var(n) == [t |-> "var", name |-> n]
Lit(v) == [t |-> "lit", v |-> v]
X == <<120>>
Y == <<121>>
A == <<97>>
FL(p) == Ob([t |-> "prop", e |-> Var(B_forloop), name |-> p])
Colon == T(<<58>>)
Probe(v) == <<T(<<91>>), Ob(Var(v)), Colon, FL(B_index), Colon, FL(B_index0), Colon, FL(B_rindex), Colon,
              FL(B_rindex0), Colon, FL(B_length), Colon, FL(B_first), Colon, FL(B_last), T(<<93>>)>>
ElseBody == <<T(<<69>>)>>                 \* "E"

BoolText(b) == IF b THEN <<116, 114, 117, 101>> ELSE <<102, 97, 108, 115, 101>>
\* what Probe prints in iteration k of n for an item printing as `it`
ProbeText(it, k, n) ==
  <<91>> \o it \o <<58>> \o IntText(k) \o <<58>> \o IntText(k - 1) \o <<58>> \o IntText(n - k + 1) \o <<58>>
  \o IntText(n - k) \o <<58>> \o IntText(n) \o <<58>> \o BoolText(k = 1) \o <<58>> \o BoolText(k = n) \o <<93>>

Ints(n) == [i \in 1..n |-> IntV(i)]

\* -------------------------------------------------------------- the cases
ModVals == {None} \cup ((0 - 1)..(L + 1))
G1 == [g : {"grid"}, len : 0..L, off : ModVals, lim : ModVals, rev : BOOLEAN, asvar : BOOLEAN]
G2 == {x \in [g : {"signal"}, len : 1..L, sig : {"break", "continue"}, at : 1..L, rev : BOOLEAN,
              off : {None, 1}, lim : {None, 2}] : x.at <= x.len}
G3 == [g : {"range"}, lo : (0 - 2)..3, hi : (0 - 3)..4, rev : BOOLEAN, lim : {None, 2}, asvar : BOOLEAN]
G4 == [g : {"tablerow"}, len : 0..L, cols : {None} \cup (0..(L + 1)), lim : {None, 3}, off : {None, 1}, rev : BOOLEAN]
G5 == [g : {"coll"}, coll : {"nil", "undef", "empty", "map0", "map1", "map3", "nilmap", "nilslice", "nilptr", "dropnil", "dropempty"}]
G6 == [g : {"cycle"}, len : 1..L, nvals : 1..3, grouped : BOOLEAN, twice : BOOLEAN]
G7 == {x \in [g : {"nest"}, outer : 1..3, inner : 1..3, sig : {"break", "continue"}, at : 1..3] : x.at <= x.inner}
\* a loop containing a cycle is itself executed several times (nested in another loop): each execution starts afresh
G8 == [g : {"cycnest"}, outer : 1..3, len : 1..L, nvals : 2..3, grouped : BOOLEAN]
\* break / continue inside tablerow: the cell of the item is still closed (and its row, when it ends there)
\* (a break in the middle of a row leaves the row open: what follows is not decided, such cases are not generated)
\* two cycle tags of one group (or both ungrouped) with lists of different lengths: one position per loop and group,
\* each tag emits the entry of its own list at that position
G10 == [g : {"cycmix"}, len : 1..L, n1 : 1..3, n2 : 1..3, grouped : BOOLEAN]
G9 == {x \in [g : {"rowsig"}, len : 1..4, cols : {None, 1, 2, 3}, at : 1..4, sig : {"break", "continue"}] :
         x.at <= x.len /\ (x.sig = "continue" \/ x.at = x.len \/ (x.cols # None /\ x.at % x.cols = 0))}
\* a map whose keys are of different kinds and look alike when printed (the number 1 and the text "1"): every pair once
G11 == [g : {"mixmap"}, tag : {"for", "tablerow"}, rev : BOOLEAN]
\* the loop state as a tag of the embedding program sees it through its context (the body never says "forloop")
G12 == [g : {"extidx"}, len : 0..3, tag : {"for", "tablerow"}, rev : BOOLEAN]
Cases == G12 \cup G11 \cup G1 \cup G2 \cup G3 \cup G4 \cup G5 \cup G6 \cup G7 \cup G8 \cup G9 \cup G10

\* a modifier is written as a literal or as a variable holding the number
OV == <<111, 102>>
LV == <<108, 109>>
AsVar(x) == "asvar" \in DOMAIN x /\ x.asvar
ModFields(x) ==
  (IF "off" \in DOMAIN x /\ x.off # None THEN [off |-> IF AsVar(x) THEN Var(OV) ELSE Lit(IntV(x.off))] ELSE <<>>)
  @@ (IF "lim" \in DOMAIN x /\ x.lim # None THEN [lim |-> IF AsVar(x) THEN Var(LV) ELSE Lit(IntV(x.lim))] ELSE <<>>)
  @@ (IF "rev" \in DOMAIN x /\ x.rev THEN [rev |-> TRUE] ELSE <<>>)

Letters == <<T(<<112>>), T(<<113>>), T(<<114>>)>>     \* p q r
CycVals == << <<112>>, <<113>>, <<114>> >>

ProgOf(x) ==
  CASE x.g = "grid" ->
         << [t |-> "for", tag |-> "for", var |-> X, coll |-> Var(A), body |-> Probe(X), else |-> ElseBody]
            @@ ModFields(x) >>
    [] x.g = "signal" ->
         << [t |-> "for", tag |-> "for", var |-> X, coll |-> Var(A),
             body |-> << [t |-> "if", branches |-> << [c |-> [t |-> "cmp", op |-> "==", a |-> Var(X), b |-> Lit(IntV(x.at))],
                                                       body |-> << [t |-> x.sig] >>] >>] >> \o Probe(X),
             else |-> ElseBody] @@ ModFields(x),
            Ob(Var(X)) >>
    [] x.g = "range" ->
         << [t |-> "for", tag |-> "for", var |-> X,
             coll |-> [t |-> "range", a |-> IF x.asvar THEN Var(OV) ELSE Lit(IntV(x.lo)), b |-> IF x.asvar THEN Var(<<104, 105>>) ELSE Lit(IntV(x.hi))],
             body |-> Probe(X), else |-> ElseBody] @@ (IF x.lim # None THEN [lim |-> Lit(IntV(x.lim))] ELSE <<>>) @@ (IF x.rev THEN [rev |-> TRUE] ELSE <<>>) >>
    [] x.g = "tablerow" ->
         << [t |-> "for", tag |-> "tablerow", var |-> X, coll |-> Var(A), body |-> <<Ob(Var(X))>>]
            @@ (IF x.cols # None THEN [cols |-> Lit(IntV(x.cols))] ELSE <<>>) @@ ModFields(x) >>
    [] x.g = "rowsig" ->
         << [t |-> "for", tag |-> "tablerow", var |-> X, coll |-> Var(A),
             body |-> << [t |-> "if", branches |-> << [c |-> [t |-> "cmp", op |-> "==", a |-> Var(X), b |-> Lit(IntV(x.at))],
                                                       body |-> << [t |-> x.sig] >>] >>], Ob(Var(X)) >>]
            @@ (IF x.cols # None THEN [cols |-> Lit(IntV(x.cols))] ELSE <<>>), T(<<124>>), Ob(Var(X)) >>
    [] x.g = "coll" ->
         << [t |-> "for", tag |-> "for", var |-> X, coll |-> Var(A),
             body |-> <<T(<<91>>), Ob([t |-> "idx", e |-> Var(X), i |-> Lit(IntV(0))]), Colon,
                        Ob([t |-> "idx", e |-> Var(X), i |-> Lit(IntV(1))]), Colon, FL(B_index), T(<<93>>)>>,
             else |-> ElseBody] >>
    [] x.g = "cycle" ->
         LET cyc == [t |-> "cycle", vals |-> SubSeq(CycVals, 1, x.nvals)]
                    @@ (IF x.grouped THEN [group |-> <<103>>] ELSE <<>>)
             other == [t |-> "cycle", group |-> <<104>>, vals |-> <<<<117>>, <<118>>>>]
         IN  << [t |-> "for", tag |-> "for", var |-> X, coll |-> Var(A),
                 body |-> <<cyc>> \o (IF x.twice THEN <<cyc>> ELSE <<>>) \o (IF x.grouped THEN <<other>> ELSE <<>>)],
                \* a second loop starts its cycles afresh
                [t |-> "for", tag |-> "for", var |-> X, coll |-> Var(A), lim |-> Lit(IntV(2)), body |-> <<cyc>>] >>
    [] x.g = "extidx" ->
         << [t |-> "for", tag |-> x.tag, var |-> X, coll |-> Var(A), body |-> <<[t |-> "xloopidx"], T(<<44>>)>>]
            @@ (IF x.rev THEN [rev |-> TRUE] ELSE <<>>), [t |-> "xloopidx"] >>
    [] x.g = "mixmap" ->
         << [t |-> "for", tag |-> x.tag, var |-> X, coll |-> Var(A), body |-> <<Ob([t |-> "idx", e |-> Var(X), i |-> Lit(IntV(1))]), T(<<44>>)>>]
            @@ (IF x.rev THEN [rev |-> TRUE] ELSE <<>>) >>
    [] x.g = "cycmix" ->
         LET grp == IF x.grouped THEN [group |-> <<103>>] ELSE <<>>
             UVals == << <<117>>, <<118>>, <<119>> >>
         IN  << [t |-> "for", tag |-> "for", var |-> X, coll |-> Var(A),
                 body |-> << [t |-> "cycle", vals |-> SubSeq(CycVals, 1, x.n1)] @@ grp, [t |-> "cycle", vals |-> SubSeq(UVals, 1, x.n2)] @@ grp, T(<<32>>) >>] >>
    [] x.g = "cycnest" ->
         << [t |-> "for", tag |-> "for", var |-> Y, coll |-> [t |-> "range", a |-> Lit(IntV(1)), b |-> Lit(IntV(x.outer))],
             body |-> << [t |-> "for", tag |-> "for", var |-> X, coll |-> Var(A),
                          body |-> << [t |-> "cycle", vals |-> SubSeq(CycVals, 1, x.nvals)] @@ (IF x.grouped THEN [group |-> <<103>>] ELSE <<>>) >>],
                         T(<<124>>) >>] >>
    [] x.g = "nest" ->
         << [t |-> "for", tag |-> "for", var |-> Y, coll |-> [t |-> "range", a |-> Lit(IntV(1)), b |-> Lit(IntV(x.outer))],
             body |-> << T(<<60>>),
                         [t |-> "for", tag |-> "for", var |-> X,
                          coll |-> [t |-> "range", a |-> Lit(IntV(1)), b |-> Lit(IntV(x.inner))],
                          body |-> << [t |-> "if", branches |-> << [c |-> [t |-> "cmp", op |-> "==", a |-> Var(X), b |-> Lit(IntV(x.at))],
                                                                    body |-> << [t |-> x.sig] >>] >>],
                                      Ob(Var(X)) >>],
                         FL(B_index), T(<<62>>) >>] >>

MapN(n) == MapV([i \in 1..n |-> << <<106 + i>>, IntV(i) >>])        \* keys k, l, m
EnvOf2(x) ==
  CASE x.g = "grid" /\ x.asvar -> << <<A, Arr(Ints(x.len))>>, <<X, Str(<<111>>)>>, <<OV, IntV(IF x.off = None THEN 0 ELSE x.off)>>, <<LV, IntV(IF x.lim = None THEN 0 ELSE x.lim)>> >>
    [] x.g = "range" /\ x.asvar -> << <<OV, IntV(x.lo)>>, <<<<104, 105>>, IntV(x.hi)>> >>
    [] x.g \in {"grid", "signal", "tablerow", "cycle", "cycnest", "rowsig", "cycmix", "extidx"} -> << <<A, Arr(Ints(x.len))>>, <<X, Str(<<111>>)>> >>
    [] x.g = "mixmap" -> << <<A, MapV(<< <<<<105, 58, 49>>, IntV(1)>>, <<<<115, 58, 49>>, IntV(2)>>, <<<<115, 58, 120>>, IntV(3)>> >>)>> >>
    [] x.g = "coll" -> (CASE x.coll = "nil" -> << <<A, Nil>> >>
                          [] x.coll = "undef" -> <<>>
                          [] x.coll = "empty" -> << <<A, Arr(<<>>)>> >>
                          [] x.coll \in {"map0", "nilmap"} -> << <<A, MapN(0)>> >>
                          [] x.coll \in {"nilslice", "dropempty"} -> << <<A, Arr(<<>>)>> >>
                          [] x.coll \in {"nilptr", "dropnil"} -> << <<A, Nil>> >>
                          [] x.coll = "map1" -> << <<A, MapN(1)>> >>
                          [] x.coll = "map3" -> << <<A, MapN(3)>> >>)
    [] OTHER -> <<>>

\* ------------------------------------------------- declarative expectation
\* the selected subsequence, defined by index arithmetic (not by Window)
Selected(items, rev, off, lim) ==
  LET n == Len(items)
      o == IF off = None \/ off < 0 THEN 0 ELSE off
      m0 == IF n - o < 0 THEN 0 ELSE n - o
      m == IF lim = None \/ lim < 0 THEN m0 ELSE IF lim < m0 THEN lim ELSE m0
  IN  [k \in 1..m |-> IF rev THEN items[n - (o + k) + 1] ELSE items[o + k]]

ProbeAll(sel) == Flatten([k \in 1..Len(sel) |-> ProbeText(IntText(sel[k].v), k, Len(sel))])

DeclOut(x) ==
  CASE x.g = "grid" ->
         LET sel == Selected(Ints(x.len), x.rev, x.off, x.lim)
         IN  IF sel = <<>> THEN <<69>> ELSE ProbeAll(sel)
    [] x.g = "signal" ->
         LET sel == Selected(Ints(x.len), x.rev, x.off, x.lim)
             n == Len(sel)
             hit == {k \in 1..n : sel[k].v = x.at}
             shown == IF x.sig = "continue" THEN {k \in 1..n : k \notin hit}
                      ELSE {k \in 1..n : \A h \in hit : k < h}
         IN  (IF sel = <<>> THEN <<69>>
              ELSE Flatten([k \in 1..n |-> IF k \in shown THEN ProbeText(IntText(sel[k].v), k, n) ELSE <<>>]))
             \o <<111>>                                    \* x restored to "o" after the loop
    [] x.g = "range" ->
         LET items == [i \in 1..(IF x.hi < x.lo THEN 0 ELSE x.hi - x.lo + 1) |-> IntV(x.lo + i - 1)]
             sel == Selected(items, x.rev, None, x.lim)
         IN  IF sel = <<>> THEN <<69>> ELSE ProbeAll(sel)
    [] x.g = "tablerow" ->
         LET sel == Selected(Ints(x.len), x.rev, x.off, x.lim)
             n == Len(sel)
             cols == IF x.cols = None \/ x.cols <= 0 THEN n + 1 ELSE x.cols
             cell(k) == (IF (k - 1) % cols = 0 THEN TrOpen(((k - 1) \div cols) + 1) ELSE <<>>)
                        \o TdOpen(((k - 1) % cols) + 1) \o IntText(sel[k].v) \o TdClose
                        \o (IF k % cols = 0 \/ k = n THEN TrClose ELSE <<>>)
         IN  Flatten([k \in 1..n |-> cell(k)])
    [] x.g = "rowsig" ->
         LET n == x.len
             cols == IF x.cols = None THEN n + 1 ELSE x.cols
             last == IF x.sig = "break" THEN x.at ELSE n
             cell(k) == (IF (k - 1) % cols = 0 THEN TrOpen(((k - 1) \div cols) + 1) ELSE <<>>)
                        \o TdOpen(((k - 1) % cols) + 1) \o (IF k = x.at THEN <<>> ELSE IntText(k)) \o TdClose
                        \o (IF k % cols = 0 \/ k = n THEN TrClose ELSE <<>>)
         IN  Flatten([k \in 1..last |-> cell(k)]) \o <<124, 111>>
    [] x.g = "extidx" ->
         LET cell(k) == IF x.tag = "for" THEN IntText(k) \o <<47>> \o IntText(x.len) \o <<44>>
                        ELSE (IF k = 1 THEN TrOpen(1) ELSE <<>>) \o TdOpen(k) \o IntText(k) \o <<47>> \o IntText(x.len) \o <<44>> \o TdClose \o (IF k = x.len THEN TrClose ELSE <<>>)
         IN  Flatten([k \in 1..x.len |-> cell(k)]) \o <<45>>
    [] x.g = "mixmap" ->
         LET ord == IF x.rev THEN <<3, 2, 1>> ELSE <<1, 2, 3>>
             cell(k) == IF x.tag = "for" THEN IntText(ord[k]) \o <<44>>
                        ELSE (IF k = 1 THEN TrOpen(1) ELSE <<>>) \o TdOpen(k) \o IntText(ord[k]) \o <<44>> \o TdClose \o (IF k = 3 THEN TrClose ELSE <<>>)
         IN  Flatten([k \in 1..3 |-> cell(k)])
    [] x.g = "coll" ->
         (CASE x.coll \in {"nil", "undef", "empty", "map0", "nilmap", "nilslice", "nilptr", "dropnil", "dropempty"} -> <<69>>
            [] x.coll = "map1" -> <<91, 107, 58>> \o IntText(1) \o <<58>> \o IntText(1) \o <<93>>
            [] x.coll = "map3" -> Flatten([i \in 1..3 |-> <<91, 106 + i, 58>> \o IntText(i) \o <<58>> \o IntText(i) \o <<93>>]))
    [] x.g = "cycle" ->
         LET per == IF x.twice THEN 2 ELSE 1
             one(k, j) == CycVals[(((k - 1) * per + (j - 1)) % x.nvals) + 1]
             iter(k) == one(k, 1) \o (IF x.twice THEN one(k, 2) ELSE <<>>)
                        \o (IF x.grouped THEN (IF k % 2 = 1 THEN <<117>> ELSE <<118>>) ELSE <<>>)
             n2 == IF x.len < 2 THEN x.len ELSE 2
         IN  Flatten([k \in 1..x.len |-> iter(k)]) \o Flatten([k \in 1..n2 |-> CycVals[((k - 1) % x.nvals) + 1]])
    [] x.g = "cycmix" ->
         LET UVals == << <<117>>, <<118>>, <<119>> >>
         IN  Flatten([k \in 1..x.len |-> CycVals[((2 * (k - 1)) % x.n1) + 1] \o UVals[((2 * (k - 1) + 1) % x.n2) + 1] \o <<32>>])
    [] x.g = "cycnest" ->
         Flatten([o \in 1..x.outer |-> Flatten([k \in 1..x.len |-> CycVals[((k - 1) % x.nvals) + 1]]) \o <<124>>])
    [] x.g = "nest" ->
         LET inner == IF x.sig = "break" THEN Flatten([i \in 1..(x.at - 1) |-> IntText(i)])
                      ELSE Flatten([i \in 1..x.inner |-> IF i = x.at THEN <<>> ELSE IntText(i)])
         IN  Flatten([o \in 1..x.outer |-> <<60>> \o inner \o IntText(o) \o <<62>>])

\* --------------------------------------------------------------- machine
\* maps are explored in key order; the implementation may use any order (TraceRender: anyorder)
CxM == [Cx0 EXCEPT !.perm = <<1, 2, 3>>]
Init == \E x \in Cases : c = x /\ st = InitSt(ProgOf(x), EnvOf(EnvOf2(x)), Sink0, CxM)
Next == st.status = "run" /\ st' = Step(CxM, st) /\ c' = c
Spec == Init /\ [][Next]_vars

\* ------------------------------------------------------------ invariants
Terminates == st.status \in {"run", "ok"}

\* the machine's output is the declaratively defined one
OutputLaw == st.status = "ok" => st.sink.acc = DeclOut(c)

\* C11: in every state inside an iteration the innermost loop's forloop
\* record and loop variable are those of the current iteration
LoopFrames == {j \in 1..Len(st.k) : st.k[j].f = "loop"}
ForloopConsistent ==
  LoopFrames # {} /\ st.sig = "none" =>
    LET j == CHOOSE j \in LoopFrames : \A i \in LoopFrames : i <= j
        lf == st.k[j]
    IN  lf.phase = "after" /\ Len(st.k) > j =>
          /\ Same(Lookup(st.env, B_forloop), ForloopV(lf.i, Len(lf.items)))
          /\ Same(Lookup(st.env, lf.node.var), lf.items[lf.i])

\* C12: when no loop is running the loop variables have their outer values
RestoredOutside ==
  LoopFrames = {} /\ st.status \in {"run", "ok"} =>
    /\ IsNil(Lookup(st.env, B_forloop))
    /\ Same(Lookup(st.env, X), Lookup(EnvOf(EnvOf2(c)), X))

\* the loop never runs more iterations than the collection has elements
StepBound == st.steps <= 40 * (L + 3) * 4

IdOf(x) ==
  CASE x.g = "extidx" -> "extidx-" \o ToString(x.len) \o "-" \o x.tag \o "-" \o ToString(x.rev)
    [] x.g = "mixmap" -> "mixmap-" \o x.tag \o "-" \o ToString(x.rev)
    [] x.g = "grid" -> "grid-" \o ToString(x.len) \o "-" \o ToString(x.off) \o "-" \o ToString(x.lim) \o "-" \o ToString(x.rev) \o "-" \o ToString(x.asvar)
    [] x.g = "signal" -> "sig-" \o ToString(x.len) \o "-" \o x.sig \o "-" \o ToString(x.at) \o "-" \o ToString(x.rev)
                         \o "-" \o ToString(x.off) \o "-" \o ToString(x.lim)
    [] x.g = "range" -> "range-" \o ToString(x.lo) \o "-" \o ToString(x.hi) \o "-" \o ToString(x.rev) \o "-" \o ToString(x.lim) \o "-" \o ToString(x.asvar)
    [] x.g = "tablerow" -> "row-" \o ToString(x.len) \o "-" \o ToString(x.cols) \o "-" \o ToString(x.lim) \o "-" \o ToString(x.off) \o "-" \o ToString(x.rev)
    [] x.g = "rowsig" -> "rowsig-" \o ToString(x.len) \o "-" \o ToString(x.cols) \o "-" \o ToString(x.at) \o "-" \o x.sig
    [] x.g = "coll" -> "coll-" \o x.coll
    [] x.g = "cycle" -> "cyc-" \o ToString(x.len) \o "-" \o ToString(x.nvals) \o "-" \o ToString(x.grouped) \o "-" \o ToString(x.twice)
    [] x.g = "cycmix" -> "cycmix-" \o ToString(x.len) \o "-" \o ToString(x.n1) \o "-" \o ToString(x.n2) \o "-" \o ToString(x.grouped)
    [] x.g = "cycnest" -> "cycnest-" \o ToString(x.outer) \o "-" \o ToString(x.len) \o "-" \o ToString(x.nvals) \o "-" \o ToString(x.grouped)
    [] x.g = "nest" -> "nest-" \o ToString(x.outer) \o "-" \o ToString(x.inner) \o "-" \o x.sig \o "-" \o ToString(x.at)

\* the array the loop walks in other Go representations - a fixed-size array, a typed slice, behind a Drop or a pointer:
\* the same items, the same selection by offset / limit / reversed
CollReprs == <<"array", "ints", "drop", "ptr", "array", "int64s">>
EmitCase == st.status # "run" =>
       /\ (c.g \in {"grid", "signal", "tablerow", "rowsig"}) =>
            PrintT(ToJson([id |-> "cr-" \o IdOf(c), kind |-> "render", prog |-> ProgOf(c), env |-> EnvOf2(c),
                           repr |-> [a |-> CollReprs[(Len(IdOf(c)) % 6) + 1]]]))
       /\ PrintT(ToJson([id |-> IdOf(c), kind |-> "render", prog |-> ProgOf(c), env |-> EnvOf2(c),
                         anyorder |-> IF (c.g = "coll" /\ c.coll = "map3") \/ c.g = "mixmap" THEN 3 ELSE 0]
                        @@ (IF c.g = "mixmap" THEN [repr |-> [a |-> "mixedkeys"]] ELSE <<>>)
                        \* a nil or empty collection in its typed Go forms
                        @@ (IF c.g = "coll" /\ c.coll \in {"nilmap", "nilslice", "nilptr", "dropnil", "dropempty"}
                            THEN [repr |-> [a |-> IF c.coll \in {"dropnil", "dropempty"} THEN "drop" ELSE c.coll]] ELSE <<>>)))
=============================================================================
