------------------------------- MODULE MC_C05 -------------------------------
(***************************************************************************)
(* C05 - tokenising loses nothing.  The scanner runs as a state machine    *)
(* (one token per step) over every source of up to L symbols from an       *)
(* alphabet rich in delimiter characters; in every scanner state the       *)
(* tokens emitted so far partition the consumed prefix and carry the right *)
(* line, and a source in which no tag or object opens is one text token.   *)
(* Every source is emitted for replay through parser.Scan and the engine.  *)
(***************************************************************************)
EXTENDS LqScan, Json, TLC

CONSTANT L, Alpha
VARIABLES src, p, line, toks
vars == <<src, p, line, toks>>

RECURSIVE StrsOfLen(_)
StrsOfLen(n) == IF n = 0 THEN {<<>>} ELSE {<<b>> \o t : b \in Alpha, t \in StrsOfLen(n - 1)}

D == DefaultDelims
Init == /\ \E n \in 0..L : src \in StrsOfLen(n)
        /\ p = 1 /\ line = 0 /\ toks = <<>>
Next == /\ p <= Len(src)
        /\ LET s == ScanStep(src, p, line, D) IN toks' = toks \o s.toks /\ p' = s.p /\ line' = s.line
        /\ src' = src

PartitionSoFar == Flatten([i \in 1..Len(toks) |-> toks[i].src]) = SubSeq(src, 1, p - 1)
LinesSoFar == LineLaw(toks, 0) /\ line = Newlines(SubSeq(src, 1, p - 1))
Progress == [][p' > p]_vars
NoEmptyTokens == \A i \in 1..Len(toks) : toks[i].src # <<>>
IdentityAtEnd == p > Len(src) => Identity(toks, src, D)
AgreesWithFunction == p > Len(src) => toks = Tokens(src, 0, D)
\* text tokens never contain a complete token, and no two text tokens are adjacent
TextIsMaximal == \A i \in 1..(Len(toks) - 1) : ~(toks[i].ty = "text" /\ toks[i + 1].ty = "text")

EmitCase == p > Len(src) => PrintT(ToJson([id |-> "s" \o ToString(src), kind |-> "scan", src |-> src]))
=============================================================================
