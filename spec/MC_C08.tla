------------------------------- MODULE MC_C08 -------------------------------
(***************************************************************************)
(* C08 - expressions: literals, lookup, filter pipelines, spelling.        *)
(*   index   every array length 0..5 x every index of a universe holding   *)
(*           all integers -7..7, fractions, strings, nil, booleans; index   *)
(*           written as a literal and as a variable                        *)
(*   look    lookup paths (.b ["b"] .size .first .last nested, missing,    *)
(*           through nil, through scalars) on a universe of bases, in      *)
(*           default and strict-variables mode                             *)
(*   pipe    filter chains up to D steps from a pool (with variable        *)
(*           arguments) on several receivers, written directly and         *)
(*           decomposed into assigns (PipelineIsSequential)                *)
(*   bad     unknown filter; more arguments than the filter takes          *)
(*   lit     literals denote themselves                                    *)
(*   space   the same tags and objects under different whitespace         *)
(*   names   identifiers that look like keywords, with hyphens, question   *)
(*           marks, digits: as variables, properties, keys, assign / loop  *)
(*           / capture targets                                             *)
(*   rng     ranges (lo..hi), ascending, single, empty and descending,    *)
(*           with literal and variable endpoints, as filter receivers and *)
(*           arguments, assigned and looked into                           *)
(* TLC checks the lookup laws on the reference and emits every case.       *)
(***************************************************************************)
EXTENDS LqRender, Json, TLC

CONSTANT D     \* longest pipeline

VARIABLES c
vars == <<c>>

T(s) == [t |-> "text", s |-> s]
Var(n) == [t |-> "var", name |-> n]
Lit(v) == [t |-> "lit", v |-> v]
Ob(e) == [t |-> "obj", e |-> e]
P(e, n) == [t |-> "prop", e |-> e, name |-> n]
Ix(e, i) == [t |-> "idx", e |-> e, i |-> i]
Fl(e, n, as) == [t |-> "filter", e |-> e, name |-> n, args |-> as]
S(s) == Str(s)
A == <<97>>
I == <<105>>
Y == <<121>>
NN == <<110>>

\* ------------------------------------------------------------------ index
IdxU == [k \in 1..15 |-> IntV(k - 8)] \o <<Flt(3, 2), Flt(2, 1), Flt(0 - 1, 1), S(<<120>>), S(<<48>>), Nil, Bool(TRUE), Arr(<<IntV(0)>>)>>
ArrOf(n) == Arr([k \in 1..n |-> IntV(10 * k)])

\* ----------------------------------------------------------------- lookup
Bb == <<98>>
Cc == <<99>>
Dd == <<100>>
Xx == <<120>>
Inner == MapV(<< <<Dd, IntV(2)>> >>)
BaseU == <<
  MapV(<< <<Bb, IntV(1)>>, <<Cc, Inner>> >>),
  MapV(<< <<Bb, IntV(1)>>, <<B_size, IntV(9)>> >>),
  MapV(<<>>),
  Arr(<<IntV(1), IntV(2), IntV(3)>>),
  Arr(<<>>),
  Arr(<<MapV(<< <<Bb, IntV(5)>> >>)>>),
  S(<<97, 98, 99>>),
  IntV(5), Nil, Bool(FALSE), Flt(5, 2),
  MapV(<< <<B_first, S(<<102>>)>>, <<Cc, Nil>> >>),
  \* keys named like the built-in properties, bound to nil: present, so no fallback
  MapV(<< <<Bb, IntV(1)>>, <<B_size, Nil>>, <<Xx, Nil>> >>),
  \* arrays that hold nil: printed whole they are a value (strict mode objects to a nil final value only)
  Arr(<<IntV(1), Nil, IntV(2)>>), Arr(<<Nil>>), MapV(<< <<Bb, Arr(<<Nil, IntV(3)>>)>> >>)
>>
Paths(b) == <<
  P(b, Bb), Ix(b, Lit(S(Bb))), P(b, B_size), P(b, B_first), P(b, B_last),
  P(P(b, Cc), Dd), Ix(P(b, Cc), Lit(S(Dd))), P(b, Xx), P(P(b, Xx), Y), Ix(b, Lit(IntV(0))), Ix(b, Lit(IntV(0 - 1))),
  P(Ix(b, Lit(IntV(0))), Bb), P(P(b, B_first), Bb), Ix(b, Lit(Nil)), b, Ix(Ix(b, Lit(S(Cc))), Lit(S(Dd))),
  P(P(b, Bb), B_size), Ix(b, Var(<<117>>)),
  \* the names of the built-in properties as subscripts: a subscript is a key or an index, never a property
  Ix(b, Lit(S(B_size))), Ix(b, Lit(S(B_first))), Ix(b, Lit(S(B_last))), Ix(b, Var(<<107, 115>>)), Ix(P(b, Bb), Lit(S(B_size))),
  Ix(Ix(b, Lit(IntV(0))), Lit(S(B_first)))
>>

\* --------------------------------------------------------------- pipeline
Steps == <<
  [n |-> "upcase", a |-> <<>>], [n |-> "append", a |-> <<Lit(S(<<33>>))>>], [n |-> "append", a |-> <<Var(Y)>>],
  [n |-> "size", a |-> <<>>], [n |-> "plus", a |-> <<Lit(IntV(1))>>], [n |-> "plus", a |-> <<Var(NN)>>],
  [n |-> "times", a |-> <<Lit(IntV(2))>>], [n |-> "split", a |-> <<Lit(S(<<44>>))>>], [n |-> "first", a |-> <<>>],
  [n |-> "join", a |-> <<Lit(S(<<45>>))>>], [n |-> "default", a |-> <<Lit(S(<<100>>))>>], [n |-> "strip", a |-> <<>>],
  [n |-> "prepend", a |-> <<P(Var(<<109>>), Bb)>>],
  \* an argument that is itself a pipeline (in parentheses), and one used as a subscript
  [n |-> "append", a |-> <<Fl(Fl(Var(Y), "upcase", <<>>), "append", <<Lit(S(<<43>>))>>)>>],
  [n |-> "prepend", a |-> <<Ix(Var(<<108>>), Fl(Var(NN), "minus", <<Lit(IntV(9))>>))>>],
  [n |-> "replace", a |-> <<Lit(S(<<97>>)), Fl(Var(Y), "size", <<>>)>>]
>>
RecvU == << S(<<97, 44, 98>>), IntV(3), Nil, S(<<32, 120, 32>>), S(<<52>>) >>
PipeEnv(r) == << <<A, RecvU[r]>>, <<Y, S(<<121, 89>>)>>, <<NN, IntV(10)>>, <<<<109>>, MapV(<< <<Bb, S(<<62>>)>> >>)>>,
                 <<<<108>>, Arr(<<S(<<112>>), S(<<113>>), S(<<114>>)>>)>> >>
RECURSIVE Chain(_, _)
Chain(e, ss) == IF ss = <<>> THEN e ELSE Chain(Fl(e, Steps[Head(ss)].n, Steps[Head(ss)].a), Tail(ss))
Tn(k) == <<116, 48 + k>>
Decomposed(ss) ==
  [k \in 1..Len(ss) |-> [t |-> "assign", name |-> Tn(k),
                         e |-> Fl(IF k = 1 THEN Var(A) ELSE Var(Tn(k - 1)), Steps[ss[k]].n, Steps[ss[k]].a)]]
  \o <<Ob(Var(Tn(Len(ss))))>>
\* steps whose result the reference leaves open (json, inspect, type hand back text of their own making): whatever they
\* give, the pipeline gives what the steps give one at a time - the harness renders both and compares
XSteps == << [n |-> "json", a |-> <<>>], [n |-> "inspect", a |-> <<>>], [n |-> "type", a |-> <<>>], [n |-> "size", a |-> <<>>],
             [n |-> "plus", a |-> <<Lit(IntV(1))>>], [n |-> "upcase", a |-> <<>>], [n |-> "first", a |-> <<>>], [n |-> "append", a |-> <<Lit(S(<<33>>))>>] >>
RECURSIVE XChain(_, _)
XChain(e, ss) == IF ss = <<>> THEN e ELSE XChain(Fl(e, XSteps[Head(ss)].n, XSteps[Head(ss)].a), Tail(ss))
XDecomposed(ss) ==
  [k \in 1..Len(ss) |-> [t |-> "assign", name |-> Tn(k),
                         e |-> Fl(IF k = 1 THEN Var(A) ELSE Var(Tn(k - 1)), XSteps[ss[k]].n, XSteps[ss[k]].a)]]
  \o <<Ob(Var(Tn(Len(ss))))>>
XRecvU == << S(<<195, 169>>), IntV(1), S(<<97>>), Arr(<<IntV(1), S(<<195, 169>>)>>), Flt(5, 2), Nil, Bool(TRUE) >>
RECURSIVE SeqsOfLen(_, _)
SeqsOfLen(n, m) == IF n = 0 THEN {<<>>} ELSE {<<i>> \o t : i \in 1..m, t \in SeqsOfLen(n - 1, m)}

\* ------------------------------------------------------------------- bad
AllFilters == <<"compact", "reverse", "first", "last", "uniq", "abs", "ceil", "floor", "size", "escape", "newline_to_br",
                "strip_newlines", "strip", "lstrip", "rstrip", "url_encode", "url_decode", "concat", "join", "map", "sort",
                "modulo", "minus", "plus", "times", "divided_by", "round", "append", "prepend", "remove", "remove_first",
                "split", "upcase", "downcase", "capitalize", "escape_once", "replace", "replace_first", "slice",
                "truncate", "truncatewords", "default", "sort_natural">>

\* ------------------------------------------------------------------- lit
LitU == << IntV(0), IntV(7), IntV(0 - 3), IntV(12345), Flt(5, 2), Flt(0 - 3, 4), Flt(3, 1), Flt(1, 8), S(<<>>), S(<<97, 32, 98>>),
           S(<<105, 116, 34, 115>>), S(<<105, 116, 39, 115>>), Bool(TRUE), Bool(FALSE), Nil, S(<<195, 169>>), S(<<110, 105, 108>>),
           S(<<49>>), S(<<97, 124, 98>>), S(<<97, 58, 32, 98, 44, 99>>),
           \* literals that differ only in the white space they contain
           S(<<112, 32, 113>>), S(<<112, 32, 32, 113>>), S(<<112, 10, 113>>), S(<<112, 9, 113>>), S(<<32>>), S(<<32, 32>>), S(<<10>>),
           \* a quote character of the other kind at the edges of the literal, or the literal itself
           S(<<39, 97, 39>>), S(<<34, 97, 34>>), S(<<39>>), S(<<34>>), S(<<97, 39>>), S(<<34, 97>>), S(<<39, 39>>), S(<<34, 34, 97>>) >>
\* ... and all of them in one template, so that they meet in one parse
WsLits == <<S(<<112, 32, 113>>), S(<<112, 32, 32, 113>>), S(<<112, 10, 113>>), S(<<112, 9, 113>>), S(<<112, 32, 32, 32, 113>>)>>
WsProg(k) ==
  Flatten([i \in 1..Len(WsLits) |-> <<T(<<91>>), Ob(Lit(WsLits[((i + k) % Len(WsLits)) + 1])), T(<<93>>)>>])
  \o <<Ob(Fl(Fl(Lit(S(<<97, 32, 32, 98, 32, 99>>)), "split", <<Lit(S(<<32, 32>>))>>), "join", <<Lit(S(<<44>>))>>)), T(<<124>>),
       Ob(Fl(Fl(Lit(S(<<97, 32, 32, 98, 32, 99>>)), "split", <<Lit(S(<<32>>))>>), "join", <<Lit(S(<<44>>))>>)), T(<<124>>),
       Ob([t |-> "cmp", op |-> "==", a |-> Lit(WsLits[1]), b |-> Lit(WsLits[2])]),
       [t |-> "if", branches |-> <<[c |-> [t |-> "cmp", op |-> "==", a |-> Lit(WsLits[((k + 1) % 5) + 1]), b |-> Lit(WsLits[((k + 2) % 5) + 1])], body |-> <<T(<<61>>)>>],
                                   [c |-> [t |-> "else"], body |-> <<T(<<35>>)>>]>>],
       [t |-> "case", e |-> Lit(WsLits[2]), pre |-> <<>>, whens |-> <<[vals |-> <<Lit(WsLits[1])>>, body |-> <<T(<<49>>)>>],
                                                                     [vals |-> <<Lit(WsLits[2])>>, body |-> <<T(<<50>>)>>]>>]>>

\* ------------------------------------------------------------------- rng
Zz == <<122>>
Lo == <<108, 111>>
Hi == <<104, 105>>
Comma == Lit(S(<<44>>))
RngE(x) == [t |-> "range", a |-> IF x.asvar THEN Var(Lo) ELSE Lit(IntV(x.lo)), b |-> IF x.asvar THEN Var(Hi) ELSE Lit(IntV(x.hi))]
AssignR(x) == [t |-> "assign", name |-> Zz, e |-> RngE(x)]
RngUses(x) == <<
  <<Ob(Fl(RngE(x), "join", <<Comma>>))>>,
  <<T(<<91>>), Ob(Fl(RngE(x), "first", <<>>)), T(<<93>>)>>,
  <<T(<<91>>), Ob(Fl(RngE(x), "last", <<>>)), T(<<93>>)>>,
  <<Ob(Fl(Fl(RngE(x), "reverse", <<>>), "join", <<Comma>>))>>,
  <<Ob(Fl(RngE(x), "size", <<>>))>>,
  <<Ob(Fl(Fl(Var(A), "concat", <<RngE(x)>>), "join", <<Comma>>))>>,
  <<Ob(Fl(Fl(RngE(x), "sort", <<>>), "join", <<Comma>>))>>,
  <<Ob(Fl(Fl(RngE(x), "uniq", <<>>), "join", <<Comma>>))>>,
  <<Ob(Fl(Fl(RngE(x), "compact", <<>>), "join", <<Comma>>))>>,
  <<Ob(Fl(Fl(RngE(x), "concat", <<Var(A)>>), "join", <<Comma>>))>>,
  <<AssignR(x), Ob(Fl(Var(Zz), "join", <<Comma>>))>>,
  <<AssignR(x), T(<<91>>), Ob(P(Var(Zz), B_size)), T(<<93>>)>>,
  <<AssignR(x), T(<<91>>), Ob(P(Var(Zz), B_first)), T(<<124>>), Ob(P(Var(Zz), B_last)), T(<<93>>)>>,
  <<AssignR(x), T(<<91>>), Ob(Ix(Var(Zz), Lit(IntV(0)))), T(<<124>>), Ob(Ix(Var(Zz), Lit(IntV(0 - 1)))), T(<<93>>)>>,
  <<AssignR(x), [t |-> "if", branches |-> <<[c |-> [t |-> "cmp", op |-> "contains", a |-> Var(Zz), b |-> Lit(IntV(1))], body |-> <<T(<<121>>)>>],
                                             [c |-> [t |-> "else"], body |-> <<T(<<110>>)>>]>>]>>,
  <<AssignR(x), [t |-> "for", tag |-> "for", var |-> I, coll |-> Var(Zz), body |-> <<Ob(Var(I)), T(<<32>>)>>, else |-> <<T(<<101>>)>>]>>,
  <<Ob(Fl(Fl(RngE(x), "map", <<Lit(S(Bb))>>), "size", <<>>))>>,
  <<Ob(Fl(RngE(x), "slice", <<Lit(IntV(0)), Lit(IntV(2))>>))>>
>>
NRngUses == 18

\* ----------------------------------------------------------------- names
\* identifiers that begin with, end with or contain a keyword, a hyphen, a question mark, an underscore, a digit:
\* order android ink index nile truest falsely containsx a-b a_b x? _u a1 Z orange andy inn nil_ true1 e forloops contains_ in_ or_ and_ size_ first1 blank empty if for assign
NameU == << <<111, 114, 100, 101, 114>>, <<97, 110, 100, 114, 111, 105, 100>>, <<105, 110, 107>>, <<105, 110, 100, 101, 120>>, <<110, 105, 108, 101>>, <<116, 114, 117, 101, 115, 116>>, <<102, 97, 108, 115, 101, 108, 121>>, <<99, 111, 110, 116, 97, 105, 110, 115, 120>>, <<97, 45, 98>>, <<97, 95, 98>>, <<120, 63>>, <<95, 117>>, <<97, 49>>, <<90>>, <<111, 114, 97, 110, 103, 101>>, <<97, 110, 100, 121>>, <<105, 110, 110>>, <<110, 105, 108, 95>>, <<116, 114, 117, 101, 49>>, <<101>>, <<102, 111, 114, 108, 111, 111, 112, 115>>, <<99, 111, 110, 116, 97, 105, 110, 115, 95>>, <<105, 110, 95>>, <<111, 114, 95>>, <<97, 110, 100, 95>>, <<115, 105, 122, 101, 95>>, <<102, 105, 114, 115, 116, 49>>, <<98, 108, 97, 110, 107>>, <<101, 109, 112, 116, 121>>, <<105, 102>>, <<102, 111, 114>>, <<97, 115, 115, 105, 103, 110>> >>
NameUses(nm) == <<
  <<T(<<91>>), Ob(Var(nm)), T(<<93>>)>>,
  <<T(<<91>>), Ob(P(Var(<<109>>), nm)), T(<<93>>)>>,
  <<T(<<91>>), Ob(Ix(Var(<<109>>), Lit(S(nm)))), T(<<93>>)>>,
  <<[t |-> "if", branches |-> <<[c |-> [t |-> "cmp", op |-> "==", a |-> Var(nm), b |-> Lit(S(<<86>>))], body |-> <<T(<<121>>)>>],
                               [c |-> [t |-> "else"], body |-> <<T(<<110>>)>>]>>]>>,
  <<[t |-> "assign", name |-> nm, e |-> Lit(IntV(3))], T(<<91>>), Ob(Var(nm)), T(<<93>>)>>,
  <<[t |-> "for", tag |-> "for", var |-> nm, coll |-> [t |-> "range", a |-> Lit(IntV(1)), b |-> Lit(IntV(2))], body |-> <<Ob(Var(nm))>>], Ob(Var(nm))>>,
  <<Ob(Fl(Lit(S(<<120>>)), "append", <<Var(nm)>>))>>,
  <<[t |-> "capture", name |-> nm, body |-> <<T(<<99>>)>>], Ob(Var(nm))>>,
  <<[t |-> "if", branches |-> <<[c |-> [t |-> "and", a |-> Var(nm), b |-> [t |-> "cmp", op |-> "contains", a |-> Var(nm), b |-> Lit(S(<<86>>))]],
                                body |-> <<T(<<121>>)>>]>>]>>,
  <<Ob(P(P(Var(<<109>>), nm), B_size))>>,
  <<Ob(Fl(Var(nm), "append", <<P(Var(<<109>>), nm)>>))>>
>>
NNameUses == 11

\* -------------------------------------------------------------- litnames
\* bindings that are NAMED like the literals (nil, true, false): a literal still denotes itself; the binding is
\* reachable as a key of its map
N_nil == <<110, 105, 108>>
N_true == <<116, 114, 117, 101>>
N_false == <<102, 97, 108, 115, 101>>
YesNo(cnd) == [t |-> "if", branches |-> <<[c |-> cnd, body |-> <<T(<<121>>)>>], [c |-> [t |-> "else"], body |-> <<T(<<110>>)>>]>>]
LitNameUses == <<
  <<T(<<91>>), Ob(Lit(Nil)), T(<<124>>), Ob(Lit(Bool(TRUE))), T(<<124>>), Ob(Lit(Bool(FALSE))), T(<<93>>)>>,
  <<YesNo(Lit(Nil)), YesNo(Lit(Bool(FALSE))), YesNo(Lit(Bool(TRUE))), [t |-> "if", neg |-> TRUE, branches |-> <<[c |-> Lit(Nil), body |-> <<T(<<117>>)>>]>>]>>,
  <<[t |-> "case", e |-> Lit(Nil), pre |-> <<>>, whens |-> <<[vals |-> <<Lit(S(<<78>>))>>, body |-> <<T(<<98>>)>>], [vals |-> <<Lit(Nil)>>, body |-> <<T(<<119>>)>>],
                                                             [else |-> TRUE, vals |-> <<>>, body |-> <<T(<<101>>)>>]>>]>>,
  <<[t |-> "assign", name |-> <<122>>, e |-> Lit(Nil)], T(<<91>>), Ob(Var(<<122>>)), T(<<93>>), [t |-> "assign", name |-> <<122>>, e |-> Lit(Bool(TRUE))], Ob(Var(<<122>>))>>,
  <<Ob(Ix(Var(<<109>>), Lit(S(N_nil)))), T(<<124>>), Ob(Ix(Var(<<109>>), Lit(S(N_true))))>>,
  <<YesNo([t |-> "cmp", op |-> "==", a |-> Lit(Nil), b |-> Lit(S(<<78>>))]), YesNo([t |-> "cmp", op |-> "==", a |-> Var(A), b |-> Lit(Nil)]),
    YesNo([t |-> "and", a |-> Lit(Bool(TRUE)), b |-> Lit(Nil)])>>,
  <<Ob(Fl(Lit(Nil), "default", <<Lit(S(<<100>>))>>)), Ob(Fl(Lit(S(<<120>>)), "append", <<Lit(Bool(TRUE))>>))>>
>>

\* ----------------------------------------------------------------- space
\* fixed programs whose meaning must not depend on the whitespace inside tags
SpaceProgs == <<
  <<Ob(Fl(Fl(Var(A), "append", <<Lit(S(<<33>>))>>), "replace", <<Lit(S(<<97>>)), Var(Y)>>))>>,
  <<[t |-> "assign", name |-> <<122>>, e |-> Fl(Var(A), "upcase", <<>>)], Ob(Var(<<122>>))>>,
  <<[t |-> "if", branches |-> <<[c |-> [t |-> "and", a |-> [t |-> "cmp", op |-> "==", a |-> Var(NN), b |-> Lit(IntV(10))], b |-> Var(A)],
                                body |-> <<T(<<49>>)>>], [c |-> [t |-> "cmp", op |-> "contains", a |-> Var(A), b |-> Lit(S(<<122>>))], body |-> <<T(<<50>>)>>],
                               [c |-> [t |-> "else"], body |-> <<T(<<51>>)>>]>>]>>,
  <<[t |-> "for", tag |-> "for", var |-> I, coll |-> [t |-> "range", a |-> Lit(IntV(1)), b |-> Lit(IntV(4))], rev |-> TRUE,
     off |-> Lit(IntV(1)), lim |-> Lit(IntV(2)), body |-> <<Ob(Var(I)), [t |-> "cycle", group |-> <<103>>, vals |-> <<<<112>>, <<113>>>>]>>]>>,
  <<[t |-> "case", e |-> Var(NN), pre |-> <<>>, whens |-> <<[vals |-> <<Lit(IntV(1)), Lit(IntV(10))>>, body |-> <<T(<<119>>)>>],
                                                             [else |-> TRUE, vals |-> <<>>, body |-> <<T(<<101>>)>>]>>]>>,
  <<[t |-> "capture", name |-> <<122>>, body |-> <<Ob(Ix(Var(<<109>>), Lit(S(Bb))))>>], Ob(P(Var(<<122>>), B_size))>>,
  <<[t |-> "for", tag |-> "tablerow", var |-> I, coll |-> [t |-> "range", a |-> Lit(IntV(1)), b |-> Lit(IntV(3))], cols |-> Lit(IntV(2)), body |-> <<Ob(Var(I))>>]>>,
  <<[t |-> "if", neg |-> TRUE, branches |-> <<[c |-> [t |-> "cmp", op |-> "<", a |-> Var(NN), b |-> Lit(Flt(5, 2))], body |-> <<Ob(Lit(S(<<111, 107>>)))>>]>>]>>
>>
Spacings == << <<32>>, <<32, 32>>, <<9>>, <<10>>, <<32, 10, 32>>, <<13, 10>> >>

Cases ==
  [g : {"index"}, len : 0..5, i : 1..Len(IdxU), asvar : BOOLEAN]
  \cup [g : {"look"}, b : 1..Len(BaseU), p : 1..Len(Paths(Var(A))), strict : BOOLEAN]
  \cup {x \in [g : {"pipe"}, r : 1..Len(RecvU), ss : UNION {SeqsOfLen(n, Len(Steps)) : n \in 1..D}, direct : BOOLEAN] : TRUE}
  \cup [g : {"bad"}, f : 1..Len(AllFilters), kind : {"toomany", "toomany-nil", "toomany-undef"}]
  \cup [g : {"bad"}, f : {1}, kind : {"unknown", "unknown-args", "unknown-mid"}]
  \cup [g : {"lit"}, v : 1..Len(LitU), form : {"print", "eq", "assign"}]
  \cup [g : {"litws"}, k : 0..4]
  \cup [g : {"rng"}, lo : (0 - 1)..3, hi : (0 - 2)..4, use : 1..NRngUses, asvar : BOOLEAN]
  \cup [g : {"names"}, nm : 1..Len(NameU), use : 1..NNameUses]
  \cup [g : {"pipex"}, r : 1..Len(XRecvU), ss : SeqsOfLen(2, Len(XSteps)) \cup SeqsOfLen(3, 3)]
  \cup [g : {"litnames"}, use : 1..Len(LitNameUses), strict : BOOLEAN]
  \cup [g : {"space"}, q : 1..Len(SpaceProgs), sp : 1..Len(Spacings), tight : BOOLEAN]

ManyArgs(f) == [k \in 1..(DocArgs(f) + 2) |-> Lit(IntV(1))]
\* the right number of proper arguments, then surplus ones that evaluate to nil
NilSurplus(f, e) == [k \in 1..(DocArgs(f) + 2) |-> IF k <= DocArgs(f) THEN Lit(Str(<<120>>)) ELSE e]
ProgOf(x) ==
  CASE x.g = "index" -> <<T(<<91>>), Ob(Ix(Var(A), IF x.asvar THEN Var(I) ELSE Lit(IdxU[x.i]))), T(<<93>>)>>
    [] x.g = "look" -> <<T(<<91>>), Ob(Paths(Var(A))[x.p]), T(<<93>>)>>
    [] x.g = "pipe" -> IF x.direct THEN <<Ob(Chain(Var(A), x.ss))>> ELSE Decomposed(x.ss)
    [] x.g = "bad" ->
         (CASE x.kind = "toomany" -> <<Ob(Fl(Var(A), AllFilters[x.f], ManyArgs(AllFilters[x.f])))>>
            [] x.kind = "toomany-nil" -> <<Ob(Fl(Var(A), AllFilters[x.f], NilSurplus(AllFilters[x.f], Lit(Nil))))>>
            [] x.kind = "toomany-undef" -> <<Ob(Fl(Var(A), AllFilters[x.f], NilSurplus(AllFilters[x.f], Var(<<117, 110, 100>>))))>>
            [] x.kind = "unknown" -> <<T(<<120>>), Ob(Fl(Var(A), "no_such_filter", <<>>))>>
            [] x.kind = "unknown-args" -> <<Ob(Fl(Var(A), "nosuch", <<Lit(IntV(1))>>))>>
            [] x.kind = "unknown-mid" -> <<Ob(Fl(Fl(Fl(Var(A), "upcase", <<>>), "nosuch", <<>>), "size", <<>>))>>)
    [] x.g = "lit" ->
         (CASE x.form = "print" -> <<T(<<91>>), Ob(Lit(LitU[x.v])), T(<<93>>)>>
            [] x.form = "eq" -> <<Ob([t |-> "cmp", op |-> "==", a |-> Lit(LitU[x.v]), b |-> Var(A)])>>
            [] x.form = "assign" -> <<[t |-> "assign", name |-> <<122>>, e |-> Lit(LitU[x.v])], T(<<91>>), Ob(Var(<<122>>)), T(<<93>>)>>)
    [] x.g = "rng" -> RngUses(x)[x.use]
    [] x.g = "names" -> NameUses(NameU[x.nm])[x.use]
    [] x.g = "pipex" -> <<Ob(XChain(Var(A), x.ss))>>
    [] x.g = "litnames" -> LitNameUses[x.use]
    [] x.g = "litws" -> WsProg(x.k)
    [] x.g = "space" -> SpaceProgs[x.q]

EnvOf2(x) ==
  CASE x.g = "index" -> << <<A, ArrOf(x.len)>>, <<I, IdxU[x.i]>> >>
    [] x.g = "look" -> << <<A, BaseU[x.b]>>, <<<<107, 115>>, S(B_size)>> >>
    [] x.g = "pipe" -> PipeEnv(x.r)
    [] x.g = "bad" -> << <<A, S(<<97>>)>> >>
    [] x.g = "lit" -> << <<A, LitU[x.v]>> >>
    [] x.g = "litws" -> <<>>
    [] x.g = "rng" -> << <<A, Arr(<<IntV(7)>>)>>, <<Lo, IntV(x.lo)>>, <<Hi, IntV(x.hi)>> >>
    [] x.g = "names" -> << <<NameU[x.nm], S(<<86>>)>>, <<<<109>>, MapV(<< <<NameU[x.nm], S(<<80, 80>>)>> >>)>> >>
    [] x.g = "pipex" -> << <<A, XRecvU[x.r]>> >>
    [] x.g = "litnames" -> << <<N_nil, S(<<78>>)>>, <<N_true, S(<<84>>)>>, <<N_false, S(<<70>>)>>,
                              <<<<109>>, MapV(<< <<N_nil, S(<<80>>)>>, <<N_true, S(<<81>>)>> >>)>> >>
    [] x.g = "space" -> PipeEnv(1)
CxOf(x) == IF x.g \in {"look", "litnames"} /\ x.strict THEN [Cx0 EXCEPT !.strict = TRUE] ELSE Cx0
Res(x) == Render(CxOf(x), ProgOf(x), EnvOf(EnvOf2(x)))

Init == c \in Cases
Next == UNCHANGED vars

\* ------------------------------------------------------------------ laws
\* a[i]: negative indices count from the end; outside the array, or not a number: nil
IndexLaw ==
  c.g = "index" =>
    LET i == IdxU[c.i] n == c.len
        r == Index(ArrOf(n), i)
    IN  /\ (i.k = "int" /\ i.v >= 0 /\ i.v < n) => Same(r, IntV(10 * (i.v + 1)))
        /\ (i.k = "int" /\ i.v < 0 /\ i.v >= 0 - n) => Same(r, IntV(10 * (n + i.v + 1)))
        /\ (i.k = "int" /\ (i.v >= n \/ i.v < 0 - n)) => IsNil(r)
        /\ (~IsNum(i)) => IsNil(r)
SizeFirstLast ==
  c.g = "look" /\ BaseU[c.b].k = "arr" =>
    LET a == BaseU[c.b] IN
      /\ Same(Prop(a, B_size), IntV(Len(a.v)))
      /\ Same(Prop(a, B_first), Index(a, IntV(0))) /\ Same(Prop(a, B_last), Index(a, IntV(0 - 1)))
MapSizeFallback ==
  c.g = "look" /\ BaseU[c.b].k = "map" =>
    LET m == BaseU[c.b] IN
      Same(Prop(m, B_size), IF MapHas(m, B_size) THEN MapGet(m, B_size) ELSE IntV(Len(m.v)))
NilPropagates == \A name \in {Bb, B_size, B_first, Xx} : IsNil(Prop(Nil, name)) /\ IsNil(Prop(IntV(5), name)) /\ IsNil(Index(Nil, IntV(0)))
StrictOnlyFinal ==
  c.g = "look" /\ c.strict =>
    LET plain == Render(Cx0, ProgOf(c), EnvOf(EnvOf2(c))) strict == Res(c) IN
      \/ plain.status = "unspec" \/ strict.status = "unspec"
      \/ (plain.status = "ok" /\ plain.out = <<91, 93>> /\ strict.status \in {"error", "ok"})
      \/ (strict.status = plain.status /\ strict.out = plain.out)
PipelineIsSequential ==
  c.g = "pipe" =>
    LET d == Render(Cx0, <<Ob(Chain(Var(A), c.ss))>>, EnvOf(EnvOf2(c)))
        s == Render(Cx0, Decomposed(c.ss), EnvOf(EnvOf2(c)))
    IN  d.status = s.status /\ (d.status = "ok" => d.out = s.out)
\* a range whose end lies below its start is empty, wherever it is used; no use of a range fails
RECURSIVE JoinInts(_, _)
JoinInts(a, b) == IF b < a THEN <<>> ELSE IntText(a) \o (IF a = b THEN <<>> ELSE <<44>> \o JoinInts(a + 1, b))
RangeLaw ==
  c.g = "rng" =>
    /\ Res(c).status \in {"ok", "unspec"}
    /\ c.use \in {1, 7, 8, 9, 11} => (Res(c).status = "ok" /\ Res(c).out = JoinInts(c.lo, c.hi))
    /\ (c.use = 6 /\ c.hi < c.lo) => Res(c).out = <<55>>
\* a name denotes its binding, whatever the name looks like
NamesLaw == c.g = "names" => Res(c).status = "ok"
\* (in strict mode the object that prints the literal nil is the one error)
LitNamesLaw == c.g = "litnames" => (Res(c).status = "ok" \/ (c.strict /\ c.use \in {1, 4}))
BadIsError == c.g = "bad" => Res(c).status = "error"
SpacingIrrelevant == TRUE     \* the reference works on trees: spelling cannot matter to it by construction

IdOf(x) ==
  CASE x.g = "index" -> "index-" \o ToString(x.len) \o "-" \o ToString(x.i) \o "-" \o ToString(x.asvar)
    [] x.g = "look" -> "look-" \o ToString(x.b) \o "-" \o ToString(x.p) \o "-" \o ToString(x.strict)
    [] x.g = "pipe" -> "pipe-" \o ToString(x.r) \o "-" \o ToString(x.ss) \o "-" \o ToString(x.direct)
    [] x.g = "bad" -> "bad-" \o ToString(x.f) \o "-" \o x.kind
    [] x.g = "litws" -> "litws-" \o ToString(x.k)
    [] x.g = "lit" -> "lit-" \o ToString(x.v) \o "-" \o x.form
    [] x.g = "pipex" -> "pipex-" \o ToString(x.r) \o "-" \o ToString(x.ss)
    [] x.g = "names" -> "names-" \o ToString(x.nm) \o "-" \o ToString(x.use)
    [] x.g = "litnames" -> "litnames-" \o ToString(x.use) \o "-" \o ToString(x.strict)
    [] x.g = "rng" -> "rng-" \o ToString(x.lo) \o "-" \o ToString(x.hi) \o "-" \o ToString(x.use) \o "-" \o ToString(x.asvar)
    [] x.g = "space" -> "space-" \o ToString(x.q) \o "-" \o ToString(x.sp) \o "-" \o ToString(x.tight)
EmitCase == PrintT(ToJson(
  [id |-> IdOf(c), kind |-> "render", prog |-> ProgOf(c), env |-> EnvOf2(c), strict |-> (c.g = "look" /\ c.strict), g |-> c.g]
  @@ (IF c.g = "space" THEN [spell |-> [sp |-> Spacings[c.sp], tight |-> c.tight]] ELSE <<>>)
  @@ (IF c.g = "pipex" THEN [prog2 |-> XDecomposed(c.ss)] ELSE <<>>)))
=============================================================================
