------------------------------- MODULE LqText -------------------------------
(***************************************************************************)
(* Text as sequences of bytes (0..255).  TLC strings are atomic, so every  *)
(* piece of template text, every string value, every identifier and every  *)
(* map key of the specification is a byte sequence.  This module provides  *)
(* the operations the Liquid semantics needs on such sequences: UTF-8      *)
(* segmentation into characters, whitespace classes, trimming, searching,  *)
(* replacing, splitting, case mapping and decimal printing/parsing.        *)
(***************************************************************************)
EXTENDS Integers, Sequences, FiniteSets

Byte == 0..255

\* ---------------------------------------------------------------- helpers
MinI(a, b) == IF a < b THEN a ELSE b
MaxI(a, b) == IF a > b THEN a ELSE b
AbsI(a) == IF a < 0 THEN 0 - a ELSE a

RECURSIVE Flatten(_)
Flatten(ss) == IF ss = <<>> THEN <<>> ELSE Head(ss) \o Flatten(Tail(ss))

Rev(s) == [i \in 1..Len(s) |-> s[Len(s) + 1 - i]]

Take(s, n) == SubSeq(s, 1, MinI(MaxI(n, 0), Len(s)))
Drop(s, n) == SubSeq(s, MinI(MaxI(n, 0), Len(s)) + 1, Len(s))

IsPrefixOf(p, s) == Len(p) <= Len(s) /\ SubSeq(s, 1, Len(p)) = p
IsSuffixOf(p, s) == Len(p) <= Len(s) /\ SubSeq(s, Len(s) - Len(p) + 1, Len(s)) = p

\* first index i >= from with p occurring at s[i..]; 0 when there is none
\* (set-based, not recursive: TLC evaluates deep recursion with growing
\* arguments in quadratic time)
MinOf(S) == CHOOSE x \in S : \A y \in S : x <= y
FindFrom(s, p, from) ==
  LET c == {i \in from..(Len(s) - Len(p) + 1) : SubSeq(s, i, i + Len(p) - 1) = p}
  IN  IF c = {} THEN 0 ELSE MinOf(c)
Find(s, p) == FindFrom(s, p, 1)
HasSub(s, p) == Find(s, p) # 0

\* ------------------------------------------------------------- whitespace
\* The ASCII members of unicode.IsSpace.  The non-ASCII members (U+0085,
\* U+00A0, U+2000.. ) are outside the modelled alphabet; generators never
\* produce them.
IsSpaceB(b) == b \in {9, 10, 11, 12, 13, 32}
IsSpaceText(s) == \A i \in 1..Len(s) : IsSpaceB(s[i])

RECURSIVE LStrip(_)
LStrip(s) == IF s # <<>> /\ IsSpaceB(Head(s)) THEN LStrip(Tail(s)) ELSE s
RECURSIVE RStrip(_)
RStrip(s) == IF s # <<>> /\ IsSpaceB(s[Len(s)]) THEN RStrip(SubSeq(s, 1, Len(s) - 1)) ELSE s
Strip(s) == LStrip(RStrip(s))

DelSpace(s) == SelectSeq(s, LAMBDA b : ~IsSpaceB(b))
CountByte(s, b) == Cardinality({i \in 1..Len(s) : s[i] = b})
Newlines(s) == CountByte(s, 10)

\* ------------------------------------------------------------------ UTF-8
\* Length of the well-formed UTF-8 sequence starting at s[i], or 0 when the
\* bytes there are not well formed (Go then yields U+FFFD for that byte).
U8Len(s, i) ==
  LET b == s[i]
      cont(j) == j <= Len(s) /\ s[j] >= 128 /\ s[j] <= 191
  IN  IF b < 128 THEN 1
      ELSE IF b >= 194 /\ b <= 223 /\ cont(i + 1) THEN 2
      ELSE IF b >= 224 /\ b <= 239 /\ cont(i + 1) /\ cont(i + 2)
              /\ (b # 224 \/ s[i + 1] >= 160) /\ (b # 237 \/ s[i + 1] <= 159) THEN 3
      ELSE IF b >= 240 /\ b <= 244 /\ cont(i + 1) /\ cont(i + 2) /\ cont(i + 3)
              /\ (b # 240 \/ s[i + 1] >= 144) /\ (b # 244 \/ s[i + 1] <= 143) THEN 4
      ELSE 0

RECURSIVE CharsFrom(_, _)
CharsFrom(s, i) ==
  IF i > Len(s) THEN <<>>
  ELSE LET n == U8Len(s, i) m == IF n = 0 THEN 1 ELSE n
       IN  <<SubSeq(s, i, i + m - 1)>> \o CharsFrom(s, i + m)
\* the characters of s, each as its own byte sequence
Chars(s) == CharsFrom(s, 1)

RECURSIVE ValidFrom(_, _)
ValidFrom(s, i) == IF i > Len(s) THEN TRUE
                   ELSE LET n == U8Len(s, i) IN n # 0 /\ ValidFrom(s, i + n)
ValidUtf8(s) == ValidFrom(s, 1)
IsAscii(s) == \A i \in 1..Len(s) : s[i] < 128
CharCount(s) == Len(Chars(s))

\* ------------------------------------------------------------------- case
\* Case mapping is modelled for ASCII and for the Latin-1 letters encoded
\* with lead byte 195 (U+00C0..U+00DE <-> U+00E0..U+00FE, minus the
\* multiplication and division signs).  CaseModelled says whether every
\* character of s is one whose Go mapping this table reproduces.
\* Three letters whose other case is encoded in another number of bytes: dotless i (2 bytes) -> I, long s (2) -> S,
\* turned a (2) <-> turned A (3).
DotlessI == <<196, 177>>
LongS == <<197, 191>>
TurnedA == <<201, 144>>
TurnedCapA == <<226, 177, 175>>
UpChar(c) ==
  IF c = DotlessI THEN <<73>> ELSE IF c = LongS THEN <<83>> ELSE IF c = TurnedA THEN TurnedCapA ELSE
  IF Len(c) = 1 /\ c[1] >= 97 /\ c[1] <= 122 THEN <<c[1] - 32>>
  ELSE IF Len(c) = 2 /\ c[1] = 195 /\ c[2] >= 160 /\ c[2] <= 190 /\ c[2] # 183 THEN <<195, c[2] - 32>>
  ELSE c
DownChar(c) ==
  IF c = TurnedCapA THEN TurnedA ELSE
  IF Len(c) = 1 /\ c[1] >= 65 /\ c[1] <= 90 THEN <<c[1] + 32>>
  ELSE IF Len(c) = 2 /\ c[1] = 195 /\ c[2] >= 128 /\ c[2] <= 158 /\ c[2] # 151 THEN <<195, c[2] + 32>>
  ELSE c
CaseModelledChar(c) ==
  \/ c \in {DotlessI, LongS, TurnedA, TurnedCapA}
  \/ Len(c) = 1 /\ c[1] < 128
  \/ Len(c) = 2 /\ c[1] = 195 /\ c[2] >= 128 /\ c[2] <= 190
  \/ Len(c) = 4 /\ c[1] = 240 /\ c[2] = 159          \* emoji plane: no case
CaseModelled(s) == ValidUtf8(s) /\ \A i \in 1..Len(Chars(s)) : CaseModelledChar(Chars(s)[i])
Upcase(s) == Flatten([i \in 1..Len(Chars(s)) |-> UpChar(Chars(s)[i])])
Downcase(s) == Flatten([i \in 1..Len(Chars(s)) |-> DownChar(Chars(s)[i])])

\* ------------------------------------------------- replace / split / join
RECURSIVE ReplaceN(_, _, _, _)
\* replace the first n occurrences (n < 0: all) of old in s by new; Go's
\* strings.Replace semantics, including the empty pattern (which matches
\* before every character and at the end).
ReplaceN(s, old, new, n) ==
  IF n = 0 THEN s
  ELSE IF old = <<>> THEN
    \* insert new before each character (UTF-8 sequence) and at the end
    LET cs == Chars(s)
        k == IF n < 0 THEN Len(cs) + 1 ELSE MinI(n, Len(cs) + 1)
        pieces == [i \in 1..Len(cs) |-> IF i <= k THEN new \o cs[i] ELSE cs[i]]
    IN  Flatten(pieces) \o (IF k = Len(cs) + 1 THEN new ELSE <<>>)
  ELSE LET i == Find(s, old) IN
    IF i = 0 THEN s
    ELSE SubSeq(s, 1, i - 1) \o new
         \o ReplaceN(SubSeq(s, i + Len(old), Len(s)), old, new, IF n < 0 THEN n ELSE n - 1)

RECURSIVE SplitOn(_, _)
\* strings.Split for a non-empty separator
SplitOn(s, sep) ==
  LET i == Find(s, sep) IN
    IF i = 0 THEN <<s>>
    ELSE <<SubSeq(s, 1, i - 1)>> \o SplitOn(SubSeq(s, i + Len(sep), Len(s)), sep)

RECURSIVE SplitSpaceRuns(_, _)
\* regexp `[[:space:]]+`.Split(s, -1): fields separated by runs of ASCII
\* whitespace; leading/trailing runs yield empty first/last fields
SplitSpaceRuns(s, cur) ==
  IF s = <<>> THEN <<cur>>
  ELSE IF IsSpaceB(Head(s)) THEN <<cur>> \o SplitSpaceRuns(LStrip(s), <<>>)
  ELSE SplitSpaceRuns(Tail(s), Append(cur, Head(s)))

RECURSIVE DropTrailingEmpty(_)
DropTrailingEmpty(ss) ==
  IF ss # <<>> /\ ss[Len(ss)] = <<>> THEN DropTrailingEmpty(SubSeq(ss, 1, Len(ss) - 1)) ELSE ss

RECURSIVE JoinWith(_, _)
JoinWith(ss, sep) ==
  IF ss = <<>> THEN <<>>
  ELSE IF Len(ss) = 1 THEN ss[1]
  ELSE ss[1] \o sep \o JoinWith(Tail(ss), sep)

\* --------------------------------------------------------------- decimals
RECURSIVE NatDigits(_)
NatDigits(n) == IF n < 10 THEN <<48 + n>> ELSE NatDigits(n \div 10) \o <<48 + (n % 10)>>
IntText(n) == IF n < 0 THEN <<45>> \o NatDigits(0 - n) ELSE NatDigits(n)

IsDigitB(b) == b >= 48 /\ b <= 57
RECURSIVE DigitsVal(_, _)
DigitsVal(s, acc) == IF s = <<>> THEN acc ELSE DigitsVal(Tail(s), acc * 10 + (Head(s) - 48))
AllDigits(s) == s # <<>> /\ \A i \in 1..Len(s) : IsDigitB(s[i])

\* lexicographic order on byte sequences (Go's string <)
RECURSIVE BytesLess(_, _)
BytesLess(a, b) ==
  IF b = <<>> THEN FALSE
  ELSE IF a = <<>> THEN TRUE
  ELSE IF Head(a) # Head(b) THEN Head(a) < Head(b)
  ELSE BytesLess(Tail(a), Tail(b))

\* ----------------------------------------------------------- HTML / URL
EscChar(b) ==
  CASE b = 60 -> <<38, 108, 116, 59>>             \* <  &lt;
    [] b = 62 -> <<38, 103, 116, 59>>             \* >  &gt;
    [] b = 38 -> <<38, 97, 109, 112, 59>>         \* &  &amp;
    [] b = 39 -> <<38, 35, 51, 57, 59>>           \* '  &#39;
    [] b = 34 -> <<38, 35, 51, 52, 59>>           \* "  &#34;
    [] OTHER -> <<b>>
HtmlEscape(s) == Flatten([i \in 1..Len(s) |-> EscChar(s[i])])
HasRawSpecial(s) == \E i \in 1..Len(s) : s[i] \in {60, 62, 39, 34}

\* html.UnescapeString restricted to the five entities html.EscapeString produces (and &quot;);
\* any other ampersand stays as it is
Entities == << <<<<38, 108, 116, 59>>, <<60>>>>, <<<<38, 103, 116, 59>>, <<62>>>>, <<<<38, 97, 109, 112, 59>>, <<38>>>>,
              <<<<38, 35, 51, 57, 59>>, <<39>>>>, <<<<38, 35, 51, 52, 59>>, <<34>>>>, <<<<38, 113, 117, 111, 116, 59>>, <<34>>>> >>
RECURSIVE HtmlUnescape(_)
HtmlUnescape(s) ==
  IF s = <<>> THEN <<>>
  ELSE IF Head(s) = 38 /\ \E k \in 1..Len(Entities) : IsPrefixOf(Entities[k][1], s)
       THEN LET k == CHOOSE k \in 1..Len(Entities) : IsPrefixOf(Entities[k][1], s)
            IN  Entities[k][2] \o HtmlUnescape(SubSeq(s, Len(Entities[k][1]) + 1, Len(s)))
       ELSE <<Head(s)>> \o HtmlUnescape(Tail(s))
\* is every ampersand of s either the start of one of those entities or followed by something that cannot start an entity?
AmpersandsModelled(s) ==
  \A i \in 1..Len(s) : s[i] = 38 =>
     \/ \E k \in 1..Len(Entities) : IsPrefixOf(Entities[k][1], SubSeq(s, i, Len(s)))
     \/ i = Len(s)
     \/ ~((s[i + 1] >= 65 /\ s[i + 1] <= 90) \/ (s[i + 1] >= 97 /\ s[i + 1] <= 122) \/ s[i + 1] = 35)

HexDigit(n) == IF n < 10 THEN 48 + n ELSE 55 + n        \* upper case
UrlUnreserved(b) == (b >= 48 /\ b <= 57) \/ (b >= 65 /\ b <= 90) \/ (b >= 97 /\ b <= 122)
                    \/ b \in {45, 95, 46, 126}
UrlEncChar(b) == IF UrlUnreserved(b) THEN <<b>>
                 ELSE IF b = 32 THEN <<43>>
                 ELSE <<37, HexDigit(b \div 16), HexDigit(b % 16)>>
UrlEncode(s) == Flatten([i \in 1..Len(s) |-> UrlEncChar(s[i])])
=============================================================================
