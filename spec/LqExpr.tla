------------------------------- MODULE LqExpr -------------------------------
(***************************************************************************)
(* Abstract expression trees and their evaluation (C08, C09).              *)
(*                                                                         *)
(*   [t |-> "lit", v |-> Value]          [t |-> "var", name |-> bytes]     *)
(*   [t |-> "prop", e, name]    a.name   [t |-> "idx", e, i]    a[i]       *)
(*   [t |-> "range", a, b]      (a..b)                                     *)
(*   [t |-> "cmp", op, a, b]    op in == != < > <= >= contains             *)
(*   [t |-> "and"|"or", a, b]                                              *)
(*   [t |-> "filter", e, name |-> STRING, args |-> Seq(Expr)]              *)
(*                                                                         *)
(* Eval(e, env) is EVal(v) | EErr | EUnspec, env a function from variable  *)
(* names (bytes) to values.                                                *)
(***************************************************************************)
EXTENDS LqFilters

EVal(v) == [r |-> "val", v |-> v]
EErr == [r |-> "err"]
EUnspec == [r |-> "unspec"]

Lookup(env, name) == IF name \in DOMAIN env THEN env[name] ELSE Nil

V3(x) == IF x = "u" THEN Unspec ELSE Bool(x = "t")

Compare(op, a, b) ==
  CASE op = "==" -> V3(Eq3(a, b))
    [] op = "!=" -> V3(Not3(Eq3(a, b)))
    [] op = "<" -> V3(Less3(a, b))
    [] op = ">" -> V3(Less3(b, a))
    [] op = "<=" -> V3(Or3(Less3(a, b), Eq3(a, b)))
    [] op = ">=" -> V3(Or3(Less3(b, a), Eq3(a, b)))
    [] op = "contains" -> V3(Contains3(a, b))

RECURSIVE Eval(_, _)
RECURSIVE EvalAll(_, _)
RECURSIVE WhereSel(_, _, _, _)
\* evaluate a sequence of expressions: [r |-> "val", v |-> Seq(Value)] | err | unspec
EvalAll(es, env) ==
  IF es = <<>> THEN [r |-> "val", v |-> <<>>]
  ELSE LET h == Eval(Head(es), env) IN
    IF h.r # "val" THEN h
    ELSE LET t == EvalAll(Tail(es), env) IN
      IF t.r # "val" THEN t ELSE [r |-> "val", v |-> <<h.v>> \o t.v]

Eval(e, env) ==
  CASE e.t = "lit" -> EVal(e.v)
    [] e.t = "var" -> EVal(Lookup(env, e.name))
    [] e.t = "prop" -> LET r == Eval(e.e, env) IN IF r.r = "val" THEN EVal(Prop(r.v, e.name)) ELSE r
    [] e.t = "idx" -> LET r == Eval(e.e, env) IN
                        IF r.r # "val" THEN r
                        ELSE LET i == Eval(e.i, env) IN IF i.r = "val" THEN EVal(Index(r.v, i.v)) ELSE i
    [] e.t = "range" -> LET a == Eval(e.a, env) IN
                          IF a.r # "val" THEN a
                          ELSE LET b == Eval(e.b, env) IN
                            IF b.r # "val" THEN b
                            ELSE IF a.v.k = "int" /\ b.v.k = "int" THEN EVal(RangeV(a.v.v, b.v.v))
                            ELSE EUnspec
    [] e.t = "cmp" -> LET a == Eval(e.a, env) IN
                        IF a.r # "val" THEN a
                        ELSE LET b == Eval(e.b, env) IN
                          IF b.r # "val" THEN b ELSE EVal(Compare(e.op, a.v, b.v))
    [] e.t = "and" -> LET a == Eval(e.a, env) IN
                        IF a.r # "val" THEN a
                        ELSE IF IsUnspec(a.v) THEN EUnspec
                        ELSE IF ~Truthy(a.v) THEN EVal(Bool(FALSE))
                        ELSE LET b == Eval(e.b, env) IN
                          IF b.r # "val" THEN b
                          ELSE IF IsUnspec(b.v) THEN EUnspec ELSE EVal(Bool(Truthy(b.v)))
    [] e.t = "or" -> LET a == Eval(e.a, env) IN
                       IF a.r # "val" THEN a
                       ELSE IF IsUnspec(a.v) THEN EUnspec
                       ELSE IF Truthy(a.v) THEN EVal(Bool(TRUE))
                       ELSE LET b == Eval(e.b, env) IN
                         IF b.r # "val" THEN b
                         ELSE IF IsUnspec(b.v) THEN EUnspec ELSE EVal(Bool(Truthy(b.v)))
    [] e.t = "xwhere" ->
         LET r == Eval(e.e, env) IN
           IF r.r # "val" THEN r
           ELSE IF r.v.k # "arr" THEN EUnspec
           ELSE LET w == WhereSel(r.v.v, e.var, e.c, env) IN
             IF w.r = "val" THEN EVal(Arr(w.v)) ELSE w
    [] e.t = "filter" ->
         LET r == Eval(e.e, env) IN
           IF r.r # "val" THEN r
           ELSE LET as == EvalAll(e.args, env) IN
             IF as.r # "val" THEN as
             ELSE LET f == Filter(e.name, r.v, as.v) IN
               IF f.r = "val" THEN EVal(f.v) ELSE IF f.r = "err" THEN EErr ELSE EUnspec

\* lqx_where (a filter of the embedding program whose last parameter is an expressions.Closure: the argument is the
\* SOURCE of an expression, evaluated once per element with the element bound to a name on top of the current bindings;
\* the elements for which it is truthy are kept).  [r |-> "val", v |-> Seq] | err | unspec
WhereSel(items, var, cond, env) ==
  IF items = <<>> THEN [r |-> "val", v |-> <<>>]
  ELSE LET h == Eval(cond, [x \in DOMAIN env \cup {var} |-> IF x = var THEN Head(items) ELSE env[x]]) IN
    IF h.r # "val" THEN h
    ELSE IF IsUnspec(h.v) THEN EUnspec
    ELSE LET t == WhereSel(Tail(items), var, cond, env) IN
      IF t.r # "val" THEN t ELSE [r |-> "val", v |-> (IF Truthy(h.v) THEN <<Head(items)>> ELSE <<>>) \o t.v]

\* pipeline law of C08: a filter chain equals doing the steps one at a time
RECURSIVE IsPipeline(_)
IsPipeline(e) == e.t = "filter" /\ (e.e.t # "filter" \/ IsPipeline(e.e))
=============================================================================
