------------------------------ MODULE TraceC13 ------------------------------
(***************************************************************************)
(* Trace validation for C13.  An event carries the program, the program    *)
(* with its hyphens dropped (prog0) and the two outputs the implementation *)
(* produced.  Accepted when                                                *)
(*  (1) both renders succeed,                                              *)
(*  (2) without hyphens nothing is lost: out0 is the reference output,     *)
(*  (3) weak law: the two outputs agree after deleting all whitespace, and *)
(*  (4) when every hyphen faces literal text, out is the reference output  *)
(*      of the program with hyphens dropped and that whitespace deleted.   *)
(***************************************************************************)
EXTENDS LqTrim, Json, TLC, IOUtils

Trace == ndJsonDeserialize(IOEnv.LQ_TRACE)
VARIABLE l

Check(t) ==
  LET env == EnvOf(t.env)
      r0 == Render(Cx0, t.prog0, env)
      facing == Facing(t.prog)
      rs == IF facing THEN Render(Cx0, StripAdj(t.prog), env) ELSE r0
  IN  [ok |-> /\ t.outcome = "ok" /\ t.outcome0 = "ok"
              /\ (r0.status = "ok" => t.out0 = r0.out)
              /\ DelSpace(t.out) = DelSpace(t.out0)
              /\ ((facing /\ rs.status = "ok") => t.out = rs.out),
       decided |-> r0.status = "ok",
       exp |-> [facing |-> facing, out0 |-> r0.out, out |-> rs.out, status |-> rs.status]]

Init == l = 1
Next ==
  /\ l <= Len(Trace)
  /\ l' = l + 1
  /\ LET t == Trace[l] c == Check(t) IN
       IF c.ok THEN PrintT(<<"V", t.id, IF c.decided THEN "ok" ELSE "unspec">>)
       ELSE PrintT(<<"V", t.id, "REJECT", ToJson(c.exp)>>)
TraceAccepted == TLCGet("stats").diameter - 1 = Len(Trace)
=============================================================================
