---------------------------- MODULE TraceRender ----------------------------
(***************************************************************************)
(* Trace validation of render observations (code -> model).                *)
(*                                                                         *)
(* The harness logs, for every case it ran through the public API of the   *)
(* implementation, one ndjson line: the abstract program, the bindings,    *)
(* the configuration, and what came back (outcome, output bytes, error     *)
(* line).  Each line is one event; the trace specification consumes them   *)
(* in order and evaluates the reference semantics LqRender!Render on the   *)
(* logged input.  The logged result must be one the specification allows:  *)
(* exactly the output when the semantics decides it, an error when it says *)
(* error, anything that returns when it is undecided.  A mismatch does not *)
(* stop the validation (cases are independent): it is printed as a REJECT  *)
(* line together with the expectation, and the next event is consumed.     *)
(* TraceAccepted (POSTCONDITION) requires every line to be consumed.       *)
(***************************************************************************)
EXTENDS LqRender, Json, TLC, IOUtils

Trace == ndJsonDeserialize(IOEnv.LQ_TRACE)

VARIABLE l

CxOf(t) == [Cx0 EXCEPT !.strict = Fld(t, "strict", FALSE), !.path = Fld(t, "path", <<>>),
                       !.line0 = Fld(t, "line0", 0), !.fs = Fld(t, "files", <<>>),
                       !.cache = Fld(t, "cache", <<>>)]

Expected(t) == Render(CxOf(t), t.prog, EnvOf(t.env))

\* anyorder = n: the program iterates a map of n entries, in an order the
\* property under test leaves open; accepted when some order explains it
Perms(n) == {p \in [1..n -> 1..n] : \A i, j \in 1..n : p[i] = p[j] => i = j}
ExpectedUnder(t, p) == Render([CxOf(t) EXCEPT !.perm = p], t.prog, EnvOf(t.env))

\* What is bound when the render is over (C12: a variable holds exactly what was assigned or captured; a loop gives its
\* variable and forloop back - and binds nothing else).  The harness's tag at the end of the template reports every
\* name bound to something other than nil, with the kind and text of strings, integers and booleans.
FinalEnvOK(t, exp) ==
  ("finalbinds" \notin DOMAIN t) \/
  LET obsNames == {t.finalbinds[i][1] : i \in 1..Len(t.finalbinds)}
      refNames == {x \in DOMAIN exp.env : ~IsNil(exp.env[x])}
      undecided == \E x \in DOMAIN exp.env : IsUnspec(exp.env[x])
  IN  undecided \/
      (/\ obsNames = refNames
       /\ \A i \in 1..Len(t.finalbinds) :
            LET e == t.finalbinds[i] r == exp.env[e[1]] IN
              CASE e[2] = "str" -> r.k = "str" /\ r.v = e[3]
                [] e[2] = "bool" -> r.k = "bool" /\ ToText(r).s = e[3]
                [] e[2] = "int" -> (r.k = "int" /\ ToText(r).s = e[3]) \/ r.k = "big"
                [] OTHER -> r.k \notin {"str", "bool"})

\* "ok" | "unspec" | "REJECT"
Verdict(t, exp) ==
  CASE t.outcome = "unstable" -> "REJECT"        \* re-rendering the parsed template gave a different result
    [] t.outcome = "snapdiff" -> "REJECT"        \* after a loop its variable / forloop is not bound to the very value it was bound to before (C12)
    [] t.outcome = "pipediff" -> "REJECT"        \* a pipeline did not render as its steps taken one at a time through assign (C08)
    [] t.outcome = "addrleak" -> "REJECT"        \* the output holds a memory address (C02)
    [] t.outcome = "repdiff" -> "REJECT"         \* the same bindings in another Go representation gave a different result (C18)
    [] exp.status = "ok" -> IF t.outcome = "ok" /\ t.out = exp.out /\ FinalEnvOK(t, exp) THEN "ok" ELSE "REJECT"
    [] exp.status = "error" ->
         IF t.outcome = "error" /\ Fld(t, "srcerr", TRUE)
            /\ (exp.err.line < 0 \/ ~Fld(t, "chkline", FALSE) \/ t.errline = exp.err.line)
         THEN "ok" ELSE "REJECT"
    [] exp.status = "unspec" -> "unspec"
    [] OTHER -> "REJECT"

Init == l = 1
Next ==
  /\ l <= Len(Trace)
  /\ l' = l + 1
  /\ LET t == Trace[l]
         n == Fld(t, "anyorder", 0)
         good == IF n = 0 THEN {} ELSE {p \in Perms(n) : Verdict(t, ExpectedUnder(t, p)) # "REJECT"}
         exp == IF n = 0 THEN Expected(t)
                ELSE ExpectedUnder(t, IF good = {} THEN [i \in 1..n |-> i] ELSE CHOOSE p \in good : TRUE)
         v == Verdict(t, exp)
     IN  IF v = "REJECT"
         THEN PrintT(<<"V", t.id, v, ToJson([status |-> exp.status, out |-> exp.out, errline |-> exp.err.line])>>)
         ELSE PrintT(<<"V", t.id, v>>)
Spec == Init /\ [][Next]_l

TraceAccepted == TLCGet("stats").diameter - 1 = Len(Trace)
=============================================================================
