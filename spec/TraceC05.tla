------------------------------ MODULE TraceC05 ------------------------------
(***************************************************************************)
(* Trace validation for C05 (tokenizer part).  An event carries a source,  *)
(* the token list parser.Scan returned for it (type, source text, line;    *)
(* trim tokens are zero-width) and what rendering the source gave.         *)
(* Demanded of every input: no panic, Partition, LineLaw, Identity (one    *)
(* text token, and the render is the source itself, when no tag or object  *)
(* opens).  Demanded on the well-formed fragment only: the token list is   *)
(* the one the reference scanner produces, trim tokens included.           *)
(***************************************************************************)
EXTENDS LqScan, Json, TLC, IOUtils

Trace == ndJsonDeserialize(IOEnv.LQ_TRACE)
VARIABLE l

Fld(r, f, dflt) == IF f \in DOMAIN r THEN r[f] ELSE dflt

\* the reference tokens with the zero-width trim tokens made explicit
Expand(toks) ==
  Flatten([i \in 1..Len(toks) |->
     IF toks[i].ty = "text" THEN <<[ty |-> "text", src |-> toks[i].src, line |-> toks[i].line]>>
     ELSE (IF toks[i].tl THEN <<[ty |-> "trimL", src |-> <<>>, line |-> 0]>> ELSE <<>>)
          \o <<[ty |-> toks[i].ty, src |-> toks[i].src, line |-> toks[i].line]>>
          \o (IF toks[i].tr THEN <<[ty |-> "trimR", src |-> <<>>, line |-> 0]>> ELSE <<>>)])

Real(toks) == SelectSeq(toks, LAMBDA t : t.ty \notin {"trimL", "trimR"})
Norm(toks) == [i \in 1..Len(toks) |-> [ty |-> toks[i].ty, src |-> toks[i].src,
                                       line |-> IF toks[i].ty \in {"trimL", "trimR"} THEN 0 ELSE toks[i].line]]

Why(t) ==
  LET d == Fld(t, "delims", DefaultDelims)
      line0 == Fld(t, "line0", 0)
      real == Real(t.toks)
  IN  IF t.scan = "panic" THEN "Scan panicked"
      ELSE IF t.outcome \in {"panic", "fatal", "timeout"} THEN "parse/render did not return"
      ELSE IF ~Partition(t.toks, t.src) THEN "token sources do not concatenate to the input"
      ELSE IF ~LineLaw(real, line0) THEN "a token's line is not the starting line plus the newlines before it"
      ELSE IF ~Identity(real, t.src, d) THEN "a source without tag or object is not a single text token"
      ELSE IF ~HasOpener(t.src, d) /\ ~(t.outcome = "ok" /\ t.out = t.src) THEN "a source without tag or object does not render to itself"
      ELSE IF WellFormed(t.src, d) /\ Norm(t.toks) # Expand(Tokens(t.src, line0, d)) THEN "tokens differ from the reference scanner on a well-formed source"
      ELSE ""
Init == l = 1
Next ==
  /\ l <= Len(Trace)
  /\ l' = l + 1
  /\ LET t == Trace[l] w == Why(t) IN
       IF w = "" THEN PrintT(<<"V", t.id, IF WellFormed(t.src, Fld(t, "delims", DefaultDelims)) THEN "ok" ELSE "unspec">>)
       ELSE PrintT(<<"V", t.id, "REJECT", ToJson([why |-> w, expected |-> Expand(Tokens(t.src, Fld(t, "line0", 0), Fld(t, "delims", DefaultDelims)))])>>)
TraceAccepted == TLCGet("stats").diameter - 1 = Len(Trace)
=============================================================================
