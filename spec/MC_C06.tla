------------------------------- MODULE MC_C06 -------------------------------
(***************************************************************************)
(* C06 - a template is accepted iff its block tags are properly nested.    *)
(* The parser machine consumes every token-class sequence up to N tokens    *)
(* (extension stops at rejection: the parser is prefix-closed).  In every   *)
(* state the machine's verdict on the prefix is compared with the           *)
(* independent recursive-descent recogniser, and each prefix is emitted     *)
(* for replay: accept/reject and tree shape against ParseTemplate/GetRoot.  *)
(***************************************************************************)
EXTENDS LqParse, Json, TLC

CONSTANTS N, Ext     \* Ext: the alphabet with a block registered by the embedding program (and fewer standard classes)
VARIABLES toks, st
vars == <<toks, st>>

Alpha == IF Ext THEN {"lqx_wrap", "endlqx_wrap", "if", "endif", "else", "for", "endfor", "comment", "endcomment", "capture", "endcapture", "text", "obj"}
         ELSE Classes \ (XBlocks \cup XEnds)
Init == toks = <<>> /\ st = Init0
Next == /\ Len(toks) < N /\ st.status = "run"
        /\ \E c \in Alpha :
             /\ ~(c = "text" /\ toks # <<>> /\ toks[Len(toks)] = "text")      \* adjacent texts are one token
             /\ toks' = Append(toks, c)
             /\ st' = Step(st, c, Len(toks) + 1)

\* the machine agrees with the declarative recogniser on every prefix
AcceptanceLaw == (Finish(st).status = "ok") = Accepted(toks)
\* a rejection is final: no extension of a rejected prefix is accepted
RejectionIsFinal == st.status = "rejected" => ~Accepted(toks)
\* the stack is exactly the blocks opened and not yet closed
StackDepth == st.status = "run" =>
  Len(st.stack) + (IF st.mode = "normal" THEN 0 ELSE 0) <= Len(toks)
FunctionAgrees == Parse(toks).status = Finish(st).status

EmitCase == PrintT(ToJson([id |-> "p" \o ToString(toks), kind |-> "parse", toks |-> toks]))
=============================================================================
