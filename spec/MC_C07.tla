------------------------------- MODULE MC_C07 -------------------------------
(***************************************************************************)
(* C07 - every failure is a SourceError that locates the offending tag or  *)
(* object.  One failing construct of each kind (parse-time: object or tag  *)
(* that does not parse, unknown tag, stray end/clause tag, block tag with  *)
(* bad arguments, unterminated block; render-time: filter error,           *)
(* conversion error, unknown filter, strict-mode undefined variable,       *)
(* include of a missing file / with a non-string argument) is nested under *)
(* every sequence of up to D wrappers (if, for, case/when, capture,        *)
(* unless), preceded by a and b newlines outside and inside the wrappers,  *)
(* parsed with or without a path and at starting line 0, 1 or 5.           *)
(* For the render-time kinds the render machine runs step by step and the  *)
(* line it reports (under the intended wrap policy) is compared with the   *)
(* statically computed line of the failing node.  WrapPolicy = "pathonly"  *)
(* is the behaviour of the pinned commit (self-test).                      *)
(***************************************************************************)
EXTENDS LqRender, Json, TLC

CONSTANTS D, WrapPolicy
VARIABLES c, st
vars == <<c, st>>

T(s) == [t |-> "text", s |-> s]
Var(n) == [t |-> "var", name |-> n]
Lit(v) == [t |-> "lit", v |-> v]
Ob(e) == [t |-> "obj", e |-> e]
NLs(n) == [i \in 1..n |-> 10]

ParseKinds == {"badobj", "badtag", "unknowntag", "strayend", "strayclause", "badif", "openif", "openraw", "opencomment"}
\* (subfail: a tag registered by the embedding program whose work fails in ANOTHER template - it hands back that render's
\* located error, wrapped; extfail: one that reports through Context.Errorf)
RenderKinds == {"filtererr", "converr", "dateerr", "argerr", "nofilter", "strict", "nofile", "incarg", "ifcond", "forcoll", "casesubj", "assignerr", "whenerr", "captureinner",
                "subfail", "extfail", "typedarg", "optarg1", "optarg2", "optarg3"}
DivZero == [t |-> "filter", e |-> Lit(IntV(1)), name |-> "divided_by", args |-> <<Lit(IntV(0))>>]
Bad(k) ==
  CASE k \in ParseKinds -> [t |-> k]
    [] k = "filtererr" -> Ob([t |-> "filter", e |-> Lit(IntV(1)), name |-> "divided_by", args |-> <<Lit(IntV(0))>>])
    [] k = "converr" -> Ob([t |-> "filter", e |-> Lit(Str(<<113>>)), name |-> "plus", args |-> <<Lit(IntV(1))>>])
    \* other conversions that fail: a text that is no date; a non-numeric argument
    [] k = "dateerr" -> Ob([t |-> "filter", e |-> Lit(Str(<<115, 111, 111, 110>>)), name |-> "date", args |-> <<Lit(Str(<<37, 89>>))>>])
    [] k = "argerr" -> Ob([t |-> "filter", e |-> Lit(IntV(1)), name |-> "plus", args |-> <<Lit(Str(<<113>>))>>])
    \* ... also where the argument is one the filter may be used without (round, truncate, the length of a slice)
    [] k = "optarg1" -> Ob([t |-> "filter", e |-> Lit(Flt(5, 4)), name |-> "round", args |-> <<Lit(Str(<<113>>))>>])
    [] k = "optarg2" -> Ob([t |-> "filter", e |-> Lit(Str(<<97, 98, 99>>)), name |-> "truncate", args |-> <<Lit(Str(<<113>>))>>])
    [] k = "optarg3" -> Ob([t |-> "filter", e |-> Lit(Str(<<97, 98, 99>>)), name |-> "slice", args |-> <<Lit(IntV(1)), Lit(Str(<<113>>))>>])
    [] k = "nofilter" -> Ob([t |-> "filter", e |-> Lit(IntV(1)), name |-> "nosuchfilter", args |-> <<>>])
    [] k = "strict" -> Ob(Var(<<117, 110, 100, 101, 102>>))
    \* (a filter of the embedding program declared with a typed slice parameter, given an element that does not convert)
    [] k = "typedarg" -> Ob([t |-> "filter", e |-> [t |-> "filter", e |-> Lit(Str(<<97, 44, 98>>)), name |-> "split", args |-> <<Lit(Str(<<44>>))>>], name |-> "lqx_sum", args |-> <<>>])
    [] k = "subfail" -> [t |-> "xsub"]
    [] k = "extfail" -> [t |-> "xfail"]
    [] k = "nofile" -> [t |-> "include", e |-> Lit(Str(<<110, 111, 102, 105, 108, 101>>))]
    [] k = "incarg" -> [t |-> "include", e |-> Lit(IntV(5))]
    \* the failing expression belongs to a block tag, an assign, a when clause on the tag's own line
    [] k = "ifcond" -> [t |-> "if", branches |-> <<[c |-> DivZero, body |-> <<T(<<113>>)>>]>>]
    [] k = "forcoll" -> [t |-> "for", tag |-> "for", var |-> <<106>>, coll |-> DivZero, body |-> <<T(<<113>>)>>]
    [] k = "casesubj" -> [t |-> "case", e |-> DivZero, pre |-> <<>>, whens |-> <<[vals |-> <<Lit(IntV(1))>>, body |-> <<T(<<113>>)>>]>>]
    [] k = "assignerr" -> [t |-> "assign", name |-> <<113>>, e |-> DivZero]
    [] k = "whenerr" -> [t |-> "case", e |-> Lit(IntV(1)), pre |-> <<>>, whens |-> <<[vals |-> <<[t |-> "filter", e |-> Lit(IntV(1)), name |-> "nosuchfilter", args |-> <<>>]>>, body |-> <<T(<<113>>)>>]>>]
    [] k = "captureinner" -> [t |-> "capture", name |-> <<113>>, body |-> <<T(<<10>>), Ob(DivZero)>>]
Mention(k) == CASE k = "filtererr" -> "divided_by" [] k = "nofilter" -> "nosuchfilter" [] k = "unknowntag" -> "nosuchtag" [] OTHER -> ""
HasCause(k) == k \in {"filtererr", "converr", "dateerr", "argerr", "ifcond", "forcoll", "casesubj", "assignerr", "captureinner", "subfail", "typedarg",
                      "optarg1", "optarg2", "optarg3"}
\* which error Cause returns: the conversion error where a conversion failed, the filter's error where a filter reported one
CauseKind(k) == CASE k \in {"converr", "dateerr", "argerr", "optarg1", "optarg2", "optarg3"} -> "conv"
                  [] k \in {"filtererr", "ifcond", "forcoll", "casesubj", "assignerr", "captureinner"} -> "filter"
                  [] OTHER -> ""

Wrappers == {"if", "for", "case", "capture", "unless"}
RECURSIVE Shapes(_)
Shapes(n) == IF n = 0 THEN {<<>>} ELSE {<<w>> \o s : w \in Wrappers, s \in Shapes(n - 1)}
Wrap(w, body) ==
  CASE w = "if" -> [t |-> "if", branches |-> <<[c |-> Lit(Bool(TRUE)), body |-> body]>>]
    [] w = "unless" -> [t |-> "if", neg |-> TRUE, branches |-> <<[c |-> Lit(Bool(FALSE)), body |-> body]>>]
    [] w = "for" -> [t |-> "for", tag |-> "for", var |-> <<105>>, coll |-> [t |-> "range", a |-> Lit(IntV(1)), b |-> Lit(IntV(2))], body |-> body]
    [] w = "case" -> [t |-> "case", e |-> Lit(IntV(1)), pre |-> <<>>, whens |-> <<[vals |-> <<Lit(IntV(1))>>, body |-> body]>>]
    [] w = "capture" -> [t |-> "capture", name |-> <<118>>, body |-> body]
RECURSIVE Nest(_, _, _)
Nest(shape, inner, b) ==
  IF shape = <<>> THEN inner
  ELSE <<Wrap(Head(shape), <<T(NLs(b) \o <<121>>)>> \o Nest(Tail(shape), inner, b) \o <<T(<<122>>)>>)>>

\* pad: the failing construct itself spans lines (newlines inside its delimiters), and so does an object before it
\* dup: the very text of the failing construct also stands earlier in the template, on another line, where it is not
\* rendered (a branch not taken): the error is located at the occurrence that failed
Cases == {x \in [k : ParseKinds \cup RenderKinds, shape : UNION {Shapes(n) : n \in 0..D}, a : 0..2, b : 0..1,
                 path : BOOLEAN, line0 : {0, 1, 5}, pad : {0, 2}, dup : {FALSE}]
               \cup [k : {"filtererr", "nofilter", "strict", "converr", "ifcond", "assignerr"}, shape : UNION {Shapes(n) : n \in 0..1}, a : 0..1, b : {0},
                      path : BOOLEAN, line0 : {0, 5}, pad : {0}, dup : {TRUE}] :
            \* an unterminated block swallows the wrappers' end tags: only at depth 0
            /\ (x.k = "openif" => x.shape = <<>>)
            \* `when` directly inside case is not stray
            /\ (x.k = "strayclause" => (x.shape = <<>> \/ x.shape[Len(x.shape)] # "case"))
            \* `endfor` directly inside for closes it (and the wrapper's own end tag becomes the stray one)
            /\ (x.k = "strayend" => (x.shape = <<>> \/ x.shape[Len(x.shape)] # "for"))}

Padded(n, k) == IF k = 0 THEN n ELSE n @@ [padnl |-> k]
Before(x) == IF x.pad = 0 THEN <<>> ELSE <<Padded(Ob(Lit(IntV(7))), 1)>>
Untaken(x) == IF x.dup THEN <<[t |-> "if", branches |-> <<[c |-> Lit(Bool(FALSE)), body |-> <<Bad(x.k)>>]>>], T(<<10>>)>> ELSE <<>>
ProgOf(x) == Untaken(x) \o <<T(<<120>> \o NLs(x.a))>> \o Before(x) \o Nest(x.shape, <<Padded(Bad(x.k), x.pad)>>, x.b) \o <<T(<<10, 101>>)>>
\* the line on which the failing construct begins, by construction
StaticLine(x) == (IF x.dup THEN 1 ELSE 0) + x.line0 + x.a + x.b * Len(x.shape) + (IF x.pad = 0 THEN 0 ELSE 1) + (IF x.k = "captureinner" THEN 1 + x.pad ELSE 0)
PathOf(x) == IF x.path THEN <<100, 47, 116, 46, 108, 105, 113>> ELSE <<>>          \* d/t.liq

Cx(x) == [Cx0 EXCEPT !.strict = (x.k = "strict"), !.path = PathOf(x), !.line0 = x.line0,
                     !.pol = [Intended EXCEPT !.wrap = WrapPolicy]]
Init == \E x \in Cases : c = x /\ st = InitSt(IF x.k \in ParseKinds THEN <<>> ELSE ProgOf(x), EnvOf(<<>>), Sink0, Cx(x))
Next == st.status = "run" /\ st' = Step(Cx(c), st) /\ c' = c

\* a render-time failure ends in the error state with the static line of the failing node
\* (a failing when-clause value: the statement does not say whether the line is the case tag's or the when tag's)
ErrLocated == (c.k \in RenderKinds /\ st.status # "run") => st.status = "error" /\ (st.err.line = StaticLine(c) \/ c.k = "whenerr")
NoOutputAfterError == (c.k \in RenderKinds /\ st.status = "error") => st.sink.calls <= 2 * Len(c.shape) + 2

IdOf(x) == (IF x.dup THEN "dup-" ELSE "") \o x.k \o "-" \o ToString(x.shape) \o "-" \o ToString(x.a) \o ToString(x.b) \o ToString(x.path) \o ToString(x.line0) \o ToString(x.pad)
EmitCase == st.status # "run" =>
  PrintT(ToJson([id |-> IdOf(c), kind |-> "render", tm |-> "TraceC07", prog |-> ProgOf(c), env |-> <<>>,
                 strict |-> (c.k = "strict"), path |-> PathOf(c), line0 |-> c.line0, usedir |-> TRUE, reline |-> TRUE,
                 k |-> c.k, parsebad |-> (c.k \in ParseKinds), mention |-> Mention(c.k), wantcause |-> HasCause(c.k), wantcausekind |-> CauseKind(c.k)]))
=============================================================================
