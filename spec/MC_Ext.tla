------------------------------- MODULE MC_Ext -------------------------------
(***************************************************************************)
(* EXT - the embedding API (beyond the twenty listed properties).          *)
(* An embedding program adds tags, blocks and filters with RegisterTag /    *)
(* RegisterBlock / RegisterFilter; what they can do goes through           *)
(* render.Context: TagName, TagArgs, EvaluateString, Set, Get,             *)
(* ExpandTagArg, Errorf, SourceFile, RenderFile, InnerString.  The harness  *)
(* registers one construct per method (harness/ext.go); LqRender gives     *)
(* each a meaning in terms of the render machine (xargs, xset, xshow,      *)
(* xexpand, xfail, xfile, xblock) and LqFilters one for the filter.        *)
(* Every program of up to N statements over the pool below is run on the   *)
(* machine step by step and compared with its TWIN: the same program       *)
(* written with standard constructs only (an xset is an assign, a block    *)
(* that wraps its body is a capture and three texts, ...).  The            *)
(* implementation renders each program with the constructs registered.     *)
(***************************************************************************)
EXTENDS LqRender, Json, TLC

CONSTANT N
VARIABLES p, st
vars == <<p, st>>

T(s) == [t |-> "text", s |-> s]
Var(n) == [t |-> "var", name |-> n]
Lit(v) == [t |-> "lit", v |-> v]
Ob(e) == [t |-> "obj", e |-> e]
Fl(e, name, args) == [t |-> "filter", e |-> e, name |-> name, args |-> args]
P(e, name) == [t |-> "prop", e |-> e, name |-> name]
TL == [t |-> "trimL"]
TR == [t |-> "trimR"]
X == <<120>>
NN == <<110>>
M == <<109>>
V == <<118>>
Z == <<122>>
Q == <<113>>
I == <<105>>
PP == <<112>>
W1 == <<119, 49>>
W2 == <<119, 50>>
R13 == [t |-> "range", a |-> Lit(IntV(1)), b |-> Lit(IntV(3))]
DivZero == Fl(Lit(IntV(1)), "divided_by", <<Lit(IntV(0))>>)
Asg(n, e) == [t |-> "assign", name |-> n, e |-> e]
XSet(n, e) == [t |-> "xset", name |-> n, e |-> e]
Cap(n, b) == [t |-> "capture", name |-> n, body |-> b]
XB(k, b) == [t |-> "xblock", times |-> k, body |-> b]
For(v, c, b) == [t |-> "for", tag |-> "for", var |-> v, coll |-> c, body |-> b]
If(c, b) == [t |-> "if", branches |-> <<[c |-> c, body |-> b]>>]
Eq(a, b) == [t |-> "cmp", op |-> "==", a |-> a, b |-> b]
Cyc == [t |-> "cycle", vals |-> << <<97>>, <<98>> >>]
Cmp(op, a, b) == [t |-> "cmp", op |-> op, a |-> a, b |-> b]
XWhere(e, v, cnd) == [t |-> "xwhere", e |-> e, var |-> v, c |-> cnd]
AA == <<97>>
Arr12 == Lit(Arr(<<IntV(1), IntV(2)>>))
Paren(n) == <<T(<<40>>), Ob(Var(n)), T(<<41>>)>>

ArgText == <<120, 32, 32, 121, 32, 124, 32, 122>>                   \* x  y | z
FLiq == <<102, 46, 108, 105, 113>>                                  \* f.liq
GLiq == <<103, 46, 108, 105, 113>>                                  \* g.liq (in the cache only)
NoLiq == <<110, 111, 46, 108, 105, 113>>                            \* no.liq (nowhere)
FBody == <<T(<<91>>), Ob(Var(PP)), Ob(Var(X)), Asg(X, Lit(IntV(9))), T(<<93>>)>>
GBody == <<T(<<40>>), Ob(Var(PP)), T(<<41>>)>>
TopPath == <<116, 46, 108, 105, 113>>
ExpBody == <<T(<<97, 32>>), Ob(Var(X)), T(<<32, 98, 32>>), TL, Ob(Var(NN)), TR, T(<<32, 99>>)>>     \* a {{ x }} b {{- n -}} c

\* the pool: <<with the embedding program's constructs, the same with standard constructs only>>
Pool == <<
  (* 1  TagName / TagArgs: verbatim, inner white space kept *)
  << <<[t |-> "xargs", s |-> ArgText]>>, <<T(<<60>> \o XArgsName \o <<124>> \o ArgText \o <<62>>)>> >>,
  (* 2  ... no arguments; hyphens on the tag *)
  << <<T(<<97, 32>>), TL, [t |-> "xargs", s |-> <<>>], TR, T(<<32, 98>>)>>, <<T(<<97>>), T(<<60>> \o XArgsName \o <<124, 62>>), T(<<98>>)>> >>,
  (* 3  EvaluateString + Set: an assign *)
  << <<XSet(V, Fl(Lit(IntV(1)), "plus", <<Lit(IntV(2))>>)), Ob(Var(V))>>, <<Asg(V, Fl(Lit(IntV(1)), "plus", <<Lit(IntV(2))>>)), Ob(Var(V))>> >>,
  (* 4  ... of a looked-up value, over an existing name *)
  << <<XSet(X, P(Var(M), <<121>>)), Ob(Var(X))>>, <<Asg(X, P(Var(M), <<121>>)), Ob(Var(X))>> >>,
  (* 5  ... an expression that fails: the error is the tag's *)
  << <<T(<<10>>), XSet(V, DivZero)>>, <<T(<<10>>), Asg(V, DivZero)>> >>,
  (* 6  Get: a string, a number, an unbound name *)
  << <<[t |-> "xshow", name |-> X], T(<<124>>), [t |-> "xshow", name |-> NN], T(<<124>>), [t |-> "xshow", name |-> Q]>>,
     <<Ob(Var(X)), T(<<124>>), Ob(Var(NN)), T(<<124>>), Ob(Fl(Var(Q), "default", <<Lit(Str(<<60, 110, 105, 108, 62>>))>>))>> >>,
  (* 7  ExpandTagArg: objects (with hyphens) inside the arguments *)
  << <<T(<<91>>), [t |-> "xexpand", body |-> ExpBody], T(<<93>>)>>, <<T(<<91>>)>> \o ExpBody \o <<T(<<93>>)>> >>,
  (* 8  ... nothing to expand *)
  << <<[t |-> "xexpand", body |-> <<T(<<112, 108, 97, 105, 110, 32, 116>>)>>]>>, <<T(<<112, 108, 97, 105, 110, 32, 116>>)>> >>,
  (* 9  ... an object that fails: the error is located at the tag *)
  << <<T(<<10, 10>>), [t |-> "xexpand", body |-> <<Ob(Var(X)), Ob(DivZero)>>]>>, <<T(<<10, 10>>), Ob(Var(X)), Ob(DivZero)>> >>,
  (* 10 Errorf *)
  << <<T(<<111, 10>>), [t |-> "xfail"]>>, <<T(<<111, 10>>), Ob(DivZero)>> >>,
  (* 11 SourceFile + RenderFile: current bindings plus p; the file's assignments stay with it *)
  << <<[t |-> "xfile", rel |-> FLiq], Ob(Var(X)), Ob(Var(PP))>>,
     <<T(<<91, 55>>), Ob(Var(X)), T(<<93>>), Ob(Var(X))>> >>,
  (* 12 ... from the engine's cache *)
  << <<[t |-> "xfile", rel |-> GLiq]>>, <<T(<<40, 55, 41>>)>> >>,
  (* 13 ... a file that is nowhere *)
  << <<T(<<10>>), [t |-> "xfile", rel |-> NoLiq]>>, <<T(<<10>>), [t |-> "include", e |-> Lit(Str(NoLiq))]>> >>,
  (* 14 InnerString once: what the body assigns stays; its hyphens work *)
  << <<XB(1, <<T(<<32, 97, 32>>), Ob(Lit(IntV(1))), T(<<32>>), TL, Asg(Z, Lit(IntV(3))), T(<<32>>)>>), Ob(Var(Z))>>,
     <<Cap(W1, <<T(<<32, 97, 32>>), Ob(Lit(IntV(1))), T(<<32>>), TL, Asg(Z, Lit(IntV(3))), T(<<32>>)>>)>> \o Paren(W1) \o <<Ob(Var(Z))>> >>,
  (* 15 InnerString twice, inside a loop: the body's effects happen twice (cycle advances) *)
  << <<For(I, R13, <<XB(2, <<Cyc, Ob(Var(I))>>)>>)>>,
     <<For(I, R13, <<Cap(W1, <<Cyc, Ob(Var(I))>>), Cap(W2, <<Cyc, Ob(Var(I))>>), T(<<40>>), Ob(Var(W1)), T(<<124>>), Ob(Var(W2)), T(<<41>>)>>)>> >>,
  (* 16 InnerString never: the body is not evaluated *)
  << <<XB(0, <<Ob(DivZero), Asg(Q, Lit(IntV(1)))>>), T(<<91>>), Ob(Var(Q)), T(<<93>>)>>, <<T(<<91>>), Ob(Var(Q)), T(<<93>>)>> >>,
  (* 17 break inside the block inside a loop: what the block had rendered in that iteration is dropped *)
  << <<For(I, R13, <<XB(1, <<Ob(Var(I)), If(Eq(Var(I), Lit(IntV(2))), <<[t |-> "break"]>>), T(<<120>>)>>)>>)>>,
     <<For(I, R13, <<Cap(W1, <<Ob(Var(I)), If(Eq(Var(I), Lit(IntV(2))), <<[t |-> "break"]>>), T(<<120>>)>>)>> \o Paren(W1))>> >>,
  (* 18 hyphens on the block's own tags *)
  << <<T(<<120, 32>>), TL, XB(1, <<TR, T(<<32, 97, 32>>), TL>>), TR, T(<<32, 121>>)>>, <<T(<<120>>), T(<<40, 97, 41>>), T(<<121>>)>> >>,
  (* 19 the filter: converted arguments *)
  << <<Ob(Fl(Lit(Str(<<97, 98>>)), "lqx_rep", <<Lit(IntV(2))>>)), T(<<124>>), Ob(Fl(Lit(Str(<<97, 98>>)), "lqx_rep", <<Lit(IntV(0))>>))>>, <<T(<<97, 98, 97, 98, 124>>)>> >>,
  (* 20 ... an argument that cannot be converted *)
  << <<T(<<10>>), Ob(Fl(Lit(Str(<<97, 98>>)), "lqx_rep", <<Lit(Str(<<113>>))>>))>>, <<T(<<10>>), Ob(DivZero)>> >>,
  (* 21 blocks in blocks *)
  << <<XB(2, <<XB(1, <<T(<<105>>)>>)>>)>>, <<T(<<40, 40, 105, 41, 124, 40, 105, 41, 41>>)>> >>,
  (* 22 an error inside the block, further down: located at the object *)
  << <<XB(1, <<T(<<10>>), Ob(DivZero)>>)>>, <<Cap(W1, <<T(<<10>>), Ob(DivZero)>>)>> >>,
  (* 23 a capture around a block *)
  << <<Cap(V, <<XB(1, <<Ob(Var(X))>>)>>), T(<<61>>), Ob(Var(V))>>, <<Cap(V, <<T(<<40>>), Ob(Var(X)), T(<<41>>)>>), T(<<61>>), Ob(Var(V))>> >>,
  (* 25 a filter with a Closure parameter: the condition is evaluated per element, with the element bound on top of the
        current bindings (n is the includer's), and the name does not stay bound *)
  << <<Asg(W2, XWhere(Var(AA), X, Cmp("<", Var(X), Var(NN)))), For(I, Var(W2), <<Ob(Var(I)), T(<<44>>)>>)>>,
     <<Cap(W1, <<For(I, Var(AA), <<If(Cmp("<", Var(I), Var(NN)), <<Ob(Var(I)), T(<<44>>)>>)>>)>>), Ob(Var(W1))>> >>,
  (* 26 ... in a pipeline, the condition a property test *)
  << <<Ob(Fl(Fl(XWhere(Var(AA), Z, Cmp(">", Var(Z), Lit(IntV(1)))), "reverse", <<>>), "join", <<Lit(Str(<<43>>))>>))>>, <<T(<<51, 43, 50>>)>> >>,
  (* 27 ... a condition that fails: the error is the object's *)
  << <<T(<<10>>), Ob(XWhere(Var(AA), Z, DivZero))>>, <<T(<<10>>), Ob(DivZero)>> >>,
  (* 28 a tag that hands back, wrapped, a located error of another template's render: located here *)
  << <<T(<<10, 10>>), If(Lit(Bool(TRUE)), <<T(<<10>>), [t |-> "xsub"]>>)>>, <<T(<<10, 10>>), If(Lit(Bool(TRUE)), <<T(<<10>>), Ob(DivZero)>>)>> >>,
  (* 29 ExpandTagArg when the arguments are one object and nothing else, hyphens inside it *)
  << <<T(<<112, 32, 32>>), [t |-> "xexpand", body |-> <<TL, Ob(Var(X)), TR>>], T(<<32, 32, 113>>), [t |-> "xexpand", body |-> <<Ob(Lit(IntV(5))), TR>>]>>,
     <<T(<<112, 32, 32>>), Ob(Var(X)), T(<<32, 32, 113>>), Ob(Lit(IntV(5)))>> >>,
  (* 30 a tag that reads the loop state through the context (the body says "forloop" nowhere): for, tablerow, nested, outside *)
  << <<For(I, R13, <<[t |-> "xloopidx"], T(<<32>>)>>), [t |-> "xloopidx"],
       For(I, R13, <<[t |-> "for", tag |-> "tablerow", var |-> Z, coll |-> Var(AA), cols |-> Lit(IntV(2)), body |-> <<[t |-> "xloopidx"]>>]>>)>>,
     <<For(I, R13, <<Ob(P(Var(B_forloop), B_index)), T(<<47>>), Ob(P(Var(B_forloop), B_length)), T(<<32>>)>>), T(<<45>>),
       For(I, R13, <<[t |-> "for", tag |-> "tablerow", var |-> Z, coll |-> Var(AA), cols |-> Lit(IntV(2)),
                      body |-> <<Ob(P(Var(B_forloop), B_index)), T(<<47>>), Ob(P(Var(B_forloop), B_length))>>]>>)>> >>,
  (* 31 a filter declared with a typed slice parameter: converted element by element; an element that does not convert
        is the object's error *)
  << <<Ob(Fl(Var(AA), "lqx_sum", <<>>)), T(<<10>>), Ob(Fl(Fl(Lit(Str(<<97, 44, 98>>)), "split", <<Lit(Str(<<44>>))>>), "lqx_sum", <<>>))>>,
     <<T(<<54, 10>>), Ob(DivZero)>> >>,
  (* 24 the probe: what the statements before left behind *)
  << <<T(<<59>>), Ob(Var(X)), T(<<44>>), Ob(Var(V)), T(<<44>>), Ob(Var(Z)), T(<<44>>), Ob(Var(PP)), T(<<59>>)>>,
     <<T(<<59>>), Ob(Var(X)), T(<<44>>), Ob(Var(V)), T(<<44>>), Ob(Var(Z)), T(<<44>>), Ob(Var(PP)), T(<<59>>)>> >>
>>
NS == Len(Pool)

RECURSIVE SeqsOfLen(_, _)
SeqsOfLen(n, m) == IF n = 0 THEN {<<>>} ELSE {<<i>> \o t : i \in 1..m, t \in SeqsOfLen(n - 1, m)}
Programs == UNION {SeqsOfLen(n, NS) : n \in 1..N}
\* (a separator between statements: the twins differ in how many writes a statement makes, and a hyphen at the
\* end of one statement must meet the same text in both)
Sep == T(<<126>>)
ProgOf(ix) == Flatten([i \in 1..Len(ix) |-> Pool[ix[i]][1] \o <<Sep>>]) \o Pool[NS][1]
TwinOf(ix) == Flatten([i \in 1..Len(ix) |-> Pool[ix[i]][2] \o <<Sep>>]) \o Pool[NS][2]

Env == << <<AA, Arr(<<IntV(1), IntV(2), IntV(3)>>)>>, <<X, Str(<<104, 105>>)>>, <<NN, IntV(3)>>, <<M, MapV(<< <<<<121>>, IntV(5)>> >>)>> >>
Cx == [Cx0 EXCEPT !.path = TopPath, !.fs = << <<FLiq, FBody>> >>, !.cache = << <<GLiq, GBody>> >>]

Init == \E ix \in Programs : p = ix /\ st = InitSt(ProgOf(ix), EnvOf(Env), Sink0, Cx)
Next == st.status = "run" /\ st' = Step(Cx, st) /\ p' = p

Twin == Render(Cx, TwinOf(p), EnvOf(Env))
\* the machine decides every program of the pool
Decided == st.status \in {"run", "ok", "error"}
\* a program and its twin: the same output, or an error on the same line
TwinLaw == st.status # "run" =>
             /\ st.status = Twin.status
             /\ (st.status = "ok" => st.sink.acc = Twin.out)
             /\ (st.status = "error" => st.err.line = Twin.err.line)
\* what a block renders reaches the output only through the block: nothing is written while one is open
InBlock(s) == \E j \in 1..Len(s.k) : s.k[j].f = "seq" /\ s.k[j].end \in {"xblock", "xexpand"}
BlockSilent == [][(InBlock(st) /\ InBlock(st')) => st'.sink = st.sink]_vars
Terminates == st.steps < 400

IdOf(ix) == "x" \o ToString(ix)
Files == << <<FLiq, FBody>> >>
Cache == << <<GLiq, GBody>> >>
EmitCase == st.status # "run" =>
  /\ PrintT(ToJson([id |-> IdOf(p), kind |-> "render", prog |-> ProgOf(p), env |-> Env, path |-> TopPath, usedir |-> TRUE,
                    files |-> Files, cache |-> Cache, line0 |-> 1, chkline |-> TRUE]))
  \* the twin as well: the implementation must agree with itself
  /\ PrintT(ToJson([id |-> "t" \o IdOf(p), kind |-> "render", prog |-> TwinOf(p), env |-> Env, path |-> TopPath, usedir |-> TRUE,
                    files |-> Files, cache |-> Cache, line0 |-> 0]))
  \* and under another spelling of the delimiters (C19 says nothing changes)
  /\ PrintT(ToJson([id |-> "d" \o IdOf(p), kind |-> "render", prog |-> ProgOf(p), env |-> Env, path |-> TopPath, usedir |-> TRUE,
                    files |-> Files, cache |-> Cache, line0 |-> 0, spell |-> [delims |-> << <<60, 60>>, <<62, 62>>, <<60, 63>>, <<63, 62>> >>]]))
=============================================================================
