------------------------------- MODULE LqScan -------------------------------
(***************************************************************************)
(* The tokenizer (C05, C19, and the front end of C06/C07/C13).             *)
(*                                                                         *)
(* A source is cut into text, object and tag tokens; a hyphen just inside  *)
(* a delimiter yields a zero-width trim token before / after the token.    *)
(* The scanner is parameterised by the four delimiter strings              *)
(*      d = <<objectLeft, objectRight, tagLeft, tagRight>>.                *)
(*                                                                         *)
(* The reference scanner is deliberately simple: at the leftmost opening   *)
(* delimiter, an object runs to the first objectRight that leaves at least *)
(* one character inside; a tag needs a name (a word) and runs to the first *)
(* tagRight after it; an opener that does not start a token is text.  It   *)
(* is verdict-bearing only on the well-formed fragment (WellFormed), where *)
(* every reasonable tokenizer agrees; on arbitrary input only the laws     *)
(* that C05 states for every input are demanded of the implementation's    *)
(* own token list: Partition, LineLaw, Identity.                           *)
(***************************************************************************)
EXTENDS LqText

DefaultDelims == << <<123, 123>>, <<125, 125>>, <<123, 37>>, <<37, 125>> >>
\* an empty string selects the corresponding default (C19)
EffDelims(d) == [i \in 1..4 |-> IF d[i] = <<>> THEN DefaultDelims[i] ELSE d[i]]

StartsAt(s, i, p) == i + Len(p) - 1 <= Len(s) /\ SubSeq(s, i, i + Len(p) - 1) = p
IsWordB(b) == (b >= 48 /\ b <= 57) \/ (b >= 65 /\ b <= 90) \/ (b >= 97 /\ b <= 122) \/ b = 95
\* regexp \s
IsReSpace(b) == b \in {9, 10, 12, 13, 32}

RECURSIVE SkipSpaces(_, _)
SkipSpaces(s, i) == IF i <= Len(s) /\ IsReSpace(s[i]) THEN SkipSpaces(s, i + 1) ELSE i
RECURSIVE SkipWord(_, _)
SkipWord(s, i) == IF i <= Len(s) /\ IsWordB(s[i]) THEN SkipWord(s, i + 1) ELSE i

\* the token starting at q, if any: [ty, last] with last the index of its last byte; ty = "none" otherwise
TokenAt(s, q, d) ==
  IF StartsAt(s, q, d[1]) THEN
    LET e == FindFrom(s, d[2], q + Len(d[1]) + 1) IN
      IF e # 0 THEN [ty |-> "obj", last |-> e + Len(d[2]) - 1] ELSE [ty |-> "none", last |-> 0]
  ELSE IF StartsAt(s, q, d[3]) THEN
    LET i0 == q + Len(d[3])
        i1 == IF i0 <= Len(s) /\ s[i0] = 45 THEN i0 + 1 ELSE i0
        i2 == SkipSpaces(s, i1)
        j == SkipWord(s, i2)                 \* one past the name
        e == FindFrom(s, d[4], j)
        between == IF e = 0 THEN <<>> ELSE SubSeq(s, j, e - 1)
        okBetween == between = <<>> \/ between = <<45>> \/ IsReSpace(between[1])
    IN  IF j > i2 /\ e # 0 /\ okBetween THEN [ty |-> "tag", last |-> e + Len(d[4]) - 1] ELSE [ty |-> "none", last |-> 0]
  ELSE [ty |-> "none", last |-> 0]

\* first position >= q where a token starts (0: none)
NextStart(s, q, d) ==
  LET c == {i \in q..Len(s) : (s[i] = d[1][1] \/ s[i] = d[3][1]) /\ TokenAt(s, i, d).ty # "none"}
  IN  IF c = {} THEN 0 ELSE MinOf(c)

\* hyphen flags: the byte right after the left delimiter / right before the right one
TrimLeftOf(src, ty, d) == LET n == Len(IF ty = "obj" THEN d[1] ELSE d[3]) IN Len(src) > n /\ src[n + 1] = 45
TrimRightOf(src, ty, d) == LET n == Len(IF ty = "obj" THEN d[2] ELSE d[4]) IN Len(src) > n /\ src[Len(src) - n] = 45

\* One scanner step from position p at line `line`: the tokens emitted and
\* the new position/line.  (A text token, or an object/tag token.)
ScanStep(s, p, line, d) ==
  LET q == NextStart(s, p, d) IN
    IF q = 0 THEN [toks |-> <<[ty |-> "text", src |-> SubSeq(s, p, Len(s)), line |-> line]>>, p |-> Len(s) + 1,
                   line |-> line + Newlines(SubSeq(s, p, Len(s)))]
    ELSE IF q > p THEN [toks |-> <<[ty |-> "text", src |-> SubSeq(s, p, q - 1), line |-> line]>>, p |-> q,
                        line |-> line + Newlines(SubSeq(s, p, q - 1))]
    ELSE LET t == TokenAt(s, q, d)
             src == SubSeq(s, q, t.last)
         IN  [toks |-> <<[ty |-> t.ty, src |-> src, line |-> line, tl |-> TrimLeftOf(src, t.ty, d), tr |-> TrimRightOf(src, t.ty, d)]>>,
              p |-> t.last + 1, line |-> line + Newlines(src)]

RECURSIVE ScanFrom(_, _, _, _)
ScanFrom(s, p, line, d) ==
  IF p > Len(s) THEN <<>>
  ELSE LET st == ScanStep(s, p, line, d) IN st.toks \o ScanFrom(s, st.p, st.line, d)
Tokens(s, line0, d) == ScanFrom(s, 1, line0, EffDelims(d))

\* ------------------------------------------------------------------ laws
Partition(toks, s) == Flatten([i \in 1..Len(toks) |-> toks[i].src]) = s
LineLaw(toks, line0) ==
  \A i \in 1..Len(toks) : toks[i].line = line0 + Newlines(Flatten([j \in 1..(i - 1) |-> toks[j].src]))
HasOpener(s, d) == HasSub(s, EffDelims(d)[1]) \/ HasSub(s, EffDelims(d)[3])
Identity(toks, s, d) == (~HasOpener(s, d) /\ s # <<>>) => (Len(toks) = 1 /\ toks[1].ty = "text" /\ toks[1].src = s)

\* ---------------------------------------------------- well-formed fragment
DelimBytes(d) == UNION {{d[i][k] : k \in 1..Len(d[i])} : i \in 1..4}
NoDelimBytes(x, d) == \A k \in 1..Len(x) : x[k] \notin DelimBytes(d)
Inner(tok, d) == LET l == Len(IF tok.ty = "obj" THEN d[1] ELSE d[3])
                     r == Len(IF tok.ty = "obj" THEN d[2] ELSE d[4])
                 IN  SubSeq(tok.src, l + 1, Len(tok.src) - r)
StripHy(x) == LET a == IF x # <<>> /\ x[1] = 45 THEN Tail(x) ELSE x
                  b == IF a # <<>> /\ a[Len(a)] = 45 THEN SubSeq(a, 1, Len(a) - 1) ELSE a
              IN  Strip(b)
WellFormedTok(tok, d) ==
  CASE tok.ty = "text" -> NoDelimBytes(tok.src, d)
    [] tok.ty = "obj" -> LET x == Inner(tok, d) IN NoDelimBytes(x, d) /\ StripHy(x) # <<>> /\ 45 \notin DelimBytes(d)
    [] tok.ty = "tag" -> LET x == Inner(tok, d) IN NoDelimBytes(x, d) /\ 45 \notin DelimBytes(d)
WellFormed(s, d) == LET dd == EffDelims(d) toks == ScanFrom(s, 1, 0, dd) IN \A i \in 1..Len(toks) : WellFormedTok(toks[i], dd)
=============================================================================
