------------------------------- MODULE LqParse -------------------------------
(***************************************************************************)
(* The block parser (C06) as a pushdown machine over token classes.        *)
(*                                                                         *)
(* Token classes: the eight block tags, their end tags, the clause tags    *)
(* else / elsif / when, and the leaves "tag" (any non-block tag), "obj"    *)
(* and "text".  The grammar table is the one declared for the standard     *)
(* tags: which clauses a block admits.                                     *)
(*                                                                         *)
(* State: stack of open blocks (each with its finished clauses and the     *)
(* clause under construction), mode (normal / comment / raw), status.      *)
(* One action per token: Leaf, Push, Clause, Pop, EnterComment, EnterRaw,  *)
(* InComment, InRaw, Reject; Finish at the end of input.                   *)
(*                                                                         *)
(* The tree of an accepted template: a sequence of nodes                   *)
(*   [t |-> "text"|"obj"|"tag", i |-> position of the token]               *)
(*   [t |-> "raw"]                                                         *)
(*   [t |-> "block", name, body, clauses |-> Seq([name, body])]            *)
(***************************************************************************)
EXTENDS Integers, Sequences, FiniteSets

\* (lqx_wrap: a block registered by the embedding program - Engine.RegisterBlock - which admits no clauses)
XBlocks == {"lqx_wrap"}
XEnds == {"endlqx_wrap"}
Blocks == {"if", "unless", "case", "for", "tablerow", "capture", "comment", "raw"} \cup XBlocks
Ends == {"endif", "endunless", "endcase", "endfor", "endtablerow", "endcapture", "endcomment", "endraw"} \cup XEnds
Clauses == {"else", "elsif", "when"}
Leaves == {"tag", "obj", "text"}
Classes == Blocks \cup Ends \cup Clauses \cup Leaves

EndOf(b) == CASE b = "if" -> "endif" [] b = "unless" -> "endunless" [] b = "case" -> "endcase" [] b = "for" -> "endfor"
              [] b = "tablerow" -> "endtablerow" [] b = "capture" -> "endcapture" [] b = "comment" -> "endcomment" [] b = "raw" -> "endraw" [] b = "lqx_wrap" -> "endlqx_wrap"
\* which clause tags a block admits directly inside it
Admits(b, c) == CASE c = "else" -> b \in {"case", "for", "if", "unless"}
                  [] c = "elsif" -> b = "if"
                  [] c = "when" -> b = "case"

\* a frame: the open block, the nodes of the part being filled, the finished parts
\* parts[1] is the body before the first clause; parts[k] = [name, body] of clause k-1
Frame(name) == [name |-> name, cur |-> <<>>, curName |-> "", parts |-> <<>>]

Init0 == [stack |-> <<>>, root |-> <<>>, mode |-> "normal", status |-> "run", open |-> 0, unspec |-> FALSE]

Append2(st, node) ==
  IF st.stack = <<>> THEN [st EXCEPT !.root = Append(@, node)]
  ELSE [st EXCEPT !.stack[Len(st.stack)].cur = Append(@, node)]

\* close the part under construction of the top frame
ClosePart(f) == [f EXCEPT !.parts = Append(@, [name |-> f.curName, body |-> f.cur]), !.cur = <<>>]

BlockNode(f) ==
  LET g == ClosePart(f) IN
    [t |-> "block", name |-> g.name, body |-> g.parts[1].body,
     clauses |-> [k \in 1..(Len(g.parts) - 1) |-> g.parts[k + 1]]]

\* clause orders the statement does not decide: anything after an else
\* (a second else, elsif or when after else)
ClauseAfterElse(f) == f.curName = "else" \/ \E k \in 1..Len(f.parts) : f.parts[k].name = "else"

\* one token; i is its position in the input
Step(st, tok, i) ==
  IF st.status # "run" THEN st
  ELSE IF st.mode = "comment" THEN (IF tok = "endcomment" THEN [st EXCEPT !.mode = "normal"] ELSE st)
  ELSE IF st.mode = "raw" THEN (IF tok = "endraw" THEN [st EXCEPT !.mode = "normal"] ELSE st)
  ELSE IF tok \in Leaves THEN Append2(st, [t |-> tok, i |-> i])
  ELSE IF tok = "comment" THEN [st EXCEPT !.mode = "comment"]
  ELSE IF tok = "raw" THEN [Append2(st, [t |-> "raw"]) EXCEPT !.mode = "raw"]
  ELSE IF tok \in Blocks THEN [st EXCEPT !.stack = Append(@, Frame(tok))]
  ELSE IF tok \in Clauses THEN
    (IF st.stack # <<>> /\ Admits(st.stack[Len(st.stack)].name, tok)
     THEN LET f == st.stack[Len(st.stack)] IN
            [st EXCEPT !.stack[Len(st.stack)] = [ClosePart(f) EXCEPT !.curName = tok],
                       !.unspec = @ \/ ClauseAfterElse(f)]
     ELSE [st EXCEPT !.status = "rejected"])
  ELSE \* an end tag
    (IF st.stack # <<>> /\ EndOf(st.stack[Len(st.stack)].name) = tok
     THEN LET f == st.stack[Len(st.stack)]
              popped == [st EXCEPT !.stack = SubSeq(@, 1, Len(@) - 1)]
          IN  Append2(popped, BlockNode(f))
     ELSE [st EXCEPT !.status = "rejected"])

\* end of input: every block closed, and not inside comment or raw
Finish(st) ==
  IF st.status # "run" THEN st
  ELSE IF st.stack = <<>> /\ st.mode = "normal" THEN [st EXCEPT !.status = "ok"]
  ELSE [st EXCEPT !.status = "rejected"]

RECURSIVE Run(_, _, _)
Run(st, toks, i) == IF i > Len(toks) THEN Finish(st) ELSE Run(Step(st, toks[i], i), toks, i + 1)
Parse(toks) == Run(Init0, toks, 1)


RECURSIVE NatDigitsP(_)
NatDigitsP(n) == IF n < 10 THEN <<48 + n>> ELSE NatDigitsP(n \div 10) \o <<48 + (n % 10)>>
\* the spelling the harness uses for each token class (text token i is spelled t<i>;)
SpellOf(c, i) ==
  IF c = "text" THEN <<116>> \o NatDigitsP(i) \o <<59>>
  ELSE IF c = "if" THEN <<123, 37, 32, 105, 102, 32, 99, 32, 37, 125>>
  ELSE IF c = "unless" THEN <<123, 37, 32, 117, 110, 108, 101, 115, 115, 32, 99, 32, 37, 125>>
  ELSE IF c = "case" THEN <<123, 37, 32, 99, 97, 115, 101, 32, 99, 32, 37, 125>>
  ELSE IF c = "for" THEN <<123, 37, 32, 102, 111, 114, 32, 105, 32, 105, 110, 32, 97, 32, 37, 125>>
  ELSE IF c = "tablerow" THEN <<123, 37, 32, 116, 97, 98, 108, 101, 114, 111, 119, 32, 105, 32, 105, 110, 32, 97, 32, 37, 125>>
  ELSE IF c = "capture" THEN <<123, 37, 32, 99, 97, 112, 116, 117, 114, 101, 32, 118, 32, 37, 125>>
  ELSE IF c = "comment" THEN <<123, 37, 32, 99, 111, 109, 109, 101, 110, 116, 32, 37, 125>>
  ELSE IF c = "raw" THEN <<123, 37, 32, 114, 97, 119, 32, 37, 125>>
  ELSE IF c = "else" THEN <<123, 37, 32, 101, 108, 115, 101, 32, 37, 125>>
  ELSE IF c = "elsif" THEN <<123, 37, 32, 101, 108, 115, 105, 102, 32, 99, 32, 37, 125>>
  ELSE IF c = "when" THEN <<123, 37, 32, 119, 104, 101, 110, 32, 49, 32, 37, 125>>
  ELSE IF c = "tag" THEN <<123, 37, 32, 97, 115, 115, 105, 103, 110, 32, 122, 32, 61, 32, 49, 32, 37, 125>>
  ELSE IF c = "obj" THEN <<123, 123, 32, 99, 32, 125, 125>>
  \* (an object that is no valid expression: inside a comment or a raw block it is just text)
  ELSE IF c = "badobj" THEN <<123, 123, 32, 112, 32, 42, 32, 50, 32, 125, 125>>
  ELSE IF c = "endif" THEN <<123, 37, 32, 101, 110, 100, 105, 102, 32, 37, 125>>
  ELSE IF c = "endunless" THEN <<123, 37, 32, 101, 110, 100, 117, 110, 108, 101, 115, 115, 32, 37, 125>>
  ELSE IF c = "endcase" THEN <<123, 37, 32, 101, 110, 100, 99, 97, 115, 101, 32, 37, 125>>
  ELSE IF c = "endfor" THEN <<123, 37, 32, 101, 110, 100, 102, 111, 114, 32, 37, 125>>
  ELSE IF c = "endtablerow" THEN <<123, 37, 32, 101, 110, 100, 116, 97, 98, 108, 101, 114, 111, 119, 32, 37, 125>>
  ELSE IF c = "endcapture" THEN <<123, 37, 32, 101, 110, 100, 99, 97, 112, 116, 117, 114, 101, 32, 37, 125>>
  ELSE IF c = "endcomment" THEN <<123, 37, 32, 101, 110, 100, 99, 111, 109, 109, 101, 110, 116, 32, 37, 125>>
  ELSE IF c = "endraw" THEN <<123, 37, 32, 101, 110, 100, 114, 97, 119, 32, 37, 125>>
  ELSE <<>>

\* the bodies of the raw blocks of a sequence, in document order: the spellings of the tokens between each
\* raw tag (met outside comment and raw) and the first endraw after it
RECURSIVE RawBodies(_, _, _, _)
RawBodies(toks, i, mode, cur) ==
  IF i > Len(toks) THEN <<>>
  ELSE IF mode = "comment" THEN RawBodies(toks, i + 1, IF toks[i] = "endcomment" THEN "normal" ELSE "comment", cur)
  ELSE IF mode = "raw" THEN
    (IF toks[i] = "endraw" THEN <<cur>> \o RawBodies(toks, i + 1, "normal", <<>>)
     ELSE RawBodies(toks, i + 1, "raw", cur \o SpellOf(toks[i], i)))
  ELSE IF toks[i] = "comment" THEN RawBodies(toks, i + 1, "comment", cur)
  ELSE IF toks[i] = "raw" THEN RawBodies(toks, i + 1, "raw", <<>>)
  ELSE RawBodies(toks, i + 1, "normal", cur)

\* ------------------------------------------------- declarative recogniser
\* An independent formulation of the accepted language, by recursive
\* descent on the grammar
\*    Seq   ::= ( leaf | Block )*
\*    Block ::= comment any* endcomment | raw any* endraw
\*            | open(b) Seq ( clause(c) Seq )* end(b)     with Admits(b, c)
\* SeqEnd(toks, i, b) is the index just after the longest Seq starting at i
\* inside block b ("" at top level), or 0 if a token there can never be
\* part of an accepted template.
RECURSIVE SeqEnd(_, _, _)
RECURSIVE BlockEnd(_, _)
FirstIdx(toks, i, name) ==
  LET c == {k \in i..Len(toks) : toks[k] = name} IN IF c = {} THEN 0 ELSE CHOOSE k \in c : \A m \in c : k <= m
BlockEnd(toks, i) ==      \* toks[i] is a block tag; index after its end tag, 0 if it has none
  LET b == toks[i] IN
    IF b \in {"comment", "raw"} THEN (LET e == FirstIdx(toks, i + 1, EndOf(b)) IN IF e = 0 THEN 0 ELSE e + 1)
    ELSE LET j == SeqEnd(toks, i + 1, b) IN
           IF j = 0 \/ j > Len(toks) THEN 0
           ELSE IF toks[j] = EndOf(b) THEN j + 1 ELSE 0
SeqEnd(toks, i, b) ==
  IF i > Len(toks) THEN i
  ELSE LET t == toks[i] IN
    IF t \in Leaves THEN SeqEnd(toks, i + 1, b)
    ELSE IF t \in Blocks THEN (LET e == BlockEnd(toks, i) IN IF e = 0 THEN 0 ELSE SeqEnd(toks, e, b))
    ELSE IF t \in Clauses THEN (IF b # "" /\ Admits(b, t) THEN SeqEnd(toks, i + 1, b) ELSE 0)
    ELSE \* an end tag: it ends this sequence if it is the enclosing block's own
         IF b # "" /\ t = EndOf(b) THEN i ELSE 0
Accepted(toks) == SeqEnd(toks, 1, "") = Len(toks) + 1
=============================================================================
