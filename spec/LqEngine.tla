------------------------------- MODULE LqEngine -------------------------------
(***************************************************************************)
(* The engine level (C02, C03, C04): one configured engine, a pool of      *)
(* parsed templates, the caller's binding environments (the "heap": they   *)
(* belong to the caller and are shared by reference with every render),    *)
(* G goroutines each running at most one render at a time, and the history *)
(* of finished renders.                                                    *)
(*                                                                         *)
(*   Start(g, t, b)  goroutine g starts rendering template t with bindings *)
(*                   b: the render gets its own variable map, a copy of    *)
(*                   the caller's top-level map (newNodeContext)           *)
(*   StepR(g)        one step of g's render machine                        *)
(*   Finish(g)       g's render has ended: its result enters the history   *)
(*                                                                         *)
(* Environment choices: the order in which Go iterates a map (Perm, chosen *)
(* afresh for every render).  Policies select between the intended design  *)
(* and plausible defects, so that every invariant can be shown to have     *)
(* teeth:                                                                  *)
(*   copyEnv   FALSE: the render writes assign/capture/loop variables into *)
(*             the caller's map (no copy)                                  *)
(*   sortKeys  FALSE: map iteration follows Go's random order              *)
(*   cells     the shared mutable cells a render step writes (extracted    *)
(*             from the code: closure variables and package variables      *)
(*             written at render time); a cycle tag writes "cycle.err"     *)
(*             when that cell is listed                                    *)
(***************************************************************************)
EXTENDS LqRender

CONSTANTS G, Templates, Envs, Pol, Budget, Cache

VARIABLES heap, run, hist, left
evars == <<heap, run, hist, left>>

Gor == 1..G
Idle == [busy |-> FALSE]

Perms(n) == {p \in [1..n -> 1..n] : \A i, j \in 1..n : p[i] = p[j] => i = j}
\* the largest map any template may iterate has 3 entries in the bounded models
PermChoices == IF Pol.sortKeys THEN {<<1, 2, 3>>} ELSE Perms(3)

CxFor(perm) == [Cx0 EXCEPT !.perm = perm, !.cache = Cache]

EInit == /\ heap = [b \in 1..Len(Envs) |-> EnvOf(Envs[b])]
         /\ run = [g \in Gor |-> Idle]
         /\ hist = <<>>
         /\ left = Budget

IsRender(g) == run[g].busy /\ "caching" \notin DOMAIN run[g]

Start(g, t, b) ==
  /\ ~run[g].busy /\ left > 0
  /\ \E perm \in PermChoices :
       run' = [run EXCEPT ![g] = [busy |-> TRUE, t |-> t, b |-> b, perm |-> perm,
                                  st |-> InitSt(Templates[t], heap[b], Sink0, CxFor(perm))]]
  /\ left' = left - 1
  /\ UNCHANGED <<heap, hist>>

StepR(g) ==
  /\ IsRender(g) /\ run[g].st.status = "run"
  /\ LET s2 == Step(CxFor(run[g].perm), run[g].st) IN
       /\ run' = [run EXCEPT ![g].st = s2]
       \* without the copy, the render's variable map IS the caller's map
       /\ heap' = IF Pol.copyEnv THEN heap ELSE [heap EXCEPT ![run[g].b] = s2.env]
  /\ UNCHANGED <<hist, left>>

Finish(g) ==
  /\ IsRender(g) /\ run[g].st.status # "run"
  /\ hist' = Append(hist, [g |-> g, t |-> run[g].t, b |-> run[g].b, status |-> run[g].st.status, out |-> run[g].st.sink.acc])
  /\ run' = [run EXCEPT ![g] = Idle]
  /\ UNCHANGED <<heap, left>>

\* ParseTemplateAndCache by goroutine g: two steps (begin, end), between which it is writing the engine's cache
BeginCache(g) == /\ ~run[g].busy /\ left > 0
                 /\ run' = [run EXCEPT ![g] = [busy |-> TRUE, caching |-> TRUE]]
                 /\ left' = left - 1 /\ UNCHANGED <<heap, hist>>
EndCache(g) == /\ run[g].busy /\ "caching" \in DOMAIN run[g]
               /\ run' = [run EXCEPT ![g] = Idle] /\ UNCHANGED <<heap, hist, left>>
ENext == \E g \in Gor : StepR(g) \/ Finish(g) \/ BeginCache(g) \/ EndCache(g)
                         \/ \E t \in 1..Len(Templates), b \in 1..Len(Envs) : Start(g, t, b)

\* ------------------------------------------------------------------ C03
\* rendering never changes the caller's bindings
SameEnv(e1, e2) == DOMAIN e1 = DOMAIN e2 /\ \A n \in DOMAIN e1 : Same(e1[n], e2[n])
BindingsImmutable == \A b \in 1..Len(Envs) : SameEnv(heap[b], EnvOf(Envs[b]))
\* what a render returns does not depend on what happened before or meanwhile
Alone(t, b) == Render(CxFor(<<1, 2, 3>>), Templates[t], EnvOf(Envs[b]))
Independent == \A i \in 1..Len(hist) :
                 LET a == Alone(hist[i].t, hist[i].b) IN a.status = "unspec" \/ (hist[i].status = a.status /\ (a.status = "ok" => hist[i].out = a.out))
\* every render starts from the caller's bindings only: no variable, loop or cycle state survives
NoCarryOver == \A g \in Gor : (IsRender(g) /\ run[g].st.steps = 0) =>
                 /\ SameEnv(run[g].st.env, heap[run[g].b])
                 /\ Len(run[g].st.k) = 1 /\ run[g].st.sig = "none" /\ Len(run[g].st.ws) = 1

\* ------------------------------------------------------------------ C02
Deterministic == \A i, j \in 1..Len(hist) :
                   (hist[i].t = hist[j].t /\ hist[i].b = hist[j].b) => (hist[i].status = hist[j].status /\ hist[i].out = hist[j].out)

\* ------------------------------------------------------------------ C04
\* the shared cells the next step of g writes / reads
NextNode(g) == LET f == Top(run[g].st.k) IN IF f.f = "seq" /\ f.pc <= Len(f.nodes) THEN f.nodes[f.pc] ELSE [t |-> "none"]
Stepping(g) == IsRender(g) /\ run[g].st.status = "run" /\ run[g].st.sig = "none"
NextWrites(g) ==
  IF run[g].busy /\ "caching" \in DOMAIN run[g] THEN {"engine.cache"} \cap Pol.cells
  ELSE IF Stepping(g) /\ NextNode(g).t = "cycle" THEN {"cycle.err"} \cap Pol.cells
  ELSE {}
NextReads(g) == IF Stepping(g) /\ NextNode(g).t = "include" THEN {"engine.cache"} \cap Pol.cells ELSE {}
\* no two goroutines are ever both about to touch the same shared cell, one of them writing
NoConflict == \A g1, g2 \in Gor : g1 # g2 => NextWrites(g1) \cap (NextWrites(g2) \cup NextReads(g2)) = {}
=============================================================================
