------------------------------ MODULE LqValues ------------------------------
(***************************************************************************)
(* The Liquid value universe and the operations of the expression          *)
(* language on it (truthiness, ==, <, contains, property and index         *)
(* lookup, printing).  Values are tagged records:                          *)
(*                                                                         *)
(*   [k |-> "nil"]                    [k |-> "bool", v |-> BOOLEAN]        *)
(*   [k |-> "int", v |-> Int]         [k |-> "flt", n |-> Int, d |-> Nat]  *)
(*   [k |-> "str", v |-> bytes]       [k |-> "arr", v |-> Seq(Value)]      *)
(*   [k |-> "map", v |-> Seq(<<key bytes, Value>>)]  (keys ascending)      *)
(*   [k |-> "range", a |-> Int, b |-> Int]                                 *)
(*   [k |-> "unspec"]   a value about which the listed properties are      *)
(*                      silent; it taints whatever is computed from it.    *)
(*                                                                         *)
(* A "flt" is the exact rational n/d in lowest terms (d >= 1): a float     *)
(* that is exactly representable.  Values carry no Go representation:     *)
(* that a Drop, a typed slice or an int8 behaves as its Liquid value is    *)
(* property C18, checked by realising one abstract value in many ways.     *)
(*                                                                         *)
(* Three-valued results "t" / "f" / "u" are used where a property leaves a *)
(* comparison undecided.                                                   *)
(***************************************************************************)
EXTENDS LqText

Nil == [k |-> "nil"]
Bool(b) == [k |-> "bool", v |-> b]
IntV(n) == [k |-> "int", v |-> n]
Str(s) == [k |-> "str", v |-> s]
Arr(s) == [k |-> "arr", v |-> s]
MapV(pairs) == [k |-> "map", v |-> pairs]
RangeV(a, b) == [k |-> "range", a |-> a, b |-> b]
Unspec == [k |-> "unspec"]
\* An array whose nil elements may stand anywhere among the others (the
\* result of sorting an array that contains nil: the comparable elements
\* must ascend, the place of the nils is open).  Only operations that do not
\* depend on where the nils are (compact, join, size, printing, contains)
\* are decided on it.
ArrNF(s) == [k |-> "arr", v |-> s, nf |-> TRUE]
NilFree(v) == v.k = "arr" /\ "nf" \in DOMAIN v

IsUnspec(v) == v.k = "unspec"

\* ---------------------------------------------------------------- numbers
RECURSIVE Gcd(_, _)
Gcd(a, b) == IF b = 0 THEN a ELSE Gcd(b, a % b)

\* the float n/d in lowest terms, denominator positive
Flt(n, d) ==
  LET s == IF d < 0 THEN 0 - 1 ELSE 1
      g == Gcd(AbsI(n), AbsI(d))
  IN  [k |-> "flt", n |-> (s * n) \div g, d |-> AbsI(d) \div g]

\* Integers beyond TLC's 32-bit range (the 64-bit boundaries of Go's widths) are carried as a
\* sign and a sequence of decimal digits: [k |-> "big", neg, digits].  They can be compared and
\* printed; arithmetic on them is outside the modelled fragment.
BigV(neg, digits) == [k |-> "big", neg |-> neg, digits |-> digits]
IsBig(v) == v.k = "big"
IsNum(v) == v.k \in {"int", "flt", "big"}
NumN(v) == IF v.k = "int" THEN v.v ELSE v.n
NumD(v) == IF v.k = "flt" THEN v.d ELSE 1
IsWhole(v) == NumD(v) = 1
SignOf(v) == IF IsBig(v) THEN (IF v.neg THEN 0 - 1 ELSE 1) ELSE IF NumN(v) < 0 THEN 0 - 1 ELSE IF NumN(v) = 0 THEN 0 ELSE 1
\* decimal digits of the magnitude of a whole number
MagDigits(v) == IF IsBig(v) THEN v.digits ELSE NatDigits(AbsI(NumN(v)))
DigitsCmp(x, y) == IF Len(x) # Len(y) THEN (IF Len(x) < Len(y) THEN 0 - 1 ELSE 1)
                   ELSE IF x = y THEN 0 ELSE IF BytesLess(x, y) THEN 0 - 1 ELSE 1
\* -1 / 0 / 1
NumCmp(a, b) ==
  \* (the same number written the same way: no arithmetic, so that 24-bit mantissas over 2^27 stay within TLC's integers)
  IF ~IsBig(a) /\ ~IsBig(b) /\ NumN(a) = NumN(b) /\ NumD(a) = NumD(b) THEN 0
  ELSE IF ~IsBig(a) /\ ~IsBig(b) THEN
    (LET l == NumN(a) * NumD(b) r == NumN(b) * NumD(a) IN IF l < r THEN 0 - 1 ELSE IF l = r THEN 0 ELSE 1)
  ELSE IF SignOf(a) # SignOf(b) THEN (IF SignOf(a) < SignOf(b) THEN 0 - 1 ELSE 1)
  ELSE \* same sign, at least one beyond 32 bits: a fraction is smaller in magnitude than any such integer
       LET m == IF IsBig(a) /\ ~IsWhole(b) THEN 1 ELSE IF IsBig(b) /\ ~IsWhole(a) THEN 0 - 1 ELSE DigitsCmp(MagDigits(a), MagDigits(b))
       IN  IF SignOf(a) < 0 THEN 0 - m ELSE m
NumEq(a, b) == NumCmp(a, b) = 0
NumLess(a, b) == NumCmp(a, b) < 0

FloorDiv(n, d) == n \div d                      \* TLA+ \div floors for d > 0
CeilDiv(n, d) == 0 - ((0 - n) \div d)
TruncDiv(n, d) == IF n >= 0 THEN n \div d ELSE 0 - ((0 - n) \div d)

\* Is the %v spelling of the float n/d modelled?  Plain decimal notation:
\* the denominator divides a power of ten (so the expansion is finite and is
\* the shortest spelling that reads back as the same float), the magnitude
\* is below 10^6 (Go switches to exponent notation there) and the digits
\* fit TLC's 32-bit integers.
DecPlaces(d) == IF \E e \in 0..6 : (10^e) % d = 0 THEN CHOOSE e \in 0..6 : (10^e) % d = 0 /\ \A f \in 0..(e - 1) : (10^f) % d # 0
                ELSE 0 - 1
\* all the digits of the (finite) decimal expansion of |n/d|, as one integer, and the decimal exponent of its first digit
FltFits(n, d) == DecPlaces(d) >= 0 /\ AbsI(n) <= 2147483647 \div ((10^DecPlaces(d)) \div d)
FltAllDigits(n, d) == AbsI(n) * ((10^DecPlaces(d)) \div d)
NumDigits(a) == IF a < 10 THEN 1 ELSE IF a < 100 THEN 2 ELSE IF a < 1000 THEN 3 ELSE IF a < 10000 THEN 4 ELSE IF a < 100000 THEN 5
                ELSE IF a < 1000000 THEN 6 ELSE IF a < 10000000 THEN 7 ELSE IF a < 100000000 THEN 8 ELSE IF a < 1000000000 THEN 9 ELSE 10
DecExp(n, d) == NumDigits(FltAllDigits(n, d)) - 1 - DecPlaces(d)
\* Go's %v: plain notation while the decimal exponent is in -4..5, exponent notation (shortest digits) outside
FltPrintable(n, d) ==
  /\ FltFits(n, d)
  /\ AbsI(n) \div d < 1000000
  /\ (n = 0 \/ DecExp(n, d) >= 0 - 4)
FltExpPrintable(n, d) ==
  /\ FltFits(n, d) /\ n # 0
  /\ (DecExp(n, d) < 0 - 4 \/ DecExp(n, d) >= 6)
RECURSIVE PadZeros(_, _)
PadZeros(s, w) == IF Len(s) >= w THEN s ELSE PadZeros(<<48>> \o s, w)
FltText(n, d) ==
  IF d = 1 THEN IntText(n)
  ELSE LET e == DecPlaces(d)
           a == AbsI(n) * ((10^e) \div d)
           ip == a \div (10^e)
           fr == a % (10^e)
       IN  (IF n < 0 THEN <<45>> ELSE <<>>) \o NatDigits(ip) \o <<46>> \o PadZeros(NatDigits(fr), e)

\* exponent notation: d[.ddd]e(+|-)XX - the digits of the finite expansion without trailing zeros (a decimal of at
\* most 15 digits is the shortest that reads back as the same float), at least two exponent digits
RECURSIVE StripZeros(_)
StripZeros(ds) == IF Len(ds) > 1 /\ ds[Len(ds)] = 48 THEN StripZeros(SubSeq(ds, 1, Len(ds) - 1)) ELSE ds
FltExpText(n, d) ==
  LET m == StripZeros(NatDigits(FltAllDigits(n, d)))
      x == DecExp(n, d)
      xs == NatDigits(AbsI(x))
  IN  (IF n < 0 THEN <<45>> ELSE <<>>) \o <<m[1]>> \o (IF Len(m) > 1 THEN <<46>> \o SubSeq(m, 2, Len(m)) ELSE <<>>)
      \o <<101, IF x < 0 THEN 45 ELSE 43>> \o (IF Len(xs) < 2 THEN <<48>> \o xs ELSE xs)

\* ------------------------------------------------------------- truthiness
Truthy(v) == ~(v.k = "nil" \/ (v.k = "bool" /\ ~v.v))

\* three-valued connectives
And3(a, b) == IF a = "f" \/ b = "f" THEN "f" ELSE IF a = "u" \/ b = "u" THEN "u" ELSE "t"
Or3(a, b) == IF a = "t" \/ b = "t" THEN "t" ELSE IF a = "u" \/ b = "u" THEN "u" ELSE "f"
Not3(a) == IF a = "t" THEN "f" ELSE IF a = "f" THEN "t" ELSE "u"
B3(b) == IF b THEN "t" ELSE "f"
RECURSIVE AllT3(_)
AllT3(s) == IF s = <<>> THEN "t" ELSE And3(Head(s), AllT3(Tail(s)))
RECURSIVE AnyT3(_)
AnyT3(s) == IF s = <<>> THEN "f" ELSE Or3(Head(s), AnyT3(Tail(s)))

\* ------------------------------------------------------ structural identity
\* TLC's own = raises an error when it meets an integer and a sequence in
\* the same field of two records, so identity of two arbitrary values is
\* decided kind first.
RECURSIVE Same(_, _)
Same(a, b) ==
  /\ a.k = b.k
  /\ CASE a.k \in {"nil", "unspec"} -> TRUE
        [] a.k \in {"bool", "int", "str"} -> a.v = b.v
        [] a.k = "flt" -> a.n = b.n /\ a.d = b.d
        [] a.k = "big" -> a.neg = b.neg /\ a.digits = b.digits
        [] a.k = "arr" -> Len(a.v) = Len(b.v) /\ \A i \in 1..Len(a.v) : Same(a.v[i], b.v[i])
        [] a.k = "map" -> Len(a.v) = Len(b.v)
                          /\ \A i \in 1..Len(a.v) : a.v[i][1] = b.v[i][1] /\ Same(a.v[i][2], b.v[i][2])
        [] a.k = "range" -> a.a = b.a /\ a.b = b.b
IsNil(v) == v.k = "nil"

\* --------------------------------------------------------------- equality
\* C09: numbers by value across int/float, strings by bytes, nil only nil,
\* arrays element-wise, unlike kinds never equal.  Two maps: identical maps
\* are equal (reflexivity); maps with different key sets, or with a key whose
\* two values are definitely unequal, are not; anything between is left open
\* ({k: 1} vs {k: 1.0}).  Ranges: decided only as far as reflexivity demands.
RECURSIVE Eq3(_, _)
Eq3(a, b) ==
  IF IsUnspec(a) \/ IsUnspec(b) THEN "u"
  ELSE IF IsNum(a) /\ IsNum(b) THEN B3(NumEq(a, b))
  ELSE IF a.k # b.k THEN "f"
  ELSE CASE a.k = "nil" -> "t"
         [] a.k = "bool" -> B3(a.v = b.v)
         [] a.k = "str" -> B3(a.v = b.v)
         [] a.k = "arr" -> IF NilFree(a) \/ NilFree(b) THEN "u"
                           ELSE IF Len(a.v) # Len(b.v) THEN "f"
                           ELSE AllT3([i \in 1..Len(a.v) |-> Eq3(a.v[i], b.v[i])])
         [] a.k = "map" -> IF Same(a, b) THEN "t"
                           ELSE IF {a.v[i][1] : i \in 1..Len(a.v)} # {b.v[i][1] : i \in 1..Len(b.v)} THEN "f"
                           ELSE IF \E i \in 1..Len(a.v), j \in 1..Len(b.v) :
                                     a.v[i][1] = b.v[j][1] /\ Eq3(a.v[i][2], b.v[j][2]) = "f" THEN "f"
                           ELSE "u"
         [] a.k = "range" -> IF Same(a, b) THEN "t" ELSE "u"
         [] OTHER -> "u"

\* C09: numbers numerically, strings lexically, unlike kinds and nil never
\* ordered.  An ordering among booleans, arrays, maps is left open.
Less3(a, b) ==
  IF IsUnspec(a) \/ IsUnspec(b) THEN "u"
  ELSE IF IsNum(a) /\ IsNum(b) THEN B3(NumLess(a, b))
  ELSE IF a.k = "nil" \/ b.k = "nil" THEN "f"
  ELSE IF a.k # b.k THEN "f"
  ELSE IF a.k = "str" THEN B3(BytesLess(a.v, b.v))
  ELSE "u"

MapHas(m, key) == \E i \in 1..Len(m.v) : m.v[i][1] = key
MapGet(m, key) == LET i == CHOOSE i \in 1..Len(m.v) : m.v[i][1] = key IN m.v[i][2]

Contains3(a, b) ==
  IF IsUnspec(a) \/ IsUnspec(b) THEN "u"
  ELSE CASE a.k = "str" -> IF b.k = "str" THEN B3(HasSub(a.v, b.v)) ELSE "u"
         [] a.k = "arr" -> AnyT3([i \in 1..Len(a.v) |-> Eq3(a.v[i], b)])
         [] a.k = "map" -> IF b.k = "str" THEN B3(MapHas(a, b.v)) ELSE "f"
         [] a.k = "range" -> "u"
         [] OTHER -> "f"

\* ----------------------------------------------------------------- lookup
B_first == <<102, 105, 114, 115, 116>>
B_last == <<108, 97, 115, 116>>
B_size == <<115, 105, 122, 101>>

\* a.name
Prop(v, name) ==
  CASE v.k = "arr" /\ NilFree(v) /\ name # B_size -> Unspec
    [] v.k = "arr" ->
         (CASE name = B_first -> IF v.v = <<>> THEN Nil ELSE v.v[1]
            [] name = B_last -> IF v.v = <<>> THEN Nil ELSE v.v[Len(v.v)]
            [] name = B_size -> IntV(Len(v.v))
            [] OTHER -> Nil)
    [] v.k = "map" -> IF MapHas(v, name) THEN MapGet(v, name)
                      ELSE IF name = B_size THEN IntV(Len(v.v)) ELSE Nil
    [] v.k = "str" -> IF name = B_size THEN (IF IsAscii(v.v) THEN IntV(Len(v.v)) ELSE Unspec) ELSE Nil
    [] v.k \in {"range", "unspec"} -> Unspec
    [] OTHER -> Nil

\* a[i]
Index(v, i) ==
  IF IsUnspec(i) THEN Unspec
  ELSE CASE v.k = "arr" /\ NilFree(v) -> Unspec
    [] v.k = "arr" ->
         (IF IsBig(i) THEN Nil
          ELSE IF IsNum(i) THEN
            IF ~IsWhole(i) THEN Unspec
            ELSE LET n == NumN(i)
                     m == IF n < 0 THEN n + Len(v.v) ELSE n
                 IN  IF m >= 0 /\ m < Len(v.v) THEN v.v[m + 1] ELSE Nil
          ELSE Nil)
    [] v.k = "map" ->
         \* (m["size"] is a key lookup like any other: only the property form m.size falls back to the entry count)
         (CASE i.k = "str" -> IF MapHas(v, i.v) THEN MapGet(v, i.v) ELSE Nil
            [] i.k = "nil" -> Nil
            [] OTHER -> Unspec)
    [] v.k \in {"range", "unspec"} -> Unspec
    [] OTHER -> Nil

\* ---------------------------------------------------------------- printing
\* What an object {{ v }} writes: [ok |-> is it decided, s |-> bytes].
RECURSIVE ToText(_)
ToText(v) ==
  CASE v.k = "nil" -> [ok |-> TRUE, s |-> <<>>]
    [] v.k = "bool" -> [ok |-> TRUE, s |-> IF v.v THEN <<116, 114, 117, 101>> ELSE <<102, 97, 108, 115, 101>>]
    [] v.k = "int" -> [ok |-> TRUE, s |-> IntText(v.v)]
    [] v.k = "big" -> [ok |-> TRUE, s |-> (IF v.neg THEN <<45>> ELSE <<>>) \o v.digits]
    [] v.k = "flt" -> IF FltPrintable(v.n, v.d) THEN [ok |-> TRUE, s |-> FltText(v.n, v.d)]
                      ELSE IF FltExpPrintable(v.n, v.d) THEN [ok |-> TRUE, s |-> FltExpText(v.n, v.d)]
                      ELSE [ok |-> FALSE, s |-> <<>>]
    [] v.k = "str" -> [ok |-> TRUE, s |-> v.v]
    [] v.k = "arr" -> LET ts == [i \in 1..Len(v.v) |-> ToText(v.v[i])]
                      IN  [ok |-> \A i \in 1..Len(ts) : ts[i].ok,
                           s |-> Flatten([i \in 1..Len(ts) |-> ts[i].s])]
    [] OTHER -> [ok |-> FALSE, s |-> <<>>]

\* What fmt.Sprint gives for an element (join, string coercion): as ToText
\* for scalars; nested collections are not decided.
ScalarText(v) ==
  IF v.k \in {"nil", "bool", "int", "flt", "str", "big"} THEN ToText(v) ELSE [ok |-> FALSE, s |-> <<>>]

\* ---------------------------------------------------------------- sorting
\* Stable sort by a strict weak order Lt: element i goes to position
\* 1 + #{j : s[j] < s[i]} + #{j < i : s[j] and s[i] unordered}.
SortBy(s, Lt(_, _)) ==
  LET n == Len(s)
      rank(i) == 1 + Cardinality({j \in 1..n : Lt(s[j], s[i])})
                   + Cardinality({j \in 1..(i - 1) : ~Lt(s[j], s[i]) /\ ~Lt(s[i], s[j])})
  IN  [r \in 1..n |-> s[CHOOSE i \in 1..n : rank(i) = r]]

\* sort map pairs by key (the canonical form of a map value)
SortPairs(ps) == SortBy(ps, LAMBDA x, y : BytesLess(x[1], y[1]))
=============================================================================
