----------------------------- MODULE TraceEngine -----------------------------
(***************************************************************************)
(* Trace validation at engine level (C02, C03, C04).  The harness runs a   *)
(* session on one engine - a history of renders of pooled templates with    *)
(* pooled binding environments through the various entry points,           *)
(* sequentially or from several goroutines - and logs one event per        *)
(* render: which template and bindings, the entry point, a deep snapshot   *)
(* of the bindings before and after, and the result.  The trace            *)
(* specification keeps, per (session, template, bindings), the first       *)
(* result it saw (memo) and demands of every event                         *)
(*   BindingsImmutable  the snapshot after equals the snapshot before and  *)
(*                      the bindings the session was given (C03),          *)
(*   Deterministic / Independent / SeqEquivalent  the result (output, or   *)
(*                      error with its message) equals the memo, whatever  *)
(*                      ran before or concurrently                         *)
(*                      (C02, C03, C04), and                               *)
(*   the result is the one the render reference allows, when it decides    *)
(*   (so being consistently wrong is not accepted).                        *)
(***************************************************************************)
EXTENDS LqRender, Json, TLC, IOUtils

Trace == ndJsonDeserialize(IOEnv.LQ_TRACE)
VARIABLES l, memo
vars == <<l, memo>>

SamePairs(p, q) == Len(p) = Len(q) /\ \A i \in 1..Len(p) : p[i][1] = q[i][1] /\ Same(p[i][2], q[i][2])
Key(t) == <<t.sid, t.t, t.b>>
Res(t) == <<t.outcome, t.out, Fld(t, "msg", "")>>      \* an error: with its message
Known(k) == \E m \in memo : m[1] = k
Get(k) == (CHOOSE m \in memo : m[1] = k)[2]

Perms(n) == {p \in [1..n -> 1..n] : \A i, j \in 1..n : p[i] = p[j] => i = j}
Allowed(t) ==
  LET n == Fld(t, "anyorder", 0)
      ok(r) == r.status = "unspec" \/ (r.status = "ok" /\ t.outcome = "ok" /\ t.out = r.out) \/ (r.status = "error" /\ t.outcome = "error")
      cx == [Cx0 EXCEPT !.cache = Fld(t, "cache", <<>>), !.strict = Fld(t, "strict", FALSE)]
  IN  IF Fld(t, "noref", FALSE) THEN TRUE       \* bindings outside the reference's value universe (Go structs): no expectation
      ELSE IF Fld(t, "illformed", FALSE) THEN t.outcome = "error"      \* a template that cannot parse never renders
      ELSE IF n = 0 THEN ok(Render(cx, t.prog, EnvOf(t.env)))
      ELSE \E p \in Perms(n) : ok(Render([cx EXCEPT !.perm = p], t.prog, EnvOf(t.env)))
Decided(t) == ~Fld(t, "noref", FALSE) /\ (Fld(t, "illformed", FALSE) \/ Render([Cx0 EXCEPT !.perm = <<1, 2, 3>>, !.cache = Fld(t, "cache", <<>>), !.strict = Fld(t, "strict", FALSE)], t.prog, EnvOf(t.env)).status # "unspec")

Why(t) ==
  IF t.outcome \in {"panic", "fatal", "timeout"} THEN "the render did not return"
  ELSE IF t.outcome = "addrleak" THEN "the output holds a memory address"
  ELSE IF ~SamePairs(t.before, t.after) THEN "rendering changed the caller's bindings"
  \* (the fingerprints also tell a Drop from its value, a typed from a generic slice, and see a slice's spare capacity)
  ELSE IF Fld(t, "beforesig", "") # Fld(t, "aftersig", "") THEN "rendering changed the caller's bindings (as Go values)"
  ELSE IF ~SamePairs(t.before, t.env) THEN "the bindings were changed by an earlier render"
  ELSE IF Known(Key(t)) /\ Get(Key(t)) # Res(t) THEN "the same template and bindings gave a different result (" \o t.entry \o ")"
  ELSE IF ~Allowed(t) THEN "the result is not the one the reference semantics allows"
  ELSE ""

Init == l = 1 /\ memo = {}
Next ==
  /\ l <= Len(Trace)
  /\ l' = l + 1
  /\ LET t == Trace[l] w == Why(t) IN
       /\ memo' = IF Known(Key(t)) THEN memo ELSE memo \cup {<<Key(t), Res(t)>>}
       /\ IF w = "" THEN PrintT(<<"V", t.id, IF Decided(t) THEN "ok" ELSE "unspec">>)
          ELSE PrintT(<<"V", t.id, "REJECT", ToJson([why |-> w])>>)
TraceAccepted == TLCGet("stats").diameter - 1 = Len(Trace)
=============================================================================
