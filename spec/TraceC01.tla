------------------------------ MODULE TraceC01 ------------------------------
(***************************************************************************)
(* Trace validation for C01.  The specification's outcome set is           *)
(* {output, error}; an event is accepted iff the implementation returned   *)
(* output or a SourceError within the deadline - whatever the value: the   *)
(* values are the business of the other properties.  For the events that   *)
(* carry an abstract program the reference is evaluated as well, so that   *)
(* the evidence can say how many of them it decides.                       *)
(***************************************************************************)
EXTENDS LqRender, Json, TLC, IOUtils

Trace == ndJsonDeserialize(IOEnv.LQ_TRACE)
VARIABLE l

Why(t) ==
  IF t.outcome \in {"panic", "fatal", "timeout"} THEN "parsing or rendering did not return (" \o t.outcome \o ")"
  ELSE IF t.outcome = "error" /\ ~Fld(t, "srcerr", FALSE) THEN "the error is not a SourceError"
  ELSE IF t.outcome \notin {"ok", "error"} THEN "unexpected outcome"
  ELSE ""

Init == l = 1
Next ==
  /\ l <= Len(Trace)
  /\ l' = l + 1
  /\ LET t == Trace[l] w == Why(t) IN
       IF w = "" THEN PrintT(<<"V", t.id, "ok">>)
       ELSE PrintT(<<"V", t.id, "REJECT", ToJson([why |-> w])>>)
TraceAccepted == TLCGet("stats").diameter - 1 = Len(Trace)
=============================================================================
