------------------------------- MODULE MC_C18 -------------------------------
(***************************************************************************)
(* C18 - output depends on a binding's Liquid value, not on its Go         *)
(* representation.  Values of the specification carry no representation,   *)
(* so the reference result of a template is by construction the same for   *)
(* every realisation; what TLC enumerates here is the environment's choice *)
(* of representation for each node of the binding tree, within the         *)
(* positions the statement names:                                          *)
(*   num    integers and floats of every width: printed, compared, as      *)
(*          receiver and argument of arithmetic                            *)
(*   seq    typed slices, fixed arrays: loop, index, size/first/last,      *)
(*          contains, array filters                                        *)
(*   map    typed maps, ordered YAML maps (lookup and size only)           *)
(*   bytes  []byte printed and as string-filter receiver                   *)
(*   ptr    pointers as a variable or property value                       *)
(*   drop   Drops at every subset of nodes of a nested value, used as      *)
(*          variable, element, filter input and argument, in comparisons,  *)
(*          conditions and loops                                           *)
(* Every (family, representation assignment) is emitted; all realisations  *)
(* of one family must give the reference output.                           *)
(***************************************************************************)
EXTENDS LqRender, Json, TLC

CONSTANT Full
VARIABLES c
vars == <<c>>

T(s) == [t |-> "text", s |-> s]
Var(n) == [t |-> "var", name |-> n]
Lit(v) == [t |-> "lit", v |-> v]
Ob(e) == [t |-> "obj", e |-> e]
P(e, n) == [t |-> "prop", e |-> e, name |-> n]
Ix(e, i) == [t |-> "idx", e |-> e, i |-> i]
Fl(e, n, as) == [t |-> "filter", e |-> e, name |-> n, args |-> as]
Cmp(op, a, b) == [t |-> "cmp", op |-> op, a |-> a, b |-> b]
Bit(cond) == [t |-> "if", branches |-> <<[c |-> cond, body |-> <<T(<<49>>)>>], [c |-> [t |-> "else"], body |-> <<T(<<48>>)>>]>>]
Bar == T(<<124>>)
X == <<120>>  Y == <<121>>  A == <<97>>  M == <<109>>  S0 == <<115>>  PP == <<112>>  KK == <<107>>  JJ == <<106>>

IntWidths == <<"int", "int8", "int16", "int32", "int64", "uint", "uint8", "uint16", "uint32", "uint64">>
FloatWidths == <<"float64", "float32">>
NumVals == <<2, 0, 7>>

\* ---------------------------------------------------------------- programs
NumProg == <<Ob(Var(X)), Bar, Ob(Fl(Var(X), "plus", <<Lit(IntV(1))>>)), Bar, Ob(Fl(Var(X), "times", <<Var(Y)>>)), Bar,
             Bit(Cmp("==", Var(X), Var(Y))), Bit(Cmp("<", Var(X), Lit(IntV(3)))), Bit(Cmp(">=", Var(Y), Var(X))),
             Bit(Cmp("==", Var(X), Lit(Flt(2, 1)))), Bar, Ob(Fl(Lit(IntV(14)), "divided_by", <<Var(Y)>>)), Bar,
             Ob(Fl(Lit(IntV(9)), "minus", <<Var(X)>>)), Bar, Ob(Fl(Var(X), "abs", <<>>)), Bar,
             Bit(Cmp("contains", Var(A), Var(X))), Bar, [t |-> "case", e |-> Var(X), pre |-> <<>>,
                whens |-> <<[vals |-> <<Lit(IntV(2))>>, body |-> <<T(<<116>>)>>], [else |-> TRUE, vals |-> <<>>, body |-> <<T(<<101>>)>>]>>], Bar,
             \* what arithmetic on the binding gives is a number like any other, whatever width the binding had: as a divisor
             \* later on, and printed when it is large
             [t |-> "assign", name |-> <<114>>, e |-> Fl(Var(X), "plus", <<Lit(IntV(3))>>)], Ob(Fl(Lit(IntV(30)), "divided_by", <<Var(<<114>>)>>)), Bar,
             [t |-> "assign", name |-> <<114>>, e |-> Fl(Var(Y), "times", <<Lit(IntV(2))>>)], Ob(Fl(Lit(IntV(21)), "divided_by", <<Var(<<114>>)>>)), Bar,
             [t |-> "assign", name |-> <<114>>, e |-> Fl(Lit(IntV(9)), "minus", <<Var(X)>>)], Ob(Fl(Lit(IntV(126)), "divided_by", <<Var(<<114>>)>>)), Bar,
             Ob(Fl(Var(Y), "times", <<Lit(IntV(500000))>>))>>
FltProg == <<Ob(Var(X)), Bar, Ob(Fl(Var(X), "plus", <<Lit(IntV(1))>>)), Bar, Bit(Cmp("==", Var(X), Lit(Flt(5, 2)))), Bit(Cmp("<", Var(X), Lit(IntV(3)))),
             Bar, Ob(Fl(Var(X), "floor", <<>>)), Bar, Ob(Fl(Lit(IntV(5)), "divided_by", <<Var(X)>>))>>
SeqProg == <<[t |-> "for", tag |-> "for", var |-> <<105>>, coll |-> Var(A), body |-> <<Ob(Var(<<105>>)), T(<<44>>)>>], Bar,
             Ob(P(Var(A), B_size)), Ob(P(Var(A), B_first)), Ob(P(Var(A), B_last)), Ob(Ix(Var(A), Lit(IntV(1)))), Ob(Ix(Var(A), Lit(IntV(0 - 1)))), Bar,
             Ob(Fl(Fl(Var(A), "reverse", <<>>), "join", <<Lit(Str(<<45>>))>>)), Bar, Ob(Fl(Fl(Var(A), "sort", <<>>), "first", <<>>)), Bar,
             Bit(Cmp("contains", Var(A), Lit(IntV(1)))), Bit(Cmp("==", Var(A), Var(<<98>>))), Bar, Ob(Fl(Var(A), "size", <<>>)), Bar, Ob(Var(A)), Bar,
             Ob(Fl(Fl(Var(A), "uniq", <<>>), "join", <<>>))>>
StrSeqProg == <<[t |-> "for", tag |-> "for", var |-> <<105>>, coll |-> Var(A), rev |-> TRUE, body |-> <<Ob(Var(<<105>>))>>], Bar,
                Ob(Fl(Var(A), "join", <<Lit(Str(<<43>>))>>)), Bar, Ob(Fl(Fl(Var(A), "sort", <<>>), "join", <<>>)), Bar, Bit(Cmp("contains", Var(A), Lit(Str(<<98>>)))),
                Ob(P(Var(A), B_size)), Ob(Ix(Var(A), Lit(IntV(0)))), Bar, Ob(Fl(Fl(Var(A), "sort_natural", <<>>), "join", <<>>)), Bar,
                Ob(Fl(Fl(Var(A), "sort", <<>>), "first", <<>>)), Ob(Fl(Fl(Var(A), "uniq", <<>>), "size", <<>>))>>
MapSzProg == <<T(<<91>>), Ob(P(Var(M), B_size)), Bar, Ob(Ix(Var(M), Lit(Str(B_size)))), Bar, Ob(P(Var(M), KK)), Bar, Bit(P(Var(M), B_size)), T(<<93>>)>>
\* an array of maps: `map` is the per-element property lookup (so "size" is the entry under that key, or the number of entries),
\* whatever holds each element
MapElemsProg == <<Ob(Fl(Fl(Var(A), "map", <<Lit(Str(B_size))>>), "join", <<Lit(Str(<<44>>))>>)), Bar, Ob(Fl(Fl(Var(A), "map", <<Lit(Str(KK))>>), "join", <<Lit(Str(<<44>>))>>)), Bar,
                  [t |-> "for", tag |-> "for", var |-> <<105>>, coll |-> Var(A), body |-> <<Ob(P(Var(<<105>>), B_size)), T(<<44>>)>>], Bar,
                  Ob(Fl(Fl(Fl(Var(A), "map", <<Lit(Str(JJ))>>), "compact", <<>>), "size", <<>>)), Bar, Ob(P(Ix(Var(A), Lit(IntV(1))), B_size)), Bar,
                  Ob(Fl(Fl(Fl(Var(A), "sort", <<Lit(Str(KK))>>), "map", <<Lit(Str(KK))>>), "join", <<Lit(Str(<<44>>))>>))>>
\* records sorted by a key whose values are held directly, as Drops (one of them a Drop of nil) or through pointers
SortKeyProg == <<Ob(Fl(Fl(Fl(Var(A), "sort", <<Lit(Str(KK))>>), "map", <<Lit(Str(JJ))>>), "join", <<Lit(Str(<<44>>))>>)), Bar,
                 Ob(Fl(Fl(Fl(Fl(Var(A), "reverse", <<>>), "sort", <<Lit(Str(KK))>>), "map", <<Lit(Str(JJ))>>), "join", <<Lit(Str(<<44>>))>>))>>
EmptyWsProg == <<T(<<91, 97, 32, 32>>), Ob(Var(S0)), [t |-> "trimL"], Ob(Lit(Str(<<67>>))), T(<<93, 91>>), Ob(Lit(Str(<<67>>))), [t |-> "trimR"], Ob(Var(S0)), T(<<32, 32, 122, 93, 91, 32>>),
                 [t |-> "trimL"], Ob(Var(S0)), [t |-> "trimR"], T(<<32, 120, 93>>)>>
StrWsProg == <<T(<<91>>), Ob(Var(A)), [t |-> "trimL"], Ob(Lit(Str(<<120>>))), T(<<124>>), Ob(Lit(Str(<<121>>))), [t |-> "trimR"], Ob(Var(A)), T(<<124>>),
               Ob(Var(A)), [t |-> "trimL"], [t |-> "assign", name |-> <<113>>, e |-> Lit(IntV(1))], [t |-> "trimR"], Ob(Var(A)), T(<<93>>)>>
MapProg == <<Ob(P(Var(M), KK)), Bar, Ob(Ix(Var(M), Lit(Str(JJ)))), Bar, Ob(P(Var(M), B_size)), Bar, Bit(Cmp("==", P(Var(M), KK), Lit(IntV(1)))),
             Ob(P(Var(M), <<122>>)), Bar, Ob(Fl(P(Var(M), KK), "plus", <<P(Var(M), JJ)>>)), Bar,
             \* (first and last are what an ARRAY answers to: a map - ordered or not - has no such entry unless it holds the key)
             T(<<60>>), Ob(P(Var(M), B_first)), T(<<124>>), Ob(P(Var(M), B_last)), T(<<62>>), Bit(P(Var(M), B_first))>>
\* (size is not probed: for a []byte both the byte count and the character count are defensible)
BytesProg == <<Ob(Var(S0)), Bar, Ob(Fl(Var(S0), "upcase", <<>>)), Bar, Ob(Fl(Var(S0), "append", <<Lit(Str(<<33>>))>>)), Bar,
               Ob(Fl(Var(S0), "truncate", <<Lit(IntV(4)), Lit(Str(<<>>))>>))>>
PtrProg == <<Ob(Var(PP)), Bar, Ob(P(Var(M), PP)), Bar, Bit(Var(PP)), Bar, Ob(Fl(Var(PP), "append", <<Lit(Str(<<33>>))>>))>>
DropProg == <<[t |-> "for", tag |-> "for", var |-> <<105>>, coll |-> Var(A), body |-> <<Ob(P(Var(<<105>>), KK)), T(<<44>>)>>], Bar,
              Ob(P(Ix(Var(A), Lit(IntV(0))), KK)), Bar, Ob(Fl(Fl(Var(A), "map", <<Lit(Str(KK))>>), "join", <<>>)), Bar, Ob(P(P(Var(A), B_first), KK)), Bar,
              Bit(Var(X)), Bit(Cmp("==", Var(X), Lit(IntV(5)))), Bit(Cmp("<", Var(X), Lit(IntV(9)))), Bar, Ob(Fl(Var(X), "plus", <<Var(X)>>)), Bar,
              Ob(Fl(Lit(Str(<<97>>)), "append", <<Var(S0)>>)), Bar, Ob(Fl(Var(S0), "upcase", <<>>)), Bar,
              [t |-> "case", e |-> Var(X), pre |-> <<>>, whens |-> <<[vals |-> <<Lit(IntV(5))>>, body |-> <<T(<<116>>)>>]>>], Bar,
              Bit(Var(<<102>>)), Bit(Var(<<122>>)), Bar, Ob(P(Var(A), B_size)), Bar,
              Ob(Fl(Var(<<108>>), "join", <<>>)), Bar, Ob(Fl(Fl(Var(<<108>>), "sort", <<>>), "join", <<>>)), Bar, Ob(Fl(Var(<<108>>), "first", <<>>))>>

\* a typed slice wherever a value can go (most of these the reference leaves open - what an array turns into as
\* text, say; the harness compares every realisation with the generic one, which is what C18 states)
Bang == Lit(Str(<<33>>))
MapElemReprs == {"", "mapint", "mapslice", "drop", "ptr", "anystrkeys"}
SeqTextProbes == <<
  Ob(Fl(Var(A), "append", <<Bang>>)), Ob(Fl(Bang, "append", <<Var(A)>>)), Ob(Fl(Var(A), "prepend", <<Bang>>)), Ob(Fl(Var(A), "upcase", <<>>)),
  Ob(Fl(Var(A), "remove", <<Lit(Str(<<49>>))>>)), Ob(Fl(Var(A), "replace", <<Lit(Str(<<32>>)), Lit(Str(<<95>>))>>)),
  Ob(Fl(Fl(Var(A), "split", <<Lit(Str(<<32>>))>>), "join", <<Lit(Str(<<44>>))>>)), Ob(Fl(Var(A), "truncate", <<Lit(IntV(3)), Lit(Str(<<>>))>>)),
  Ob(Fl(Var(A), "strip", <<>>)), Ob(Fl(Var(A), "url_encode", <<>>)), Ob(Fl(Var(A), "escape", <<>>)), Ob(Fl(Var(A), "capitalize", <<>>)),
  Ob(Fl(Var(A), "slice", <<Lit(IntV(0)), Lit(IntV(2))>>)), Ob(Fl(Var(A), "default", <<Bang>>)), Ob(Fl(Var(A), "size", <<>>)),
  Ob(Fl(Fl(Var(A), "concat", <<Var(A)>>), "join", <<>>)), Ob(Fl(Fl(Var(A), "map", <<Lit(Str(KK))>>), "size", <<>>)),
  Ob(Fl(Fl(Var(A), "compact", <<>>), "join", <<>>)), Ob(Fl(Fl(Var(A), "uniq", <<>>), "join", <<>>)), Ob(Fl(Fl(Var(A), "sort_natural", <<>>), "join", <<>>)),
  Ob(Fl(Var(A), "plus", <<Lit(IntV(1))>>)), Ob(Fl(Lit(IntV(1)), "plus", <<Var(A)>>)), Ob(Fl(Fl(Var(A), "first", <<>>), "plus", <<Fl(Var(A), "last", <<>>)>>)),
  Ob(Var(A)), Ob(Cmp("==", Var(A), Var(<<98>>))), Ob(Cmp("contains", Var(A), Lit(IntV(104)))), Ob(Cmp("<", Var(A), Var(<<98>>))),
  Ob(Fl(Var(A), "truncatewords", <<Lit(IntV(1))>>)), Ob(Fl(Var(A), "newline_to_br", <<>>)), Ob(Fl(Var(A), "strip_html", <<>>))
>>   \* (json and inspect are debugging aids that show the Go structure: not probed)
\* an array with a nil in the middle, the nil held as a plain nil, a Drop whose value is nil, a nil pointer
NilSeqProbes == <<
  Ob(Fl(Var(A), "join", <<Lit(Str(<<44>>))>>)), Ob(Fl(Fl(Var(A), "compact", <<>>), "join", <<Lit(Str(<<44>>))>>)), Ob(Fl(Fl(Var(A), "compact", <<>>), "size", <<>>)),
  Ob(Fl(Var(A), "size", <<>>)), Ob(Fl(Fl(Var(A), "uniq", <<>>), "size", <<>>)), Ob(Var(A)), Ob(Ix(Var(A), Lit(IntV(1)))),
  [t |-> "for", tag |-> "for", var |-> <<105>>, coll |-> Var(A), body |-> <<T(<<91>>), Ob(Var(<<105>>)), T(<<93>>)>>],
  Bit(Ix(Var(A), Lit(IntV(1)))), Bit(Cmp("==", Ix(Var(A), Lit(IntV(1))), Lit(Nil))), Bit(Cmp("contains", Var(A), Lit(Nil))),
  Ob(Fl(Fl(Var(A), "reverse", <<>>), "join", <<>>)), Ob(Fl(Fl(Var(A), "concat", <<Var(A)>>), "join", <<>>)), Ob(Fl(Ix(Var(A), Lit(IntV(1))), "default", <<Bang>>)),
  Ob(Fl(Fl(Var(A), "map", <<Lit(Str(KK))>>), "join", <<>>)), Ob(Fl(Fl(Var(A), "sort", <<>>), "join", <<>>)), Ob(Fl(Var(A), "first", <<>>)), Ob(Fl(Fl(Var(A), "last", <<>>), "upcase", <<>>)),
  Ob(Fl(Ix(Var(A), Lit(IntV(1))), "append", <<Bang>>)), Ob(Fl(Ix(Var(A), Lit(IntV(1))), "size", <<>>)), Ob(Fl(Bang, "append", <<Ix(Var(A), Lit(IntV(1)))>>)),
  Ob(Fl(Fl(Var(A), "sort", <<>>), "first", <<>>)), Ob(Fl(Fl(Var(A), "sort", <<>>), "last", <<>>)), Ob(Fl(Fl(Var(A), "sort_natural", <<>>), "join", <<Lit(Str(<<44>>))>>)),
  Ob(Fl(Fl(Fl(Var(A), "reverse", <<>>), "sort", <<>>), "join", <<Lit(Str(<<44>>))>>))
>>
\* bindings that are a graph: equal arrays and maps are one Go value reached along several paths ("@share")
SharedProbes == <<
  Ob(Var(M)), Ob(Fl(Var(A), "append", <<Bang>>)), Ob(Fl(Var(A), "join", <<Lit(Str(<<44>>))>>)), Ob(Var(A)), Ob(Fl(Fl(Var(A), "uniq", <<>>), "size", <<>>)),
  [t |-> "for", tag |-> "for", var |-> <<105>>, coll |-> Var(M), body |-> <<T(<<91>>), Ob(Ix(Var(<<105>>), Lit(IntV(1)))), T(<<93>>)>>],
  Bit(Cmp("==", P(Var(M), X), P(Var(M), Y))), Ob(Fl(Fl(Var(A), "reverse", <<>>), "first", <<>>)), Ob(Fl(P(Var(M), X), "concat", <<P(Var(M), Y)>>)),
  Ob(Fl(Fl(Fl(Var(A), "concat", <<Var(A)>>), "compact", <<>>), "size", <<>>)), Ob(Fl(Var(M), "upcase", <<>>)), Ob(Fl(Bang, "append", <<Var(M)>>)),
  [t |-> "assign", name |-> <<113>>, e |-> Fl(P(Var(M), X), "sort", <<>>)], Ob(Fl(Fl(Var(A), "sort", <<>>), "size", <<>>))
>>
SeqReprs == {"", "ints", "int64s", "int32s", "int16s", "int8s", "uints", "uint16s", "uint32s", "uint64s", "float64s", "array2", "drop", "ptr"}

\* ------------------------------------------------------------------ cases
\* a repr assignment is a function from binding-tree paths to representation names
H(p, r) == IF r = "" THEN <<>> ELSE (p :> r)
BoolSets(n) == [1..n -> BOOLEAN]
Cases ==
  [g : {"num"}, xv : 1..Len(NumVals), xr : 1..Len(IntWidths), yr : 1..Len(IntWidths)]
  \cup [g : {"numf"}, xr : 1..Len(IntWidths), fr : 1..Len(FloatWidths)]
  \cup [g : {"flt"}, xr : 1..Len(FloatWidths), d : BOOLEAN]
  \cup [g : {"seq"}, r : {"", "ints", "array3", "drop", "ptr"}, er : {"", "drop", "int8", "uint16"}]
  \cup [g : {"seqtext"}, r : SeqReprs \ {""}, p : 1..Len(SeqTextProbes)]
  \cup [g : {"nilseq"}, r : {"", "array3", "drop", "ptr"}, er : {"drop"}, p : 1..Len(NilSeqProbes)]
  \cup [g : {"shared"}, p : 1..Len(SharedProbes)]
  \cup [g : {"strseq"}, r : {"", "strings", "array3", "drop"}, er : {"", "drop"}]
  \* an array of strings that begin / end in white space, printed whole right next to a hyphen: whatever the hyphen
  \* does to what the array printed, it does the same for every representation of the array
  \cup [g : {"strws"}, r : {"", "strings", "array2", "drop", "ptr"}, k : 1..3]
  \* a value that prints nothing - the empty text, as a string, as bytes, behind a Drop or a pointer; nil - right next to
  \* hyphens with white space on the far side
  \cup [g : {"emptyws"}, r : {"", "bytes", "drop", "ptr"}, k : 1..2]
  \* membership: every sequence representation x every width of the needle
  \cup [g : {"member"}, r : {"", "ints", "int64s", "int8s", "float64s", "array3", "drop"}, xr : 1..(Len(IntWidths) + 2), xv : {2, 5}]
  \cup [g : {"map"}, r : {"", "mapint", "mapslice", "drop", "ptr", "ptrmapslice", "ptrptr"}, er : {"", "drop", "int32", "uint8"}]
  \* a map with a size key that holds nil: the key wins over the entry count, in every representation
  \cup [g : {"mapsz"}, r : {"", "mapslice", "drop", "ptr", "anystrkeys", "ptrmapslice"}]
  \cup [g : {"mapelems"}, r : {"", "array3", "drop"}, e0 : MapElemReprs, e1 : MapElemReprs]
  \cup [g : {"sortkey"}, h0 : {"", "drop", "ptr"}, h1 : {"", "drop"}, h2 : {"", "drop", "ptr"}, ty : {1, 2}]
  \cup [g : {"bytes"}, r : {"", "bytes", "drop", "ptr"}]
  \cup [g : {"ptr"}, r : {"", "ptr", "ptrptr"}, mr : {"", "ptr", "ptrptr"}]
  \cup [g : {"drop"}, bits : IF Full THEN 0..511 ELSE {0, 511} \cup {2^i : i \in 0..8} \cup {511 - 2^i : i \in 0..8}]

Bt(b, i) == (b \div (2^(i - 1))) % 2 = 1
DH(p, b, i) == IF Bt(b, i) THEN (p :> "drop") ELSE <<>>

MemberProg == <<Bit(Cmp("contains", Var(A), Var(X))), Bit(Cmp("contains", Var(A), Lit(IntV(3)))), Bit(Cmp("contains", Var(A), Lit(Flt(1, 1)))), Bar,
                Ob(Fl(Fl(Var(A), "uniq", <<>>), "size", <<>>)), Bar, [t |-> "case", e |-> Ix(Var(A), Lit(IntV(1))), pre |-> <<>>,
                   whens |-> <<[vals |-> <<Var(X)>>, body |-> <<T(<<116>>)>>], [else |-> TRUE, vals |-> <<>>, body |-> <<T(<<101>>)>>]>>]>>
ProgOf(x) ==
  CASE x.g = "member" -> MemberProg
    [] x.g = "seqtext" -> <<SeqTextProbes[x.p]>>
    [] x.g = "nilseq" -> <<NilSeqProbes[x.p]>>
    [] x.g = "shared" -> <<SharedProbes[x.p]>>
    [] x.g \in {"num", "numf"} -> NumProg [] x.g = "flt" -> FltProg [] x.g = "seq" -> SeqProg [] x.g = "strseq" -> StrSeqProg [] x.g = "strws" -> StrWsProg [] x.g = "emptyws" -> EmptyWsProg
    [] x.g = "map" -> MapProg [] x.g = "mapsz" -> MapSzProg [] x.g = "mapelems" -> MapElemsProg [] x.g = "sortkey" -> SortKeyProg [] x.g = "bytes" -> BytesProg [] x.g = "ptr" -> PtrProg [] x.g = "drop" -> DropProg
M1(k, v) == MapV(<< <<k, v>> >>)
EnvOf2(x) ==
  CASE x.g = "member" -> << <<A, Arr(<<IntV(1), IntV(2), IntV(3)>>)>>, <<X, IntV(x.xv)>> >>
    [] x.g = "num" -> << <<X, IntV(NumVals[x.xv])>>, <<Y, IntV(2)>>, <<A, Arr(<<IntV(7), IntV(2)>>)>> >>
    [] x.g = "numf" -> << <<X, IntV(2)>>, <<Y, Flt(2, 1)>>, <<A, Arr(<<IntV(7), IntV(2)>>)>> >>
    [] x.g = "flt" -> << <<X, Flt(5, 2)>> >>
    [] x.g = "seq" -> << <<A, Arr(<<IntV(3), IntV(1), IntV(2)>>)>>, <<<<98>>, Arr(<<IntV(3), IntV(1), IntV(2)>>)>> >>
    [] x.g = "seqtext" -> << <<A, Arr(<<IntV(104), IntV(105)>>)>>, <<<<98>>, Arr(<<IntV(104), IntV(105)>>)>> >>
    [] x.g = "nilseq" -> << <<A, Arr(<<Str(<<120>>), Nil, Str(<<121>>)>>)>> >>
    [] x.g = "shared" -> LET one == Arr(<<IntV(1), IntV(2)>>) IN
                           << <<A, Arr(<<one, one, Arr(<<>>), Arr(<<>>), M1(KK, IntV(1)), M1(KK, IntV(1))>>)>>,
                              <<M, MapV(<< <<<<119>>, M1(KK, IntV(1))>>, <<X, one>>, <<Y, one>>, <<<<122>>, M1(KK, IntV(1))>> >>)>> >>
    [] x.g = "strseq" -> << <<A, Arr(<<Str(<<99>>), Str(<<97>>), Str(<<98>>)>>)>> >>
    [] x.g = "emptyws" -> << <<S0, IF x.k = 1 THEN Str(<<>>) ELSE Nil>> >>
    [] x.g = "strws" -> << <<A, Arr(CASE x.k = 1 -> <<Str(<<97, 32>>), Str(<<32>>)>> [] x.k = 2 -> <<Str(<<32>>), Str(<<32, 98>>)>> [] x.k = 3 -> <<Str(<<32, 10>>), Str(<<9, 32>>)>>)>> >>
    [] x.g = "map" -> << <<M, MapV(<< <<JJ, IntV(4)>>, <<KK, IntV(1)>> >>)>> >>
    [] x.g = "mapsz" -> << <<M, MapV(<< <<KK, IntV(1)>>, <<B_size, Nil>> >>)>> >>
    [] x.g = "mapelems" -> << <<A, Arr(<<MapV(<< <<JJ, IntV(4)>>, <<KK, IntV(2)>> >>), M1(KK, IntV(1)), M1(B_size, IntV(7))>>)>> >>
    [] x.g = "sortkey" ->
         LET kv == IF x.ty = 1 THEN <<Str(<<98>>), Nil, Str(<<97>>), Str(<<99>>)>> ELSE <<IntV(2), Nil, IntV(1), IntV(3)>>
         IN  << <<A, Arr([n \in 1..4 |-> MapV(<< <<JJ, IntV(n)>>, <<KK, kv[n]>> >>)])>> >>
    [] x.g = "bytes" -> << <<S0, Str(<<104, 195, 169, 108, 108, 111>>)>> >>
    [] x.g = "ptr" -> << <<M, M1(PP, Str(<<113>>))>>, <<PP, Str(<<118>>)>> >>
    [] x.g = "drop" -> << <<A, Arr(<<M1(KK, IntV(1)), M1(KK, Str(<<118>>))>>)>>, <<<<102>>, Bool(FALSE)>>, <<<<108>>, Arr(<<Str(<<98>>), Str(<<97>>)>>)>>,
                         <<S0, Str(<<115>>)>>, <<X, IntV(5)>>, <<<<122>>, Nil>> >>
ReprOf(x) ==
  CASE x.g = "member" -> H("a", x.r) @@ H("x", (IntWidths \o FloatWidths)[x.xr])
    [] x.g = "num" -> H("x", IntWidths[x.xr]) @@ H("y", IntWidths[x.yr])
    [] x.g = "numf" -> H("x", IntWidths[x.xr]) @@ H("y", FloatWidths[x.fr])
    [] x.g = "flt" -> IF x.d THEN ("x" :> "drop") ELSE H("x", FloatWidths[x.xr])
    [] x.g = "seq" -> H("a", x.r) @@ (IF x.r \in {"", "array3", "drop", "ptr"} THEN H("a/1", x.er) ELSE <<>>)
                      @@ (IF x.r \in {"ints"} THEN <<>> ELSE H("b", x.r))
    [] x.g = "seqtext" -> H("a", x.r)
    [] x.g = "nilseq" -> H("a", x.r) @@ H("a/1", x.er)
    [] x.g = "shared" -> ("@share" :> "1")
    [] x.g = "emptyws" -> IF x.k = 2 /\ x.r = "bytes" THEN <<>> ELSE H("s", x.r)
    [] x.g = "strws" -> H("a", x.r)
    [] x.g = "strseq" -> H("a", x.r) @@ (IF x.r \in {"", "array3", "drop"} THEN H("a/0", x.er) ELSE <<>>)
    [] x.g = "map" -> H("m", x.r) @@ (IF x.r # "mapint" THEN H("m/k", x.er) ELSE <<>>)
    [] x.g = "mapsz" -> H("m", x.r)
    [] x.g = "mapelems" -> H("a", x.r) @@ H("a/0", x.e0) @@ H("a/1", x.e1) @@ H("a/2", x.e0)
    [] x.g = "sortkey" -> H("a/0/k", x.h0) @@ H("a/1/k", x.h1) @@ H("a/2/k", x.h2) @@ H("a/3/k", x.h0)
    [] x.g = "bytes" -> H("s", x.r)
    [] x.g = "ptr" -> H("p", x.r) @@ H("m/p", x.mr)
    [] x.g = "drop" -> DH("a", x.bits, 1) @@ DH("a/0", x.bits, 2) @@ DH("a/1", x.bits, 3) @@ DH("a/0/k", x.bits, 4) @@ DH("x", x.bits, 5)
                       @@ DH("s", x.bits, 6) @@ DH("f", x.bits, 7) @@ DH("z", x.bits, 8) @@ DH("l/0", x.bits, 9) @@ DH("l/1", x.bits, 9)
\* drop on the elements of an ints-typed slice etc. is not expressible; "seq" with r = "ints" has no element hints

Init == c \in Cases
Next == UNCHANGED vars
Ref == Render(Cx0, ProgOf(c), EnvOf(EnvOf2(c)))
\* the reference decides every family (otherwise the comparison would be vacuous)
ReferenceDecides == c.g \notin {"seqtext", "nilseq", "shared"} => Ref.status = "ok"

EmitCase == PrintT(ToJson([id |-> ToString(c), kind |-> "render", prog |-> ProgOf(c), env |-> EnvOf2(c), repr |-> ReprOf(c), g |-> c.g, cmpown |-> TRUE]))
=============================================================================
