------------------------------- MODULE MC_C10 -------------------------------
(***************************************************************************)
(* C10 - conditional tags render exactly the first truthy branch.          *)
(* Families explored step by step on the render machine:                   *)
(*   chain   if / elsif / elsif (/ else) with every combination of         *)
(*           condition values from a universe that contains every falsy    *)
(*           value and the "looks falsy" truthy ones (0, "", [], {})       *)
(*   dual    if c A else B  vs  unless c B else A, for every c             *)
(*   later   a failing condition after / before the selected branch        *)
(*   case    case subject x when-lists (several values per when), else     *)
(*   nest    two nested ifs, all truth combinations                        *)
(* The terminal output is compared with a declarative definition ("first   *)
(* index whose condition is truthy"), and each case is emitted for replay. *)
(***************************************************************************)
EXTENDS LqRender, Json, TLC

VARIABLES c, st
vars == <<c, st>>

\* condition values (by index, the universe is heterogeneous)
CU == << Nil, Bool(FALSE), Bool(TRUE), IntV(0), Str(<<>>), Arr(<<>>), MapV(<<>>), Str(<<120>>), IntV(1), Flt(0, 1) >>
NCU == Len(CU)
FalsyIdx == {1, 2}

T(s) == [t |-> "text", s |-> s]
Var(n) == [t |-> "var", name |-> n]
Lit(v) == [t |-> "lit", v |-> v]
CN(i) == <<99, 48 + i>>                      \* c1 c2 c3
Mark(i) == <<T(<<64 + i>>)>>                 \* A B C D
\* a clause whose body is empty (emp: which one, 0/absent = none) still takes part in the selection
Emp(x) == IF "emp" \in DOMAIN x THEN x.emp ELSE 0
MarkE(x, i) == IF Emp(x) = i THEN <<>> ELSE Mark(i)
Failing == [t |-> "filter", e |-> Lit(IntV(1)), name |-> "divided_by", args |-> <<Lit(IntV(0))>>]
ElseC == [t |-> "else"]

\* subjects and when-values of the case family
\* (the last three: strings that hold the words and the punctuation of a when-list: "a or b", "a, b", "1 and contains")
SU == << IntV(1), Str(<<97>>), Nil, Flt(1, 1), Bool(TRUE), Arr(<<IntV(1)>>), IntV(2), Str(<<49>>),
         Str(<<97, 32, 111, 114, 32, 98>>), Str(<<97, 44, 32, 98>>), Str(<<49, 32, 97, 110, 100, 32, 99, 111, 110, 116, 97, 105, 110, 115>>) >>
WhenLists == << <<1>>, <<2>>, <<7, 1>>, <<2, 8>>, <<3>>, <<4>>, <<5, 6>>, <<8, 7, 2>>, <<9>>, <<10, 2>>, <<11, 9>> >>   \* indices into SU

\* <>  ==  " and "  !=  >=  " or "  contains  ..  <  "and"  "=> x"
OpLits == << <<60, 62>>, <<61, 61>>, <<32, 97, 110, 100, 32>>, <<33, 61>>, <<62, 61>>, <<32, 111, 114, 32>>, <<99, 111, 110, 116, 97, 105, 110, 115>>,
             <<46, 46>>, <<60>>, <<97, 110, 100>>, <<61, 62, 32, 120>> >>
RECURSIVE DeepV(_, _)
DeepV(d, leaf) == IF d = 0 THEN leaf ELSE Arr(<<DeepV(d - 1, leaf)>>)
Cases ==
  [g : {"chain"}, n : {1}, v1 : 1..NCU, v2 : {1}, v3 : {1}, els : BOOLEAN]
  \cup [g : {"chain"}, n : {2}, v1 : 1..NCU, v2 : 1..NCU, v3 : {1}, els : BOOLEAN]
  \cup [g : {"chain"}, n : {3}, v1 : 1..NCU, v2 : 1..NCU, v3 : 1..NCU, els : BOOLEAN]
  \cup [g : {"chain"}, n : {2}, v1 : {1, 3, 4, 5}, v2 : {1, 3, 4, 5}, v3 : {1}, els : {TRUE}, emp : {1, 2, 4}]
  \cup [g : {"case"}, s : 1..Len(SU), w1 : 1..Len(WhenLists), w2 : 1..Len(WhenLists), els : {TRUE}, emp : {1, 2, 4}]
  \cup [g : {"dual"}, v1 : 1..NCU]
  \* an else that is not the last clause: it is the branch whose condition is always truthy, in its place
  \cup [g : {"midelse"}, a : BOOLEAN, b : BOOLEAN, shape : 1..4]
  \* string literals in conditions that look like operators: they are strings
  \cup [g : {"oplit"}, k : 1..Len(OpLits)]
  \* subject and when-value nested many levels deep, an integer innermost here and the equal float there
  \cup [g : {"deep"}, d : {33, 70}, same : BOOLEAN]
  \* and / or over values reached by a property lookup (m.x, m.y): exactly nil and false count as false, also when
  \* the value sits behind a Drop or a pointer (second emitted variant)
  \cup [g : {"logic"}, v1 : 1..NCU, v2 : {1, 2, 3, 4, 5}, op : {"and", "or"}]
  \* the same compiled conditional evaluated again and again with other values: inside a loop, the subject, the
  \* conditions and the when-values all depend on the loop variable
  \cup [g : {"loop"}, kind : {"case-when-var", "case-subject-var", "if-var", "unless-var", "case-when-prop"}, lo : 0..2, x : 0..3]
  \cup [g : {"later"}, pos : 1..3, sel : 0..3]         \* failing condition at pos; first truthy at sel (0: none)
  \cup [g : {"case"}, s : 1..Len(SU), w1 : 1..Len(WhenLists), w2 : 1..Len(WhenLists), els : BOOLEAN]
  \cup [g : {"nest"}, v1 : 1..NCU, v2 : 1..NCU]
  \* a complete nested block inside a later clause, followed by more content of that clause
  \cup [g : {"tail"}, v1 : {1, 3, 4}, v2 : {2, 3, 5}, inner : {"if", "unless", "for", "case"}, outer : {"if", "case"}]

Branches(x) == [i \in 1..x.n |-> [c |-> Var(CN(i)), body |-> MarkE(x, i)]]
               \o (IF x.els THEN <<[c |-> ElseC, body |-> MarkE(x, 4)]>> ELSE <<>>)

ProgOf(x) ==
  CASE x.g = "chain" -> << [t |-> "if", branches |-> Branches(x)] >>
    [] x.g = "dual" ->
         << [t |-> "if", branches |-> << [c |-> Var(CN(1)), body |-> Mark(1)], [c |-> ElseC, body |-> Mark(2)] >>],
            T(<<124>>),
            [t |-> "if", neg |-> TRUE, branches |-> << [c |-> Var(CN(1)), body |-> Mark(2)], [c |-> ElseC, body |-> Mark(1)] >>] >>
    [] x.g = "midelse" ->
         << [t |-> "if", branches |-> << [c |-> Var(CN(1)), body |-> Mark(1)], [c |-> ElseC, body |-> Mark(2)],
                                         [c |-> (CASE x.shape = 1 -> Var(CN(2)) [] x.shape = 4 -> Failing [] OTHER -> ElseC), body |-> Mark(3)] >>]
            @@ (IF x.shape = 3 THEN [neg |-> TRUE] ELSE <<>>) >>
    [] x.g = "oplit" ->
         LET L == Lit(Str(OpLits[x.k]))
             eq == [t |-> "cmp", op |-> "==", a |-> Var(<<115>>), b |-> L]
         IN  << [t |-> "if", branches |-> <<[c |-> eq, body |-> Mark(1)], [c |-> ElseC, body |-> Mark(2)]>>],
                [t |-> "if", neg |-> TRUE, branches |-> <<[c |-> eq, body |-> Mark(3)], [c |-> ElseC, body |-> Mark(4)]>>],
                [t |-> "if", branches |-> <<[c |-> [t |-> "cmp", op |-> "contains", a |-> Var(<<116>>), b |-> L], body |-> Mark(5)]>>],
                [t |-> "if", branches |-> <<[c |-> Lit(Bool(FALSE)), body |-> Mark(7)], [c |-> [t |-> "cmp", op |-> "==", a |-> L, b |-> Var(<<115>>)], body |-> Mark(6)]>>],
                [t |-> "case", e |-> Var(<<115>>), pre |-> <<>>, whens |-> <<[vals |-> <<L>>, body |-> Mark(8)], [else |-> TRUE, vals |-> <<>>, body |-> Mark(9)]>>] >>
    [] x.g = "deep" ->
         LET eq == [t |-> "cmp", op |-> "==", a |-> Var(<<115>>), b |-> Var(<<119>>)]
         IN  << [t |-> "case", e |-> Var(<<115>>), pre |-> <<>>, whens |-> <<[vals |-> <<Lit(IntV(5)), Var(<<119>>)>>, body |-> Mark(1)], [else |-> TRUE, vals |-> <<>>, body |-> Mark(2)]>>],
                [t |-> "if", branches |-> <<[c |-> eq, body |-> Mark(1)], [c |-> ElseC, body |-> Mark(2)]>>],
                [t |-> "if", neg |-> TRUE, branches |-> <<[c |-> eq, body |-> Mark(2)], [c |-> ElseC, body |-> Mark(1)]>>] >>
    [] x.g = "later" ->
         << [t |-> "if", branches |-> [i \in 1..3 |-> [c |-> IF i = x.pos THEN Failing ELSE Lit(Bool(i = x.sel)), body |-> Mark(i)]]
                                      \o <<[c |-> ElseC, body |-> Mark(4)]>>] >>
    [] x.g = "case" ->
         << [t |-> "case", e |-> Var(<<115>>), pre |-> <<>>,
             whens |-> << [vals |-> [i \in 1..Len(WhenLists[x.w1]) |-> Lit(SU[WhenLists[x.w1][i]])], body |-> MarkE(x, 1)],
                          [vals |-> [i \in 1..Len(WhenLists[x.w2]) |-> Lit(SU[WhenLists[x.w2][i]])], body |-> MarkE(x, 2)] >>
                          \o (IF x.els THEN <<[else |-> TRUE, vals |-> <<>>, body |-> MarkE(x, 4)]>> ELSE <<>>)] >>
    [] x.g = "logic" ->
         LET mx == [t |-> "prop", e |-> Var(<<109>>), name |-> <<120>>]
             my == [t |-> "prop", e |-> Var(<<109>>), name |-> <<121>>]
         IN  << [t |-> "if", branches |-> <<[c |-> [t |-> x.op, a |-> mx, b |-> my], body |-> Mark(1)], [c |-> ElseC, body |-> Mark(2)]>>],
                [t |-> "if", neg |-> TRUE, branches |-> <<[c |-> [t |-> x.op, a |-> my, b |-> mx], body |-> Mark(2)], [c |-> ElseC, body |-> Mark(1)]>>],
                [t |-> "if", branches |-> <<[c |-> mx, body |-> Mark(3)]>>] >>
    [] x.g = "loop" ->
         LET I == <<105>>
             XV == <<120>>
             inner ==
               CASE x.kind = "case-when-var" ->       \* case x / when i -> A / else -> B
                      [t |-> "case", e |-> Var(XV), pre |-> <<>>, whens |-> <<[vals |-> <<Var(I)>>, body |-> Mark(1)], [else |-> TRUE, vals |-> <<>>, body |-> Mark(2)]>>]
                 [] x.kind = "case-subject-var" ->    \* case i / when x, 9 -> A / when 1 -> C / else -> B
                      [t |-> "case", e |-> Var(I), pre |-> <<>>, whens |-> <<[vals |-> <<Var(XV), Lit(IntV(9))>>, body |-> Mark(1)],
                                                                             [vals |-> <<Lit(IntV(1))>>, body |-> Mark(3)],
                                                                             [else |-> TRUE, vals |-> <<>>, body |-> Mark(2)]>>]
                 [] x.kind = "case-when-prop" ->      \* case x / when forloop.index0 -> A / else -> B
                      [t |-> "case", e |-> Var(XV), pre |-> <<>>, whens |-> <<[vals |-> <<[t |-> "prop", e |-> Var(B_forloop), name |-> B_index0]>>, body |-> Mark(1)],
                                                                              [else |-> TRUE, vals |-> <<>>, body |-> Mark(2)]>>]
                 [] x.kind = "if-var" ->
                      [t |-> "if", branches |-> <<[c |-> [t |-> "cmp", op |-> "==", a |-> Var(I), b |-> Var(XV)], body |-> Mark(1)], [c |-> ElseC, body |-> Mark(2)]>>]
                 [] x.kind = "unless-var" ->
                      [t |-> "if", neg |-> TRUE, branches |-> <<[c |-> [t |-> "cmp", op |-> "==", a |-> Var(I), b |-> Var(XV)], body |-> Mark(1)], [c |-> ElseC, body |-> Mark(2)]>>]
         IN  << [t |-> "for", tag |-> "for", var |-> I, coll |-> [t |-> "range", a |-> Lit(IntV(x.lo)), b |-> Lit(IntV(x.lo + 2))], body |-> <<inner>>] >>
    [] x.g = "tail" ->
         LET innerNode ==
               CASE x.inner = "if" -> [t |-> "if", branches |-> <<[c |-> Var(CN(2)), body |-> Mark(3)]>>]
                 [] x.inner = "unless" -> [t |-> "if", neg |-> TRUE, branches |-> <<[c |-> Var(CN(2)), body |-> Mark(3)]>>]
                 [] x.inner = "for" -> [t |-> "for", tag |-> "for", var |-> <<105>>, coll |-> [t |-> "range", a |-> Lit(IntV(1)), b |-> Lit(IntV(2))], body |-> Mark(3)]
                 [] x.inner = "case" -> [t |-> "case", e |-> Var(CN(2)), pre |-> <<>>, whens |-> <<[vals |-> <<Lit(Bool(TRUE))>>, body |-> Mark(3)]>>]
             later == <<T(<<60>>), innerNode, T(<<62>>)>>
         IN  IF x.outer = "if"
             THEN << [t |-> "if", branches |-> <<[c |-> Var(CN(1)), body |-> Mark(1)], [c |-> ElseC, body |-> later]>>] >>
             ELSE << [t |-> "case", e |-> Var(CN(1)), pre |-> <<>>,
                      whens |-> <<[vals |-> <<Lit(Bool(TRUE))>>, body |-> Mark(1)], [else |-> TRUE, vals |-> <<>>, body |-> later]>>] >>
    [] x.g = "nest" ->
         << [t |-> "if", branches |-> <<
               [c |-> Var(CN(1)), body |-> << T(<<60>>),
                                              [t |-> "if", branches |-> << [c |-> Var(CN(2)), body |-> Mark(1)], [c |-> ElseC, body |-> Mark(2)] >>],
                                              T(<<62>>) >>],
               [c |-> ElseC, body |-> << [t |-> "if", neg |-> TRUE, branches |-> << [c |-> Var(CN(2)), body |-> Mark(3)] >>] >>] >>] >>

EnvOf2(x) ==
  CASE x.g = "chain" -> << <<CN(1), CU[x.v1]>>, <<CN(2), CU[x.v2]>>, <<CN(3), CU[x.v3]>> >>
    [] x.g = "dual" -> << <<CN(1), CU[x.v1]>> >>
    [] x.g = "later" -> <<>>
    [] x.g = "midelse" -> << <<CN(1), Bool(x.a)>>, <<CN(2), Bool(x.b)>> >>
    [] x.g = "deep" -> << <<<<115>>, DeepV(x.d, IntV(1))>>, <<<<119>>, DeepV(x.d, IF x.same THEN Flt(1, 1) ELSE IntV(2))>> >>
    [] x.g = "oplit" -> << <<<<115>>, Str(OpLits[x.k])>>, <<<<116>>, Str(<<97>> \o OpLits[x.k] \o <<98>>)>> >>
    [] x.g = "loop" -> << <<<<120>>, IntV(x.x)>> >>
    [] x.g = "logic" -> << <<<<109>>, MapV(<< <<<<120>>, CU[x.v1]>>, <<<<121>>, CU[x.v2]>> >>)>> >>
    [] x.g = "case" -> << <<<<115>>, SU[x.s]>> >>
    [] x.g \in {"nest", "tail"} -> << <<CN(1), CU[x.v1]>>, <<CN(2), CU[x.v2]>> >>

\* ------------------------------------------------ declarative expectation
Tr(i) == i \notin FalsyIdx
FirstTrue(vs) == IF \E i \in 1..Len(vs) : Tr(vs[i]) THEN CHOOSE i \in 1..Len(vs) : Tr(vs[i]) /\ \A j \in 1..(i - 1) : ~Tr(vs[j]) ELSE 0
M(i) == <<64 + i>>
ME(x, i) == IF Emp(x) = i THEN <<>> ELSE M(i)
\* does when-list w match subject s (by ==)?
WMatch(w, s) == \E i \in 1..Len(WhenLists[w]) : Eq3(SU[s], SU[WhenLists[w][i]]) = "t"

Decl(x) ==   \* [status, out]
  CASE x.g = "chain" ->
         LET vs == SubSeq(<<x.v1, x.v2, x.v3>>, 1, x.n) f == FirstTrue(vs)
         IN  [status |-> "ok", out |-> IF f > 0 THEN ME(x, f) ELSE IF x.els THEN ME(x, 4) ELSE <<>>]
    [] x.g = "dual" -> [status |-> "ok", out |-> IF Tr(x.v1) THEN <<65, 124, 65>> ELSE <<66, 124, 66>>]
    [] x.g = "deep" -> [status |-> "ok", out |-> IF x.same THEN M(1) \o M(1) \o M(1) ELSE M(2) \o M(2) \o M(2)]
    [] x.g = "oplit" -> [status |-> "ok", out |-> M(1) \o M(4) \o M(5) \o M(6) \o M(8)]
    [] x.g = "midelse" -> [status |-> "ok", out |-> IF (x.a /\ x.shape # 3) \/ (~x.a /\ x.shape = 3) THEN M(1) ELSE M(2)]
    [] x.g = "later" ->
         \* conditions are evaluated in order until one is truthy: the failing one is reached
         \* iff no earlier condition is selected
         IF x.sel # 0 /\ x.sel < x.pos THEN [status |-> "ok", out |-> M(x.sel)]
         ELSE [status |-> "error", out |-> <<>>]
    [] x.g = "case" ->
         [status |-> "ok", out |-> IF WMatch(x.w1, x.s) THEN ME(x, 1) ELSE IF WMatch(x.w2, x.s) THEN ME(x, 2)
                                   ELSE IF x.els THEN ME(x, 4) ELSE <<>>]
    [] x.g = "logic" ->
         LET r == IF x.op = "and" THEN Tr(x.v1) /\ Tr(x.v2) ELSE Tr(x.v1) \/ Tr(x.v2)
         IN  [status |-> "ok", out |-> (IF r THEN M(1) \o M(1) ELSE M(2) \o M(2)) \o (IF Tr(x.v1) THEN M(3) ELSE <<>>)]
    [] x.g = "loop" ->
         LET hit(i) == CASE x.kind = "case-when-prop" -> x.x = i - x.lo       \* forloop.index0
                         [] OTHER -> i = x.x
             one(i) == CASE x.kind = "unless-var" -> IF hit(i) THEN M(2) ELSE M(1)
                         [] x.kind = "case-subject-var" -> IF hit(i) \/ i = 9 THEN M(1) ELSE IF i = 1 THEN M(3) ELSE M(2)
                         [] OTHER -> IF hit(i) THEN M(1) ELSE M(2)
         IN  [status |-> "ok", out |-> one(x.lo) \o one(x.lo + 1) \o one(x.lo + 2)]
    [] x.g = "tail" ->
         LET first == IF x.outer = "if" THEN Tr(x.v1) ELSE x.v1 = 3           \* case: subject == true
             innerOut == CASE x.inner = "if" -> IF Tr(x.v2) THEN M(3) ELSE <<>>
                           [] x.inner = "unless" -> IF Tr(x.v2) THEN <<>> ELSE M(3)
                           [] x.inner = "for" -> M(3) \o M(3)
                           [] x.inner = "case" -> IF x.v2 = 3 THEN M(3) ELSE <<>>
         IN  [status |-> "ok", out |-> IF first THEN M(1) ELSE <<60>> \o innerOut \o <<62>>]
    [] x.g = "nest" ->
         [status |-> "ok", out |-> IF Tr(x.v1) THEN <<60>> \o (IF Tr(x.v2) THEN M(1) ELSE M(2)) \o <<62>>
                                   ELSE IF Tr(x.v2) THEN <<>> ELSE M(3)]

Init == \E x \in Cases : c = x /\ st = InitSt(ProgOf(x), EnvOf(EnvOf2(x)), Sink0, Cx0)
Next == st.status = "run" /\ st' = Step(Cx0, st) /\ c' = c

\* ------------------------------------------------------------ invariants
Decided == st.status \in {"run", "ok", "error"}
OutputLaw == st.status # "run" => st.status = Decl(c).status /\ (st.status = "ok" => st.sink.acc = Decl(c).out)
\* at most one branch body of any one conditional is ever on the stack, and
\* nothing is written except by the selected branches
OneBranchAtATime == Cardinality({j \in 1..Len(st.k) : st.k[j].f = "seq" /\ st.k[j].end = "block"}) <= 2
OutputIsPrefix == st.status = "run" /\ Decl(c).status = "ok" =>
                    IsPrefixOf(st.sink.acc \o Top(st.ws).buf, Decl(c).out)
\* if c then A else B  ==  unless c then B else A   (checked on the reference for every value)
IfUnlessDual == c.g = "dual" /\ st.status = "ok" =>
                  LET o == st.sink.acc IN Len(o) = 3 /\ o[1] = o[3]

IdOf(x) ==
  CASE x.g = "chain" -> "chain-" \o ToString(x.n) \o "-" \o ToString(x.v1) \o "-" \o ToString(x.v2) \o "-" \o ToString(x.v3) \o "-" \o ToString(x.els) \o "-e" \o ToString(Emp(x))
    [] x.g = "dual" -> "dual-" \o ToString(x.v1)
    [] x.g = "deep" -> "deep-" \o ToString(x.d) \o "-" \o ToString(x.same)
    [] x.g = "oplit" -> "oplit-" \o ToString(x.k)
    [] x.g = "midelse" -> "midelse-" \o ToString(x.a) \o "-" \o ToString(x.b) \o "-" \o ToString(x.shape)
    [] x.g = "later" -> "later-" \o ToString(x.pos) \o "-" \o ToString(x.sel)
    [] x.g = "case" -> "case-" \o ToString(x.s) \o "-" \o ToString(x.w1) \o "-" \o ToString(x.w2) \o "-" \o ToString(x.els) \o "-e" \o ToString(Emp(x))
    [] x.g = "logic" -> "logic-" \o x.op \o "-" \o ToString(x.v1) \o "-" \o ToString(x.v2)
    [] x.g = "loop" -> "loop-" \o x.kind \o "-" \o ToString(x.lo) \o "-" \o ToString(x.x)
    [] x.g = "tail" -> "tail-" \o ToString(x.v1) \o "-" \o ToString(x.v2) \o "-" \o x.inner \o "-" \o x.outer
    [] x.g = "nest" -> "nest-" \o ToString(x.v1) \o "-" \o ToString(x.v2)
\* the condition values in other Go representations: an empty array as a nil slice, an empty map as a nil map, nil as a
\* nil pointer, the rest behind a Drop or a pointer - truthiness is a matter of the Liquid value
CondRepr(v) == CASE v.k = "arr" -> "nilslice" [] v.k = "map" -> "nilmap" [] v.k = "nil" -> "nilptr" [] v.k = "bool" -> "ptr" [] OTHER -> "drop"
EmitCase == st.status # "run" =>
              /\ PrintT(ToJson([id |-> IdOf(c), kind |-> "render", prog |-> ProgOf(c), env |-> EnvOf2(c)]))
              /\ (c.g = "logic") =>
                   PrintT(ToJson([id |-> "rep-" \o IdOf(c), kind |-> "render", prog |-> ProgOf(c), env |-> EnvOf2(c),
                                  repr |-> ("m/x" :> (IF CU[c.v1].k \in {"arr", "map"} THEN CondRepr(CU[c.v1]) ELSE "drop"))
                                           @@ ("m/y" :> <<"drop", "ptr", "drop", "dropdrop", "drop">>[c.v2])]))
              /\ (c.g \in {"dual", "nest"} \/ (c.g = "chain" /\ c.n = 1 /\ Emp(c) = 0)) =>
                   PrintT(ToJson([id |-> "rep-" \o IdOf(c), kind |-> "render", prog |-> ProgOf(c), env |-> EnvOf2(c),
                                  repr |-> ("c1" :> CondRepr(CU[c.v1])) @@ (IF c.g = "nest" THEN ("c2" :> CondRepr(CU[c.v2])) ELSE <<>>)]))
=============================================================================
