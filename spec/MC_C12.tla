------------------------------- MODULE MC_C12 -------------------------------
(***************************************************************************)
(* C12 - assign / capture bind for the rest of the render; loop variables  *)
(* are restored.  Every program of up to N statements over a pool of nine  *)
(* statements (assign, capture, shadowing loops, loop with break, assign   *)
(* inside a loop and inside an if, capture containing a loop, probe) is    *)
(* run on the render machine step by step and compared with a declarative  *)
(* store semantics written without frames or stacks.  For every program    *)
(* the capture law is checked on the reference: wrapping the program in    *)
(* capture and printing the captured variable renders the same.            *)
(***************************************************************************)
EXTENDS LqRender, Json, TLC

CONSTANT N
VARIABLES p, st
vars == <<p, st>>

X == <<120, 45, 49>>        \* x-1 : names may hold hyphens ...
Y == <<121, 63>>            \* y?  : ... and end in a question mark
W == <<119>>
T(s) == [t |-> "text", s |-> s]
Var(n) == [t |-> "var", name |-> n]
Lit(v) == [t |-> "lit", v |-> v]
Ob(e) == [t |-> "obj", e |-> e]
R12 == [t |-> "range", a |-> Lit(IntV(1)), b |-> Lit(IntV(2))]
FLI == Ob([t |-> "prop", e |-> Var(B_forloop), name |-> B_index])

INC == <<105, 46, 108, 105, 113>>                       \* i.liq, in the engine's cache
IncBody == <<T(<<60>>), Ob(Var(X)), T(<<44>>), Ob(Var(Y)), T(<<62>>)>>
Inc == [t |-> "include", e |-> Lit(Str(INC))]
TopPath == <<116, 46, 108, 105, 113>>
\* (perm: the order a loop walks the two entries of the map m in - here the order of the keys; the trace checker accepts either)
Cx12 == [Cx0 EXCEPT !.path = TopPath, !.cache = << <<INC, IncBody>> >>, !.perm = <<1, 2>>]
M12 == <<109>>
E12 == << <<M12, MapV(<< <<<<97>>, IntV(1)>>, <<<<98>>, IntV(2)>> >>)>> >>
Stmts == <<
  (* 1 *) <<[t |-> "assign", name |-> X, e |-> Lit(IntV(1))]>>,
  (* 2 *) <<[t |-> "assign", name |-> X, e |-> Lit(Str(<<115>>))]>>,
  (* 3 *) <<[t |-> "capture", name |-> X, body |-> <<T(<<99>>), Ob(Var(Y))>>]>>,
  (* 4 *) <<[t |-> "for", tag |-> "for", var |-> X, coll |-> R12, body |-> <<T(<<91>>), Ob(Var(X)), FLI, T(<<93>>)>>]>>,
  (* 5 *) <<[t |-> "for", tag |-> "for", var |-> Y, coll |-> R12,
             body |-> <<[t |-> "if", branches |-> <<[c |-> [t |-> "cmp", op |-> "==", a |-> Var(Y), b |-> Lit(IntV(1))], body |-> <<[t |-> "break"]>>]>>],
                        T(<<33>>)>>]>>,
  (* 6: the probe - also what KIND of value x is (a captured variable holds text, whatever its body was) *)
          <<Ob(Var(X)), T(<<124>>), Ob(Var(Y)), T(<<124>>), FLI, Ob(Var(B_forloop)), T(<<35>>), Ob([t |-> "prop", e |-> Var(X), name |-> B_size]),
            [t |-> "if", branches |-> <<[c |-> Var(X), body |-> <<T(<<116>>)>>], [c |-> [t |-> "else"], body |-> <<T(<<102>>)>>]>>], T(<<59>>)>>,
  (* 7 *) <<[t |-> "if", branches |-> <<[c |-> Var(X), body |-> <<[t |-> "assign", name |-> Y, e |-> Lit(IntV(2))]>>]>>]>>,
  (* 8 *) <<[t |-> "for", tag |-> "for", var |-> X, coll |-> R12, body |-> <<[t |-> "assign", name |-> Y, e |-> Var(X)]>>]>>,
  (* 9 *) <<[t |-> "capture", name |-> Y, body |-> <<[t |-> "for", tag |-> "for", var |-> X, coll |-> R12, body |-> <<Ob(Var(X))>>]>>]>>,
  (* 10: a variable that happens to be called forloop is an ordinary variable outside loops *)
          <<[t |-> "assign", name |-> B_forloop, e |-> Lit(Str(<<102>>))]>>,
  (* 11: the loop record assigned in the first iteration holds the values of that iteration afterwards *)
          <<[t |-> "for", tag |-> "for", var |-> X, coll |-> R12,
             body |-> <<[t |-> "if", branches |-> <<[c |-> [t |-> "prop", e |-> Var(B_forloop), name |-> B_first],
                                                     body |-> <<[t |-> "assign", name |-> <<102>>, e |-> Var(B_forloop)]>>]>>]>>],
            Ob([t |-> "prop", e |-> Var(<<102>>), name |-> B_index]), Ob([t |-> "prop", e |-> Var(<<102>>), name |-> B_last]),
            Ob([t |-> "prop", e |-> Var(<<102>>), name |-> B_rindex]), T(<<59>>)>>,
  (* 12: what is assigned or captured inside a capture body stays assigned after it *)
          <<[t |-> "capture", name |-> X, body |-> <<[t |-> "assign", name |-> Y, e |-> Lit(IntV(7))], T(<<99>>), Ob(Var(Y)),
                                                     [t |-> "capture", name |-> <<122>>, body |-> <<T(<<105>>)>>]>>], Ob(Var(<<122>>))>>,
  (* 13: ... also from inside a conditional or a loop inside the capture body *)
          <<[t |-> "capture", name |-> <<122>>, body |->
               <<[t |-> "for", tag |-> "for", var |-> <<105>>, coll |-> R12, body |->
                    <<[t |-> "if", branches |-> <<[c |-> [t |-> "prop", e |-> Var(B_forloop), name |-> B_last],
                                                   body |-> <<[t |-> "assign", name |-> Y, e |-> Var(<<105>>)]>>]>>]>>]>>]>>,
  (* 14: an included template sees the variables as they are when it is included - in every iteration of a loop anew *)
          <<[t |-> "for", tag |-> "for", var |-> X, coll |-> R12, body |-> <<[t |-> "assign", name |-> Y, e |-> Var(X)], Inc>>]>>,
  (* 15: ... and in straight-line code (with 14, or twice: several include tags of the same file in one template) *)
          <<Inc>>,
  (* 16: a capture whose body is one object and nothing else: the variable holds the TEXT the object printed *)
          <<[t |-> "capture", name |-> X, body |-> <<Ob(Var(Y))>>]>>,
  (* 17: the pair a loop over a map hands out in its first iteration, assigned: it is still that pair after the loop *)
          <<[t |-> "for", tag |-> "for", var |-> X, coll |-> Var(M12),
             body |-> <<[t |-> "if", branches |-> <<[c |-> [t |-> "prop", e |-> Var(B_forloop), name |-> B_first],
                                                     body |-> <<[t |-> "assign", name |-> Y, e |-> Var(X)]>>]>>], Ob(Var(X)), T(<<59>>)>>]>>
>>
NS == Len(Stmts)

RECURSIVE SeqsOfLen(_, _)
SeqsOfLen(n, m) == IF n = 0 THEN {<<>>} ELSE {<<i>> \o t : i \in 1..m, t \in SeqsOfLen(n - 1, m)}
Programs == UNION {SeqsOfLen(n, NS) : n \in 0..N}

Probe == Stmts[6]
ProgOf(ix) == Flatten([i \in 1..Len(ix) |-> Stmts[ix[i]]]) \o Probe
Wrapped(ix) == <<[t |-> "capture", name |-> W, body |-> ProgOf(ix)], Ob(Var(W))>>

\* --------------------------------------------------- declarative semantics
\* store [x, y, out]; texts of values via ToText
Tx(v) == ToText(v).s
RECURSIVE Decl(_, _)
Decl(ix, s) ==
  IF ix = <<>> THEN s
  ELSE LET i == Head(ix)
           s2 == CASE i = 1 -> [s EXCEPT !.x = IntV(1)]
                   [] i = 2 -> [s EXCEPT !.x = Str(<<115>>)]
                   [] i = 3 -> [s EXCEPT !.x = Str(<<99>> \o Tx(s.y))]
                   [] i = 4 -> [s EXCEPT !.out = @ \o <<91, 49, 49, 93, 91, 50, 50, 93>>]
                   [] i = 5 -> s
                   [] i = 6 -> [s EXCEPT !.out = @ \o Tx(s.x) \o <<124>> \o Tx(s.y) \o <<124>> \o Tx(s.fl) \o <<35>>
                                                    \o (IF s.x.k = "str" THEN IntText(Len(s.x.v)) ELSE <<>>) \o (IF Truthy(s.x) THEN <<116>> ELSE <<102>>) \o <<59>>]
                   [] i = 16 -> [s EXCEPT !.x = Str(Tx(s.y))]
                   [] i = 17 -> [s EXCEPT !.y = Arr(<<Str(<<97>>), IntV(1)>>), !.out = @ \o <<97, 49, 59, 98, 50, 59>>]
                   [] i = 7 -> IF Truthy(s.x) THEN [s EXCEPT !.y = IntV(2)] ELSE s
                   [] i = 8 -> [s EXCEPT !.y = IntV(2)]
                   [] i = 9 -> [s EXCEPT !.y = Str(<<49, 50>>)]
                   [] i = 10 -> [s EXCEPT !.fl = Str(<<102>>)]
                   [] i = 11 -> [s EXCEPT !.out = @ \o <<49>> \o <<102, 97, 108, 115, 101>> \o <<50, 59>>]       \* 1 false 2 ;
                   [] i = 12 -> [s EXCEPT !.x = Str(<<99, 55>>), !.y = IntV(7), !.out = @ \o <<105>>]
                   [] i = 13 -> [s EXCEPT !.y = IntV(2)]
                   [] i = 14 -> [s EXCEPT !.y = IntV(2), !.out = @ \o <<60, 49, 44, 49, 62, 60, 50, 44, 50, 62>>]
                   [] i = 15 -> [s EXCEPT !.out = @ \o <<60>> \o Tx(s.x) \o <<44>> \o Tx(s.y) \o <<62>>]
       IN  Decl(Tail(ix), s2)
DeclOut(ix) == Decl(ix \o <<6>>, [x |-> Nil, y |-> Nil, fl |-> Nil, out |-> <<>>]).out

Init == \E ix \in Programs : p = ix /\ st = InitSt(ProgOf(ix), EnvOf(E12), Sink0, Cx12)
Next == st.status = "run" /\ st' = Step(Cx12, st) /\ p' = p

Terminates == st.status \in {"run", "ok"}
OutputLaw == st.status = "ok" => st.sink.acc = DeclOut(p)
\* forloop is nil whenever no loop is running (restored, also after break)
LoopFrames == {j \in 1..Len(st.k) : st.k[j].f = "loop"}
ForloopRestored == LoopFrames = {} => (IsNil(Lookup(st.env, B_forloop)) \/ Same(Lookup(st.env, B_forloop), Str(<<102>>)))
\* captured text is not output: no step taken while a capture is open changes what the sink has accepted
InCapture(s) == \E j \in 1..Len(s.k) : s.k[j].f = "seq" /\ s.k[j].end = "capture"
CaptureSilent == [][(InCapture(st) /\ InCapture(st')) => st'.sink = st.sink]_vars
\* wrapping the program in capture and printing the variable renders the same
CaptureLaw == st.status = "ok" => Render(Cx12, Wrapped(p), EnvOf(E12)).out = st.sink.acc

IdOf(ix) == "p" \o ToString(ix)
Where == [path |-> TopPath, usedir |-> TRUE, cache |-> << <<INC, IncBody>> >>] @@ (IF \E k \in 1..Len(p) : p[k] = 17 THEN [anyorder |-> 2] ELSE <<>>)
EmitCase == st.status # "run" =>
              /\ PrintT(ToJson([id |-> IdOf(p), kind |-> "render", prog |-> ProgOf(p), env |-> E12] @@ Where))
              /\ PrintT(ToJson([id |-> "w" \o IdOf(p), kind |-> "render", prog |-> Wrapped(p), env |-> E12] @@ Where))
              \* the same program over outer bindings of the names the loops shadow, held as Drops; the harness puts
              \* its probe tag around every loop: after the loop the name is bound to the very value it was bound to before
              /\ PrintT(ToJson([id |-> "e" \o IdOf(p), kind |-> "render", prog |-> ProgOf(p), snaploops |-> TRUE,
                                env |-> << <<X, IntV(5)>>, <<Y, Str(<<113>>)>> >> \o E12, repr |-> ("x-1" :> "drop") @@ ("y?" :> "drop")] @@ Where))
=============================================================================
