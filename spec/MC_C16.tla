------------------------------- MODULE MC_C16 -------------------------------
(***************************************************************************)
(* C16 - string filters on every string.                                   *)
(* TLC enumerates every string up to N characters over an alphabet chosen  *)
(* around what the code branches on (ASCII letter of each case, space,     *)
(* newline, a 2-byte and a 4-byte character, the HTML and URL specials),   *)
(* times every string-filter call of a bounded argument grid.  For each    *)
(* (string, call) it checks the algebraic laws of the statement on the     *)
(* reference semantics (LqFilters) and emits the probe program             *)
(*     {{ s | f: args }}#{{ s }}                                           *)
(* for replay against the implementation.                                  *)
(***************************************************************************)
EXTENDS LqRender, Json, TLC

CONSTANTS N,       \* longest receiver, in characters
          Wide     \* TRUE: the full alphabet

VARIABLES s, call
vars == <<s, call>>

\* a B space newline e-acute grinning-face < & % ' + "
\* ... dotless-i long-s turned-a (letters whose other case is encoded in another number of bytes)
AlphaWide == { <<97>>, <<66>>, <<32>>, <<10>>, <<195, 169>>, <<240, 159, 152, 128>>, <<60>>, <<62>>, <<38>>, <<37>>, <<39>>, <<43>>, <<34>>,
               <<196, 177>>, <<197, 191>>, <<201, 144>>,
               \* the characters just outside the two ASCII letter ranges: @ [ ` {
               <<64>>, <<91>>, <<96>>, <<123>> }
AlphaCore == { <<97>>, <<66>>, <<32>>, <<195, 169>>, <<60>>, <<38>> }
Alpha == IF Wide THEN AlphaWide ELSE AlphaCore

RECURSIVE StrsOfLen(_)
StrsOfLen(n) == IF n = 0 THEN {<<>>} ELSE {c \o t : c \in Alpha, t \in StrsOfLen(n - 1)}
Strs == UNION {StrsOfLen(n) : n \in 0..N}

ArgStrs == { <<>>, <<97>>, <<32>>, <<66, 97>>, <<195, 169>>, <<38>>, <<97, 97>> }
NoArg == {"upcase", "downcase", "capitalize", "strip", "lstrip", "rstrip", "strip_newlines", "newline_to_br", "strip_html",
          "escape", "escape_once", "url_encode", "url_decode", "size"}
\* chains of two argument-less filters (the second sees the output of the first: escape then escape_once, ...)
Chains == [name : NoArg \ {"size"}, args : {<<>>}, then : NoArg]
Calls ==
  (IF N <= 2 THEN Chains ELSE {}) \cup
  [name : NoArg, args : {<<>>}]
  \cup [name : {"append", "prepend", "remove", "remove_first", "split"}, args : {<<Str(a)>> : a \in ArgStrs}]
  \cup [name : {"replace", "replace_first"}, args : {<<Str(a), Str(b)>> : a \in {<<97>>, <<32>>, <<195, 169>>, <<97, 97>>}, b \in {<<>>, <<66>>, <<97, 97>>}}]
  \cup [name : {"slice"}, args : {<<IntV(i)>> : i \in (0 - 3)..(N + 1)} \cup {<<IntV(i), IntV(l)>> : i \in (0 - 3)..(N + 1), l \in 0..3}]
  \cup [name : {"truncate"}, args : {<<IntV(i)>> : i \in 0..(N + 1)}
                                   \cup {<<IntV(i), Str(e)>> : i \in 0..(N + 1), e \in {<<>>, <<97, 98>>, <<46>>, <<195, 169>>, <<226, 128, 166>>, <<97, 195, 169>>}}]
  \cup [name : {"truncatewords"}, args : {<<IntV(i)>> : i \in 1..3} \cup {<<IntV(i), Str(<<33>>)>> : i \in 1..2}]

\* a few longer receivers for the filters that cut: room for every length argument and for the ellipsis
LongStrs == { <<97, 98, 99, 100, 101, 102>>, <<97, 195, 169, 98, 240, 159, 152, 128, 99, 100>>, <<97, 32, 98, 98, 32, 99, 32, 100>> }
\* ... and for the filters that search: runs of a character that a two-character separator / pattern overlaps itself on
RunStrs == { <<120, 97, 97, 97>>, <<97, 97, 97>>, <<97, 97, 97, 97, 120>>, <<66, 97, 66, 97, 66, 97>>, <<97, 32, 32, 32, 98>> }
Init == call \in Calls /\ s \in Strs \cup (IF call.name \in {"truncate", "slice", "truncatewords"} /\ "then" \notin DOMAIN call THEN LongStrs ELSE {})
                                     \cup (IF call.name \in {"split", "remove", "remove_first", "replace", "replace_first"} THEN RunStrs ELSE {})
Next == UNCHANGED vars

R1 == Filter(call.name, Str(s), call.args)
R == IF "then" \in DOMAIN call /\ R1.r = "val" THEN Filter(call.then, R1.v, <<>>) ELSE R1
Dec == R.r = "val" /\ ~IsUnspec(R.v)
Single == "then" \notin DOMAIN call
App(name, x, args) == Filter(name, Str(x), args)

\* ------------------------------------------------------------------ laws
Utf8Preserved == (Single /\ Dec /\ R.v.k = "str" /\ ValidUtf8(s) /\ call.name # "url_decode") => ValidUtf8(R.v.v)
NeverLengthens == (Single /\ Dec /\ call.name \in {"slice", "truncate", "strip", "lstrip", "rstrip", "remove", "remove_first"})
                  => CharCount(R.v.v) <= CharCount(s)
FitsUnchanged == (Single /\ Dec /\ call.name = "truncate" /\ CharCount(s) <= call.args[1].v) => R.v.v = s
FitsUnchangedWords == (Single /\ Dec /\ call.name = "truncatewords" /\ WordCount(s) <= call.args[1].v) => R.v.v = s
EscapeLeavesNoSpecials == (Single /\ Dec /\ call.name \in {"escape", "escape_once"}) => ~HasRawSpecial(R.v.v)
EscapedIsFixedPoint == (Dec /\ call.name = "escape" /\ "then" \in DOMAIN call /\ call.then = "escape_once") => R = R1
EscapeOnceIdempotent == (Dec /\ call.name = "escape_once" /\ "then" \notin DOMAIN call) =>
                          LET again == App("escape_once", R.v.v, <<>>) IN again.r = "val" => (IsUnspec(again.v) \/ again.v.v = R.v.v)
StripHtmlLaw == (Single /\ call.name = "strip_html" /\ Dec) =>
                  /\ Len(R.v.v) <= Len(s) /\ App("strip_html", R.v.v, <<>>) = R
                  /\ (\A i \in 1..Len(s) : s[i] \notin {60, 62}) => R.v.v = s
UrlRoundTrip == (Single /\ call.name = "url_encode" /\ Dec) => App("url_decode", R.v.v, <<>>) = FVal(Str(s))
StripIsBoth == (Single /\ call.name = "strip" /\ Dec) => R.v.v = LStrip(RStrip(s)) /\ R.v.v = RStrip(LStrip(s))
\* (dotless i and long s have no way back: their capitals are the plain I and S)
OneWay == \E i \in 1..Len(Chars(s)) : Chars(s)[i] \in {DotlessI, LongS}
CaseLaws == (Single /\ call.name = "upcase" /\ Dec) =>
               /\ App("upcase", R.v.v, <<>>) = R
               /\ (~OneWay => App("downcase", R.v.v, <<>>) = App("downcase", s, <<>>))
SizeCountsChars == (Single /\ call.name = "size" /\ Dec) => R.v = IntV(Len(Chars(s)))
SplitJoinInverse ==
  (call.name = "split" /\ Dec /\ call.args[1].v # <<>> /\ call.args[1].v # <<32>>) =>
     LET pieces == [i \in 1..Len(R.v.v) |-> R.v.v[i].v]
         sep == call.args[1].v
     IN  \* joining the pieces gives back s up to the trailing separators that split drops
         IsPrefixOf(JoinWith(pieces, sep), s)
         /\ (\A i \in 1..Len(pieces) : ~HasSub(pieces[i], sep))
AppendPrepend == (Single /\ call.name = "append" /\ Dec) => R.v.v = s \o call.args[1].v
RemoveIsReplaceEmpty == (Single /\ call.name = "remove" /\ Dec) => R = App("replace", s, <<call.args[1], Str(<<>>)>>)

S0 == <<115>>
ArgExprs == [i \in 1..Len(call.args) |-> [t |-> "lit", v |-> call.args[i]]]
ListResult == call.name = "split"
Prog ==
  IF ListResult
  THEN << [t |-> "assign", name |-> <<114>>, e |-> [t |-> "filter", e |-> [t |-> "var", name |-> S0], name |-> call.name, args |-> ArgExprs]],
          [t |-> "for", tag |-> "for", var |-> <<120>>, coll |-> [t |-> "var", name |-> <<114>>],
           body |-> <<[t |-> "text", s |-> <<91>>], [t |-> "obj", e |-> [t |-> "var", name |-> <<120>>]], [t |-> "text", s |-> <<93>>]>>],
          [t |-> "text", s |-> <<35>>], [t |-> "obj", e |-> [t |-> "var", name |-> S0]] >>
  ELSE << [t |-> "obj", e |-> (LET f1 == [t |-> "filter", e |-> [t |-> "var", name |-> S0], name |-> call.name, args |-> ArgExprs]
                               IN  IF "then" \in DOMAIN call THEN [t |-> "filter", e |-> f1, name |-> call.then, args |-> <<>>] ELSE f1)],
          [t |-> "text", s |-> <<35>>], [t |-> "obj", e |-> [t |-> "var", name |-> S0]] >>

\* the same call with its arguments held in variables, in other Go representations (Drops, pointers, integer widths);
\* emitted for the shortest receivers only, to keep the number of cases in hand
ArgName(i) == <<97, 48 + i>>
ArgVars == [i \in 1..Len(call.args) |-> [t |-> "var", name |-> ArgName(i)]]
ProgV == << [t |-> "obj", e |-> [t |-> "filter", e |-> [t |-> "var", name |-> S0], name |-> call.name, args |-> ArgVars]],
            [t |-> "text", s |-> <<35>>], [t |-> "obj", e |-> [t |-> "var", name |-> S0]] >>
HintFor(v, n) ==
  CASE v.k = "int" -> IF v.v >= 0 THEN <<"uint8", "int64", "drop", "ptr", "uint32", "int16", "uint64">>[(n % 7) + 1]
                      ELSE <<"int8", "int64", "drop", "int32">>[(n % 4) + 1]
    [] OTHER -> <<"drop", "ptr", "dropdrop">>[(n % 3) + 1]
ReprV == [p \in {"s"} \cup {"a" \o ToString(i) : i \in 1..Len(call.args)} |->
            IF p = "s" THEN <<"", "drop", "ptr">>[((Len(s) + Len(call.args)) % 3) + 1]
            ELSE LET i == IF p = "a1" THEN 1 ELSE 2 IN HintFor(call.args[i], Len(s) + i + (IF call.args[i].k = "int" THEN call.args[i].v + 3 ELSE Len(call.args[i].v))) ]
IdStr == ToString(<<s, call.name, call.args, IF "then" \in DOMAIN call THEN call.then ELSE "">>)
EmitCase ==
  /\ PrintT(ToJson([id |-> IdStr, kind |-> "render", f |-> call.name, prog |-> Prog, env |-> << <<S0, Str(s)>> >>]))
  /\ (call.args # <<>> /\ ~ListResult /\ "then" \notin DOMAIN call /\ Len(s) <= 2) =>
       PrintT(ToJson([id |-> "v" \o IdStr, kind |-> "render", f |-> call.name, prog |-> ProgV,
                      env |-> << <<S0, Str(s)>> >> \o [i \in 1..Len(call.args) |-> <<ArgName(i), call.args[i]>>], repr |-> ReprV]))
=============================================================================
