------------------------------- MODULE MC_C09 -------------------------------
(***************************************************************************)
(* C09 - comparison, contains and boolean operators.                       *)
(* TLC visits every ordered pair (a, b) of the value universe U, checks    *)
(* the coherence laws of the statement on the specification's own          *)
(* Eq3/Less3/Contains3 (so the reference semantics is itself coherent),    *)
(* and emits one probe program per pair: nine operators applied to (a, b)  *)
(* and to (b, a) as `if` conditions, each printing 1 or 0.  TraceC09       *)
(* validates the observed bit table.                                       *)
(***************************************************************************)
EXTENDS LqRender, Json, TLC

CONSTANT Big       \* TRUE: the full universe

VARIABLES i, j
vars == <<i, j>>

S(s) == Str(s)
M(ps) == MapV(ps)
TwoTo63 == <<57, 50, 50, 51, 51, 55, 50, 48, 51, 54, 56, 53, 52, 55, 55, 53, 56, 48, 56>>
UCore == <<
  BigV(FALSE, <<49, 56, 52, 52, 54, 55, 52, 52, 48, 55, 51, 55, 48, 57, 53, 53, 49, 54, 49, 53>>),
  \* 2^63: the first whole number beyond int64 - held as an unsigned integer, or (it is a power of two) exactly as a float
  BigV(FALSE, TwoTo63),
  \* ... and its predecessor, the largest int64: rounded to a float it would be 2^63
  BigV(FALSE, <<57, 50, 50, 51, 51, 55, 50, 48, 51, 54, 56, 53, 52, 55, 55, 53, 56, 48, 55>>),
  Nil, Bool(TRUE), Bool(FALSE),
  IntV(0 - 1), IntV(0), IntV(1), IntV(2), IntV(97),
  Flt(0 - 1, 2), Flt(0, 1), Flt(1, 1), Flt(3, 2), Flt(5, 2),
  S(<<>>), S(<<97>>), S(<<97, 98>>), S(<<98>>), S(<<66>>), S(<<49>>),
  Arr(<<>>), Arr(<<IntV(1)>>), Arr(<<IntV(1), IntV(2)>>), Arr(<<Flt(1, 1)>>), Arr(<<S(<<97>>)>>), Arr(<<Nil>>),
  M(<<>>), M(<< <<<<97>>, IntV(1)>> >>), M(<< <<<<97>>, IntV(2)>> >>), M(<< <<<<97>>, IntV(1)>>, <<<<98>>, IntV(2)>> >>),
  \* rows and records whose numbers are integers here and the equal floats there (what a JSON decoder makes of them)
  Arr(<<Arr(<<IntV(1), IntV(2)>>)>>), Arr(<<Arr(<<Flt(1, 1), Flt(2, 1)>>)>>), Arr(<<M(<< <<<<97>>, IntV(1)>> >>)>>), Arr(<<M(<< <<<<97>>, Flt(1, 1)>> >>)>>),
  \* a record one of whose fields is a list, alone and in a list of records
  M(<< <<<<97>>, IntV(1)>>, <<<<116>>, Arr(<<IntV(1)>>)>> >>), Arr(<<M(<< <<<<97>>, IntV(1)>>, <<<<116>>, Arr(<<IntV(1)>>)>> >>)>>)
>>
UMore == <<
  IntV(100), IntV(0 - 100), Flt(201, 2), Flt(1, 4), Flt(0 - 5, 2), IntV(100000000), IntV(0 - 100000000),
  \* the boundaries of the 64-bit widths: max uint64, 2^63, min int64, max int64
  BigV(FALSE, <<49, 56, 52, 52, 54, 55, 52, 52, 48, 55, 51, 55, 48, 57, 53, 53, 49, 54, 49, 53>>),
  BigV(FALSE, <<57, 50, 50, 51, 51, 55, 50, 48, 51, 54, 56, 53, 52, 55, 55, 53, 56, 48, 56>>),
  BigV(TRUE, <<57, 50, 50, 51, 51, 55, 50, 48, 51, 54, 56, 53, 52, 55, 55, 53, 56, 48, 56>>),
  BigV(FALSE, <<57, 50, 50, 51, 51, 55, 50, 48, 51, 54, 56, 53, 52, 55, 55, 53, 56, 48, 55>>),
  S(<<195, 169>>), S(<<97, 32, 98>>), S(<<32>>), S(<<116, 114, 117, 101>>), S(<<110, 105, 108>>), S(<<48>>),
  S(<<49, 46, 48>>), S(<<65>>), S(<<97, 97>>),
  Arr(<<IntV(2), IntV(1)>>), Arr(<<Arr(<<IntV(1)>>)>>), Arr(<<IntV(1), Arr(<<IntV(2)>>)>>), Arr(<<Nil, Nil>>),
  Arr(<<Bool(FALSE)>>), Arr(<<S(<<97>>), S(<<98>>)>>), Arr(<<Flt(1, 1), Flt(2, 1)>>), Arr(<<S(<<>>)>>),
  Arr(<<M(<< <<<<97>>, IntV(1)>> >>)>>),
  M(<< <<<<98>>, IntV(1)>> >>), M(<< <<<<97>>, Nil>> >>), M(<< <<<<97>>, Arr(<<IntV(1)>>)>> >>),
  M(<< <<<<115, 105, 122, 101>>, IntV(9)>> >>)
>>
U == IF Big THEN UCore \o UMore ELSE UCore

Ops == <<"==", "!=", "<", ">", "<=", ">=", "contains">>

A == <<97>>
B == <<98>>
Var(n) == [t |-> "var", name |-> n]
Bit(cond) == [t |-> "if", branches |-> << [c |-> cond, body |-> <<[t |-> "text", s |-> <<49>>]>>],
                                          [c |-> [t |-> "else"], body |-> <<[t |-> "text", s |-> <<48>>]>>] >>]
BitsFor(x, y) == [k \in 1..7 |-> Bit([t |-> "cmp", op |-> Ops[k], a |-> Var(x), b |-> Var(y)])]
                 \o << Bit([t |-> "and", a |-> Var(x), b |-> Var(y)]), Bit([t |-> "or", a |-> Var(x), b |-> Var(y)]) >>
Prog == BitsFor(A, B) \o BitsFor(B, A)
\* the object form: {{ a OP b }} prints true / false
ObjProg == [k \in 1..7 |-> [t |-> "obj", e |-> [t |-> "cmp", op |-> Ops[k], a |-> Var(A), b |-> Var(B)]]]

Init == i \in 1..Len(U) /\ j \in 1..Len(U)
Next == UNCHANGED vars
a == U[i]
b == U[j]

\* ------------------------------------------------- laws on the reference
EqReflexive == Eq3(a, a) = "t"
EqSymmetric == Eq3(a, b) = Eq3(b, a)
NilOnlyNil == IsNil(a) => (Eq3(a, b) = B3(IsNil(b)))
KindOf(v) == IF IsNum(v) THEN "num" ELSE v.k
UnlikeNeverEqual == KindOf(a) # KindOf(b) => Eq3(a, b) = "f"
UnlikeNeverOrdered == KindOf(a) # KindOf(b) => Less3(a, b) = "f" /\ Less3(b, a) = "f"
NilNeverOrdered == IsNil(a) => Less3(a, b) = "f" /\ Less3(b, a) = "f"
LessAsymmetric == ~(Less3(a, b) = "t" /\ Less3(b, a) = "t")
Trichotomy == (KindOf(a) = KindOf(b) /\ KindOf(a) \in {"num", "str"}) =>
                Cardinality({x \in {Less3(a, b), Eq3(a, b), Less3(b, a)} : x = "t"}) = 1
                /\ "u" \notin {Less3(a, b), Eq3(a, b), Less3(b, a)}
ArraysElementwise == (a.k = "arr" /\ b.k = "arr" /\ Len(a.v) = Len(b.v)) =>
                       Eq3(a, b) = AllT3([n \in 1..Len(a.v) |-> Eq3(a.v[n], b.v[n])])
ContainsMembership == (a.k = "arr") => Contains3(a, b) = AnyT3([n \in 1..Len(a.v) |-> Eq3(a.v[n], b)])
TruthyOnlyNilFalse == Truthy(a) = ~(IsNil(a) \/ (a.k = "bool" /\ a.v = FALSE))

\* The same pair in other Go representations (the bit table must not change): integer and float widths,
\* pointers, Drops (also as elements of an array), typed and nil slices.  Two variants per pair, the
\* representation of each operand picked from its choices by the pair's indices.
AllInts(v) == \A n \in 1..Len(v.v) : v.v[n].k = "int"
RepChoices(v) ==
  CASE v.k = "int" -> IF v.v >= 0 /\ v.v < 128 THEN <<"uint8", "int64", "drop", "ptr", "uint64", "int8">>
                      ELSE IF v.v >= 0 THEN <<"uint32", "int64", "drop", "ptr">> ELSE <<"int32", "int64", "drop">>
    [] v.k = "flt" -> <<"float32", "drop", "ptr">>
    [] v.k = "str" -> <<"drop", "ptr", "dropdrop">>
    [] v.k = "bool" -> <<"drop", "ptr">>
    [] v.k = "nil" -> <<"drop", "nilptr">>
    [] v.k = "big" -> IF v.digits = TwoTo63 THEN <<"float64", "drop", "float32", "float64">> ELSE <<"drop">>
    [] v.k = "map" -> <<"drop", "anystrkeys", "ptr">> \o (IF \A n \in 1..Len(v.v) : v.v[n][2].k = "int" THEN <<"mapint">> ELSE <<>>)
    [] v.k = "arr" -> IF Len(v.v) = 0 THEN <<"drop", "nilslice", "ptr">>
                      ELSE <<"elem0", "drop", "elemlast", "ptr">> \o (IF AllInts(v) THEN <<"ints", "int64s">> ELSE <<>>)
Hint(name, v, ch) ==
  CASE ch = "elem0" -> (name \o "/0") :> "drop"
    [] ch = "elemlast" -> (name \o "/" \o ToString(Len(v.v) - 1)) :> "drop"
    [] OTHER -> name :> ch
Pick(v, n) == RepChoices(v)[(n % Len(RepChoices(v))) + 1]
ReprFor(var) == IF var = 1 THEN Hint("a", a, Pick(a, i + j))
                ELSE Hint("a", a, Pick(a, i + j + 1)) @@ Hint("b", b, Pick(b, i + 2 * j))

\* The operands reached by a property lookup and by an index instead of by name (m.x op m.y, l[0] op l[1]):
\* same table.  The representations of the two values are again picked by the pair's indices.
MM == <<109>>
LL == <<108>>
XX == <<120>>
YY == <<121>>
PBit(x, y) == [k \in 1..7 |-> Bit([t |-> "cmp", op |-> Ops[k], a |-> x, b |-> y])]
              \o << Bit([t |-> "and", a |-> x, b |-> y]), Bit([t |-> "or", a |-> x, b |-> y]) >>
PropX == [t |-> "prop", e |-> Var(MM), name |-> XX]
PropY == [t |-> "prop", e |-> Var(MM), name |-> YY]
Idx0 == [t |-> "idx", e |-> Var(LL), i |-> [t |-> "lit", v |-> IntV(0)]]
Idx1 == [t |-> "idx", e |-> Var(LL), i |-> [t |-> "lit", v |-> IntV(1)]]
PropProg == PBit(PropX, PropY) \o PBit(PropY, PropX)
IdxProg == PBit(Idx0, Idx1) \o PBit(Idx1, Idx0)
PropHint(path, v, ch) ==
  CASE ch = "elem0" -> (path \o "/0") :> "drop"
    [] ch = "elemlast" -> (path \o "/" \o ToString(Len(v.v) - 1)) :> "drop"
    [] OTHER -> path :> ch

\* single-precision floats that no short decimal denotes exactly (0.1f, 1/3 as a float32, the largest below 1):
\* each against the very same number held in double precision, in both operand orders - equal, not ordered
F32U == << Flt(13421773, 134217728), Flt(11184811, 33554432), Flt(16777215, 16777216), Flt(0 - 13421773, 134217728) >>
EmitF32 == \A k \in 1..Len(F32U) : \A side \in {"a", "b"} :
  PrintT(ToJson([id |-> "f32-" \o ToString(k) \o "-" \o side, kind |-> "render", tm |-> "TraceC09",
                 a |-> F32U[k], b |-> F32U[k], prog |-> Prog, env |-> << <<A, F32U[k]>>, <<B, F32U[k]>> >>, repr |-> (side :> "float32")]))

\* data nested many levels deep, the innermost value an integer here and the equal float there: equal all the same
RECURSIVE Deep(_, _)
Deep(d, leaf) == IF d = 0 THEN leaf ELSE Arr(<<Deep(d - 1, leaf)>>)
EmitDeep == \A d \in {33, 70} : \A k \in 1..2 :
  LET da == Deep(d, IntV(1))
      db == IF k = 1 THEN Deep(d, Flt(1, 1)) ELSE Deep(d, IntV(2))
  IN  PrintT(ToJson([id |-> "deep-" \o ToString(d) \o "-" \o ToString(k), kind |-> "render", tm |-> "TraceC09",
                     a |-> da, b |-> db, prog |-> Prog, env |-> << <<A, da>>, <<B, db>> >>]))
EmitCase ==
  /\ (i = 1 /\ j = 1) => EmitF32 /\ EmitDeep
  /\ PrintT(ToJson([id |-> "prop-" \o ToString(i) \o "-" \o ToString(j), kind |-> "render", tm |-> "TraceC09",
                    a |-> a, b |-> b, prog |-> PropProg, env |-> << <<MM, MapV(<< <<XX, a>>, <<YY, b>> >>)>> >>,
                    repr |-> PropHint("m/x", a, Pick(a, i + j + 2)) @@ PropHint("m/y", b, Pick(b, i + 2 * j + 1))]))
  /\ PrintT(ToJson([id |-> "idx-" \o ToString(i) \o "-" \o ToString(j), kind |-> "render", tm |-> "TraceC09",
                    a |-> a, b |-> b, prog |-> IdxProg, env |-> << <<LL, Arr(<<a, b>>)>> >>,
                    repr |-> PropHint("l/0", a, Pick(a, i + j + 3)) @@ PropHint("l/1", b, Pick(b, 2 * i + j))]))
  /\ \A var \in 1..2 :
       PrintT(ToJson([id |-> "rep" \o ToString(var) \o "-" \o ToString(i) \o "-" \o ToString(j), kind |-> "render", tm |-> "TraceC09",
                      a |-> a, b |-> b, prog |-> Prog, env |-> << <<A, a>>, <<B, b>> >>, repr |-> ReprFor(var)]))
  \* two arrays of which one begins like the other, held as one slice and a shorter slice of the same storage; two
  \* equal arrays or maps held as one and the same Go object
  /\ (a.k \in {"arr", "map"} /\ b.k \in {"arr", "map"}) =>
       PrintT(ToJson([id |-> "shr-" \o ToString(i) \o "-" \o ToString(j), kind |-> "render", tm |-> "TraceC09",
                      a |-> a, b |-> b, prog |-> Prog, env |-> << <<A, a>>, <<B, b>> >>, repr |-> ("@share" :> "1")]))
  \* both operands as slices of one typed element type ([][]any, []map[string]any): equality still goes element by
  \* element, numbers by value
  /\ (a.k = "arr" /\ b.k = "arr" /\ a.v # <<>> /\ b.v # <<>> /\ (\A n \in 1..Len(a.v) : a.v[n].k = "arr") /\ (\A n \in 1..Len(b.v) : b.v[n].k = "arr")) =>
       PrintT(ToJson([id |-> "tys-" \o ToString(i) \o "-" \o ToString(j), kind |-> "render", tm |-> "TraceC09",
                      a |-> a, b |-> b, prog |-> Prog, env |-> << <<A, a>>, <<B, b>> >>, repr |-> ("a" :> "anyslices") @@ ("b" :> "anyslices")]))
  /\ (a.k = "arr" /\ b.k = "arr" /\ a.v # <<>> /\ b.v # <<>> /\ (\A n \in 1..Len(a.v) : a.v[n].k = "map") /\ (\A n \in 1..Len(b.v) : b.v[n].k = "map")) =>
       PrintT(ToJson([id |-> "tym-" \o ToString(i) \o "-" \o ToString(j), kind |-> "render", tm |-> "TraceC09",
                      a |-> a, b |-> b, prog |-> Prog, env |-> << <<A, a>>, <<B, b>> >>, repr |-> ("a" :> "maps") @@ ("b" :> "maps")]))
  \* maps held as ordered maps and as Go structs (also inside an array, also with an array as a value): what == says of
  \* two of those is left open, but no operator fails on them and the table is coherent ("lawsonly")
  /\ (a.k = "map" /\ b.k = "map") =>
       \A r \in {"mapslice", "struct", "ptrmapslice"} :
         PrintT(ToJson([id |-> "xr-" \o r \o "-" \o ToString(i) \o "-" \o ToString(j), kind |-> "render", tm |-> "TraceC09", lawsonly |-> TRUE,
                        a |-> a, b |-> b, prog |-> Prog, env |-> << <<A, a>>, <<B, b>> >>, repr |-> ("a" :> r) @@ ("b" :> r)]))
  /\ (a.k = "arr" /\ b.k = "arr" /\ a.v # <<>> /\ b.v # <<>> /\ a.v[1].k = "map" /\ b.v[1].k = "map") =>
       \A r \in {"mapslice", "struct"} :
         PrintT(ToJson([id |-> "xe-" \o r \o "-" \o ToString(i) \o "-" \o ToString(j), kind |-> "render", tm |-> "TraceC09", lawsonly |-> TRUE,
                        a |-> a, b |-> b, prog |-> Prog, env |-> << <<A, a>>, <<B, b>> >>, repr |-> ("a/0" :> r) @@ ("b/0" :> r)]))
  /\ PrintT(ToJson([id |-> "cmp-" \o ToString(i) \o "-" \o ToString(j), kind |-> "render", tm |-> "TraceC09",
                    a |-> a, b |-> b, prog |-> Prog, env |-> << <<A, a>>, <<B, b>> >>]))
  /\ PrintT(ToJson([id |-> "obj-" \o ToString(i) \o "-" \o ToString(j), kind |-> "render", tm |-> "TraceRender",
                    prog |-> ObjProg, env |-> << <<A, a>>, <<B, b>> >>]))
=============================================================================
