------------------------------ MODULE MC_Engine ------------------------------
(***************************************************************************)
(* Bounded instance of LqEngine for C02 / C03 / C04: two goroutines, three  *)
(* templates (one that re-assigns a binding name to its sorted self and     *)
(* iterates a map; one with loop, cycle and capture state; one that fails   *)
(* half-way), two binding environments, up to Budget renders in any         *)
(* interleaving.                                                            *)
(***************************************************************************)
EXTENDS LqEngine, TLC

T(s) == [t |-> "text", s |-> s]
Var(n) == [t |-> "var", name |-> n]
Lit(v) == [t |-> "lit", v |-> v]
Ob(e) == [t |-> "obj", e |-> e]
Fl(e, n, as) == [t |-> "filter", e |-> e, name |-> n, args |-> as]
A == <<97>>  M == <<109>>  X == <<120>>

MCTemplates == <<
  \* {% assign a = a | sort %}{{ a | join }}{% for p in m %}{{ p[0] }}{% endfor %}
  <<[t |-> "assign", name |-> A, e |-> Fl(Var(A), "sort", <<>>)], Ob(Fl(Var(A), "join", <<>>)),
    [t |-> "for", tag |-> "for", var |-> <<112>>, coll |-> Var(M), body |-> <<Ob([t |-> "idx", e |-> Var(<<112>>), i |-> Lit(IntV(0))])>>]>>,
  \* {% for x in a %}{% cycle "p","q" %}{% capture c %}{{ x }}{% endcapture %}{% endfor %}{{ c }}{{ x }}
  <<[t |-> "for", tag |-> "for", var |-> X, coll |-> Var(A),
     body |-> <<[t |-> "cycle", vals |-> <<<<112>>, <<113>>>>], [t |-> "capture", name |-> <<99>>, body |-> <<Ob(Var(X))>>]>>],
    Ob(Var(<<99>>)), Ob(Var(X))>>,
  \* x{{ 1 | divided_by: 0 }}
  <<T(<<120>>), Ob(Fl(Lit(IntV(1)), "divided_by", <<Lit(IntV(0))>>))>>,
  \* <{% include "f" %}>   (served from the engine's cache)
  <<T(<<60>>), [t |-> "include", e |-> Lit(Str(<<102>>))], T(<<62>>)>>
>>
MCCache == << <<<<102>>, <<T(<<105>>), Ob(Var(X))>>>> >>
MCEnvs == <<
  << <<A, Arr(<<IntV(3), IntV(1), IntV(2)>>)>>, <<M, MapV(<< <<<<106>>, IntV(1)>>, <<<<107>>, IntV(2)>>, <<<<108>>, IntV(3)>> >>)>> >>,
  << <<A, Arr(<<IntV(2), IntV(1)>>)>>, <<X, Str(<<111>>)>> >>
>>
CONSTANT ExtractedCells      \* the shared cells found in the code by the extractor (extract/main.go)
MCPol == [copyEnv |-> TRUE, sortKeys |-> TRUE, cells |-> ExtractedCells]
NoCopyPol == [copyEnv |-> FALSE, sortKeys |-> TRUE, cells |-> {}]
RandomOrderPol == [copyEnv |-> TRUE, sortKeys |-> FALSE, cells |-> {}]
RacyPol == [copyEnv |-> TRUE, sortKeys |-> TRUE, cells |-> {"cycle.err"}]
=============================================================================
