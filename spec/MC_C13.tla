------------------------------- MODULE MC_C13 -------------------------------
(***************************************************************************)
(* C13 - whitespace control.  The operational model (trim writer: one      *)
(* buffered write, a right-trim flag, flush at the end of every block body *)
(* and iteration, fresh writer for capture) is explored step by step and   *)
(* checked against the declarative laws of LqTrim on                       *)
(*   flat   every sequence of up to N elements over 6 texts, 3 objects     *)
(*          (printing "", "v", " v ") and an assign, each tag with all 4   *)
(*          hyphen combinations;                                           *)
(*   skel   block skeletons (if/else, if false, for, capture, comment,     *)
(*          raw, case, comment/assign next to a hyphenated object) with    *)
(*          every subset of their hyphen positions and                     *)
(*          rotating neighbouring texts.                                   *)
(* Policy selects the intended trim writer or the one of the pinned commit *)
(* (with which TLC must find the counterexample: self-test).               *)
(***************************************************************************)
EXTENDS LqTrim, Json, TLC

CONSTANTS N, Policy, Bits     \* Bits: TRUE = all hyphen subsets of the skeletons
VARIABLES c, st
vars == <<c, st>>

\* (the last two end / begin with a character whose final byte, 0xA0, is not whitespace although U+00A0 is)
\* (the last one: a control character that is no white space - ESC - between blanks)
TX == << <<32>>, <<32, 97, 32>>, <<10>>, <<97>>, <<97, 32>>, <<32, 97>>, <<97, 195, 160>>, <<195, 160, 32>>, <<32, 27, 32>> >>
T(s) == [t |-> "text", s |-> s]
Var(n) == [t |-> "var", name |-> n]
Lit(v) == [t |-> "lit", v |-> v]
Ob(e) == [t |-> "obj", e |-> e]
VN(i) == <<118, 48 + i>>                                      \* v1 v2 v3
Env2 == << <<VN(1), Str(<<>>)>>, <<VN(2), Str(<<118>>)>>, <<VN(3), Str(<<32, 118, 32>>)>> >>
TL == [t |-> "trimL"]
TR == [t |-> "trimR"]
W(l, n, r) == (IF l THEN <<TL>> ELSE <<>>) \o <<n>> \o (IF r THEN <<TR>> ELSE <<>>)
In(r, body, l) == (IF r THEN <<TR>> ELSE <<>>) \o body \o (IF l THEN <<TL>> ELSE <<>>)
Assign == [t |-> "assign", name |-> <<122>>, e |-> Lit(IntV(1))]

\* -------------------------------------------------------------------- flat
\* (object 4 is a number literal: written tight, a hyphen of the delimiter stands right next to a digit)
Pool == [e : {"text"}, i : 1..Len(TX)] \cup [e : {"obj"}, i : 1..4, l : BOOLEAN, r : BOOLEAN] \cup [e : {"tag"}, l : BOOLEAN, r : BOOLEAN]
RECURSIVE FlatSeqs(_)
FlatSeqs(n) == IF n = 0 THEN {<<>>}
               ELSE UNION {{<<x>> \o t : t \in {u \in FlatSeqs(n - 1) : ~(u # <<>> /\ u[1].e = "text" /\ x.e = "text")}} : x \in Pool}
ElemNodes(x) == CASE x.e = "text" -> <<T(TX[x.i])>>
                  [] x.e = "obj" -> W(x.l, Ob(IF x.i = 4 THEN Lit(Flt(7, 2)) ELSE Var(VN(x.i))), x.r)
                  [] x.e = "tag" -> W(x.l, Assign, x.r)

\* -------------------------------------------------------------------- skel
Bit(b, i) == (b \div (2^(i - 1))) % 2 = 1
Tx(x, i) == T(TX[((x.tx + i) % Len(TX)) + 1])
NBits(k) == CASE k = 1 -> 8 [] k = 2 -> 6 [] k = 3 -> 6 [] k = 4 -> 2 [] k = 5 -> 2 [] k = 6 -> 4 [] k = 7 -> 8 [] k = 8 -> 6 [] k = 9 -> 6 [] k = 10 -> 6
SkelNodes(x) ==
  LET b(i) == Bit(x.bits, i) IN
  CASE x.k = 1 ->      \* T {% if true %} T {{ v3 }} T {% else %} T {% endif %} T
         <<Tx(x, 0)>> \o W(b(1), [t |-> "if", branches |-> <<
              [c |-> Lit(Bool(x.tx % 2 = 0)), body |-> In(b(2), <<Tx(x, 1)>> \o W(b(3), Ob(Var(VN(3))), b(4)) \o <<Tx(x, 2)>>, b(5))],
              [c |-> [t |-> "else"], body |-> In(b(6), <<Tx(x, 3)>>, b(7))] >>], b(8)) \o <<Tx(x, 4)>>
    [] x.k = 2 ->      \* T {% for i in (1..2) %} T {{ i }} T {% endfor %} T
         <<Tx(x, 0)>> \o W(b(1), [t |-> "for", tag |-> "for", var |-> <<105>>, coll |-> [t |-> "range", a |-> Lit(IntV(1)), b |-> Lit(IntV(2))],
              body |-> In(b(2), <<Tx(x, 1)>> \o W(b(3), Ob(Var(<<105>>)), b(4)) \o <<Tx(x, 2)>>, b(5))], b(6)) \o <<Tx(x, 3)>>
    [] x.k = 3 ->      \* T {% capture q %} T {{ v3 }} {% endcapture %} T {{ q }} T
         <<Tx(x, 0)>> \o W(b(1), [t |-> "capture", name |-> <<113>>, body |-> In(b(2), <<Tx(x, 1)>> \o W(FALSE, Ob(Var(VN(3))), b(3)), b(4))], b(5))
         \o <<Tx(x, 2)>> \o W(b(6), Ob(Var(<<113>>)), FALSE) \o <<Tx(x, 3)>>
    [] x.k = 4 ->      \* T {% comment %}..{% endcomment %} T
         <<Tx(x, 0)>> \o W(b(1), [t |-> "comment", s |-> <<32, 122, 32>>], b(2)) \o <<Tx(x, 1)>>
    [] x.k = 5 ->      \* T {% raw %} {{ z }} {% endraw %} T
         <<Tx(x, 0)>> \o W(b(1), [t |-> "raw", s |-> <<32, 123, 123, 122, 125, 125, 32>>], b(2)) \o <<Tx(x, 1)>>
    [] x.k = 6 ->      \* T {% if false %} T {% endif %} T    (nothing is rendered inside)
         <<Tx(x, 0)>> \o W(b(1), [t |-> "if", branches |-> <<[c |-> Lit(Bool(FALSE)), body |-> In(b(2), <<Tx(x, 1)>>, b(3))]>>], b(4)) \o <<Tx(x, 2)>>
    [] x.k = 7 ->      \* T {% case 1 %} {% when 1 %} T {{ v2 }} {% endcase %} T
         \* (the blank text between case and the first when is never output; bits 7, 8: {% case 1 -%} and {%- when 1 %})
         <<Tx(x, 0)>> \o W(b(1), [t |-> "case", e |-> Lit(IntV(1)), pre |-> In(b(7), <<T(<<32, 10, 32>>)>>, b(8)),
              whens |-> <<[vals |-> <<Lit(IntV(1))>>, body |-> In(b(2), <<Tx(x, 1)>> \o W(b(3), Ob(Var(VN(2))), b(4)), b(5))]>>], b(6)) \o <<Tx(x, 2)>>

    [] x.k = 8 ->      \* T {% comment %}c{% endcomment %} T {{ v2 }} T {% comment %}c{% endcomment %} T : a block that leaves
                       \* nothing behind does not join the texts on its two sides (each hyphen reaches its own neighbour only)
         <<Tx(x, 0)>> \o W(b(1), [t |-> "comment", s |-> <<99>>], b(2)) \o <<Tx(x, 1)>> \o W(b(3), Ob(Var(VN(2))), b(4))
         \o <<Tx(x, 2)>> \o W(b(5), [t |-> "comment", s |-> <<99>>], b(6)) \o <<Tx(x, 3)>>
    [] x.k = 9 ->      \* the same with a tag that renders nothing
         <<Tx(x, 0)>> \o W(b(1), Assign, b(2)) \o <<Tx(x, 1)>> \o W(b(3), Ob(Var(VN(2))), b(4))
         \o <<Tx(x, 2)>> \o W(b(5), Assign, b(6)) \o <<Tx(x, 3)>>

    [] x.k = 10 ->     \* T {{ v3 }} T {% assign %} T {{ v3 }} T {{ v1 }} : a value ending in white space, then (blank) text, then a
                       \* hyphenated tag - the hyphen takes the text next to it, never the end of the value
         <<Tx(x, 0)>> \o W(b(1), Ob(Var(VN(3))), FALSE) \o <<Tx(x, 1)>> \o W(b(2), Assign, b(3)) \o <<Tx(x, 2)>>
         \o W(b(4), Ob(Var(VN(3))), FALSE) \o <<Tx(x, 3)>> \o W(b(5), Ob(Var(VN(1))), b(6)) \o <<Tx(x, 4)>>

Skels == UNION {[g : {"skel"}, k : {k}, tx : 0..(Len(TX) - 1),
                 bits : IF Bits THEN 0..(2^NBits(k) - 1) ELSE {0, 2^NBits(k) - 1} \cup {2^i : i \in 0..(NBits(k) - 1)}
                                                               \cup {2^NBits(k) - 1 - 2^i : i \in 0..(NBits(k) - 1)}] : k \in 1..10}
Cases == [g : {"flat"}, s : UNION {FlatSeqs(n) : n \in 0..N}] \cup Skels

ProgOf(x) == IF x.g = "flat" THEN Flatten([i \in 1..Len(x.s) |-> ElemNodes(x.s[i])]) ELSE SkelNodes(x)

Pol == IF Policy = "pinned" THEN [Intended EXCEPT !.trimWrite = "append"] ELSE Intended
Cx == [Cx0 EXCEPT !.pol = Pol]
Init == \E x \in Cases : c = x /\ st = InitSt(ProgOf(x), EnvOf(Env2), Sink0, Cx)
Next == st.status = "run" /\ st' = Step(Cx, st) /\ c' = c

\* ------------------------------------------------------------------ laws
RECURSIVE IsSubseq(_, _)
IsSubseq(a, b) == IF a = <<>> THEN TRUE ELSE IF b = <<>> THEN FALSE
                  ELSE IF Head(a) = Head(b) THEN IsSubseq(Tail(a), Tail(b)) ELSE IsSubseq(a, Tail(b))
Out0 == Render(Cx, DropTrims(ProgOf(c)), EnvOf(Env2)).out
Terminates == st.status \in {"run", "ok"}
WeakLaw == st.status = "ok" => DelSpace(st.sink.acc) = DelSpace(Out0)
OnlyWhitespaceRemoved == st.status = "ok" => IsSubseq(st.sink.acc, Out0)
FacingTextLaw == (st.status = "ok" /\ Facing(ProgOf(c))) => st.sink.acc = Render(Cx, StripAdj(ProgOf(c)), EnvOf(Env2)).out
\* what is buffered is always the most recent write only (intended policy)
BufferIsLastWrite == \A i \in 1..Len(st.ws) : Len(st.ws[i].buf) <= 8

IdOf(x) == IF x.g = "flat" THEN "flat-" \o ToString(x.s) ELSE "skel-" \o ToString(x.k) \o "-" \o ToString(x.tx) \o "-" \o ToString(x.bits)
EmitCase == st.status # "run" =>
              PrintT(ToJson([id |-> IdOf(c), kind |-> "render", tm |-> "TraceC13", prog |-> ProgOf(c),
                             prog0 |-> DropTrims(ProgOf(c)), env |-> Env2]))
=============================================================================
