------------------------------- MODULE MC_C01 -------------------------------
(***************************************************************************)
(* C01 - parsing and rendering never panic.                                *)
(* The outcome set of the specification is {output, error}: there is no    *)
(* panic state, every reference function is total (an undefined case would *)
(* stop TLC) and the render machine has a successor in every non-terminal  *)
(* state.  This module (i) evaluates the filter reference on the whole     *)
(* boundary matrix  filter x receiver x up to two arguments  (Totality),   *)
(* (ii) runs the render machine on each call and bounds its steps by the   *)
(* size of the program (StepBound: time proportional to what the template  *)
(* spells out), and emits every call for replay; the implementation must   *)
(* return output or a SourceError for each.                                *)
(***************************************************************************)
EXTENDS LqRender, Json, TLC

CONSTANT Two        \* TRUE: every pair of arguments for the filters that take two
VARIABLES c
vars == <<c>>

S(s) == Str(s)
M1(k, v) == MapV(<< <<k, v>> >>)
Long == [i \in 1..300 |-> IF i % 2 = 1 THEN 97 ELSE 98]
Recvs == <<
  Nil, Bool(TRUE), Bool(FALSE), IntV(0 - 1), IntV(0), IntV(1), IntV(2147483647), IntV(0 - 2147483647), Flt(0 - 1, 2), Flt(5, 2),
  S(<<>>), S(<<97>>), S(<<97, 32, 98, 32, 99>>), S(<<195, 169>>), S(<<240, 159, 152, 128>>), S(<<195>>), S(Long), S(<<49, 50>>), S(<<60, 97, 62, 38>>),
  Arr(<<>>), Arr(<<Nil>>), Arr(<<IntV(1), Nil, IntV(1)>>), Arr(<<Arr(<<IntV(1)>>), Arr(<<IntV(2)>>)>>), Arr(<<IntV(3), IntV(1), IntV(2)>>),
  Arr(<<S(<<98>>), S(<<97>>)>>), Arr(<<M1(<<107>>, IntV(1)), M1(<<107>>, IntV(2))>>), Arr(<<S(<<97>>), IntV(1), Nil, Flt(1, 2)>>),
  MapV(<<>>), M1(<<97>>, IntV(1)), RangeV(5, 1), RangeV(1, 3)
>>
Args == << Nil, IntV(0 - 1), IntV(0), IntV(1), IntV(2), IntV(1000000), IntV(0 - 2147483647), Flt(5, 2), S(<<>>), S(<<97>>), S(<<107>>),
           Arr(<<IntV(1)>>), MapV(<<>>), Bool(TRUE), S(<<36, 49>>), S(<<37, 89>>) >>
Filters == <<"compact", "reverse", "first", "last", "uniq", "abs", "ceil", "floor", "size", "escape", "newline_to_br",
             "strip_html", "strip_newlines", "strip", "lstrip", "rstrip", "url_encode", "url_decode", "json", "inspect", "type",
             "default", "concat", "join", "map", "sort", "sort_natural", "modulo", "minus", "plus", "times", "divided_by", "round",
             "append", "prepend", "remove", "remove_first", "split", "date", "upcase", "downcase", "capitalize", "escape_once",
             "replace", "replace_first", "slice", "truncate", "truncatewords", "nosuchfilter">>
TwoArg == {"replace", "replace_first", "slice", "truncate", "truncatewords", "default", "upcase"}

Cases == [f : 1..Len(Filters), r : 1..Len(Recvs), a1 : 0..Len(Args), a2 : {0}]
         \cup {x \in [f : 1..Len(Filters), r : 1..Len(Recvs), a1 : 1..Len(Args), a2 : 1..Len(Args)] :
                 Filters[x.f] \in TwoArg /\ (Two \/ (x.a1 % 3 = 1 /\ x.a2 % 3 = 1))}
         \cup [f : 1..Len(Filters), r : {1, 6, 12, 24}, a1 : {4}, a2 : {4}, a3 : {1}]      \* three arguments

ArgVals(x) == (IF x.a1 = 0 THEN <<>> ELSE <<Args[x.a1]>>) \o (IF x.a2 = 0 THEN <<>> ELSE <<Args[x.a2]>>)
              \o (IF "a3" \in DOMAIN x THEN <<Args[4]>> ELSE <<>>)
X == <<120>>
AN(i) == <<97, 48 + i>>
Prog(x) == <<[t |-> "obj", e |-> [t |-> "filter", e |-> [t |-> "var", name |-> X], name |-> Filters[x.f],
                                  args |-> [i \in 1..Len(ArgVals(x)) |-> [t |-> "var", name |-> AN(i)]]]]>>
Env2(x) == << <<X, Recvs[x.r]>> >> \o [i \in 1..Len(ArgVals(x)) |-> <<AN(i), ArgVals(x)[i]>>]

Init == c \in Cases
Next == UNCHANGED vars

Fin == Run(Cx0, InitSt(Prog(c), EnvOf(Env2(c)), Sink0, Cx0))
\* every reference function is defined on the whole matrix and the outcome is output, error or "not decided" - never stuck
Totality == Filter(Filters[c.f], Recvs[c.r], ArgVals(c)).r \in {"val", "err", "unspec"} /\ Fin.status \in {"ok", "error", "unspec"}
\* a render takes a number of steps bounded by the size of the program (no loops here: a handful)
StepBound == Fin.steps <= 4

EmitCase == PrintT(ToJson([id |-> ToString(c.f) \o "-" \o ToString(c.r) \o "-" \o ToString(c.a1) \o "-" \o ToString(c.a2) \o (IF "a3" \in DOMAIN c THEN "-3" ELSE ""),
                           kind |-> "render", tm |-> "TraceC01", prog |-> Prog(c), env |-> Env2(c), f |-> Filters[c.f]]))
=============================================================================
