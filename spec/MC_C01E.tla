------------------------------ MODULE MC_C01E ------------------------------
(***************************************************************************)
(* C01, expression syntax: every string of up to L symbols over an         *)
(* alphabet of expression characters is placed inside an object and inside *)
(* if / assign / for / case-when / include / cycle tags.  The reference    *)
(* tokenizer is total on each (Tokens is evaluated), and each source is    *)
(* emitted for replay: parse and render must return.                       *)
(***************************************************************************)
EXTENDS LqScan, Json, TLC

CONSTANT L, Alpha
VARIABLES x, form
vars == <<x, form>>

RECURSIVE StrsOfLen(_)
StrsOfLen(n) == IF n = 0 THEN {<<>>} ELSE {<<b>> \o t : b \in Alpha, t \in StrsOfLen(n - 1)}
Forms == {"obj", "if", "assign", "for", "when", "include", "cycle", "forlimit"}
Init == (\E n \in 0..L : x \in StrsOfLen(n)) /\ form \in Forms
Next == UNCHANGED vars

A(s) == s
Src ==
  CASE form = "obj" -> <<123, 123, 32>> \o x \o <<32, 125, 125>>
    [] form = "if" -> <<123, 37, 32, 105, 102, 32>> \o x \o <<32, 37, 125, 121, 123, 37, 32, 101, 110, 100, 105, 102, 32, 37, 125>>
    [] form = "assign" -> <<123, 37, 32, 97, 115, 115, 105, 103, 110, 32, 118, 32, 61, 32>> \o x \o <<32, 37, 125, 123, 123, 32, 118, 32, 125, 125>>
    [] form = "for" -> <<123, 37, 32, 102, 111, 114, 32, 105, 32, 105, 110, 32>> \o x \o <<32, 37, 125, 121, 123, 37, 32, 101, 110, 100, 102, 111, 114, 32, 37, 125>>
    [] form = "forlimit" -> <<123, 37, 32, 102, 111, 114, 32, 105, 32, 105, 110, 32, 97, 32, 108, 105, 109, 105, 116, 58>> \o x
                            \o <<32, 37, 125, 121, 123, 37, 32, 101, 110, 100, 102, 111, 114, 32, 37, 125>>
    [] form = "when" -> <<123, 37, 32, 99, 97, 115, 101, 32, 49, 32, 37, 125, 123, 37, 32, 119, 104, 101, 110, 32>> \o x
                        \o <<32, 37, 125, 121, 123, 37, 32, 101, 110, 100, 99, 97, 115, 101, 32, 37, 125>>
    [] form = "include" -> <<123, 37, 32, 105, 110, 99, 108, 117, 100, 101, 32>> \o x \o <<32, 37, 125>>
    [] form = "cycle" -> <<123, 37, 32, 102, 111, 114, 32, 105, 32, 105, 110, 32, 40, 49, 46, 46, 50, 41, 32, 37, 125, 123, 37, 32, 99, 121, 99, 108, 101, 32>> \o x
                         \o <<32, 37, 125, 123, 37, 32, 101, 110, 100, 102, 111, 114, 32, 37, 125>>

ScannerTotal == Partition(Tokens(Src, 0, DefaultDelims), Src)
EmitCase == PrintT(ToJson([id |-> form \o ToString(x), kind |-> "scan", src |-> Src, env1 |-> TRUE]))
=============================================================================
