------------------------------ MODULE LqRender ------------------------------
(***************************************************************************)
(* The render machine: a small-step operational semantics of rendering a   *)
(* parsed template (C10-C14, C20, and the carrier of C02/C03/C07/C08).     *)
(*                                                                         *)
(* A render state st is a record                                           *)
(*   k      control stack of frames (top = last)                           *)
(*   env    the per-render variable map (name bytes -> Value)              *)
(*   ws     stack of trim writers [buf, trim, acc]; ws[1] writes to the    *)
(*          caller's sink, the others (capture, include) to memory `acc`   *)
(*   sink   the caller's io.Writer [acc, calls, failAt, keep, failed]      *)
(*   sig    "none" | "break" | "continue"                                  *)
(*   status "run" | "ok" | "error" | "unspec" | "panic"                    *)
(*   err    [line, kind] when status = "error"  (line -1: not decided)     *)
(* and Step(cx, st) is its unique successor; cx is the constant context    *)
(* [strict, path, line0, fs, cache, pol].  Environment actions (a failing  *)
(* sink, other goroutines) are composed with Step by the modules that      *)
(* need them.  Run is the closure of Step.                                 *)
(*                                                                         *)
(* The tree is the one the parser builds: sequences of nodes               *)
(*   text s | raw s | comment s | obj e | trimL | trimR | assign name e    *)
(*   capture name body | if neg branches | case e whens | for ...          *)
(*   break | continue | cycle group vals | include e                       *)
(* with the whitespace-control markers as explicit trimL / trimR nodes in  *)
(* the positions where the parser puts them.                               *)
(***************************************************************************)
EXTENDS LqExpr

Top(s) == s[Len(s)]
Pop(s) == SubSeq(s, 1, Len(s) - 1)
Fld(r, f, dflt) == IF f \in DOMAIN r THEN r[f] ELSE dflt

B_forloop == <<102, 111, 114, 108, 111, 111, 112>>
B_index == <<105, 110, 100, 101, 120>>
B_index0 == <<105, 110, 100, 101, 120, 48>>
B_rindex == <<114, 105, 110, 100, 101, 120>>
B_rindex0 == <<114, 105, 110, 100, 101, 120, 48>>
B_length == <<108, 101, 110, 103, 116, 104>>

\* the policies that distinguish the intended behaviour from defects that
\* were found on the pinned commit; the shipped configurations use Intended
Intended == [trimWrite |-> "flushfirst", wrap |-> "keepinner", flushErr |-> "return"]
Pinned == [trimWrite |-> "append", wrap |-> "pathonly", flushErr |-> "panic"]

\* perm: the order in which a map of Len(perm) entries is iterated (C11 does
\* not fix it, C02 only requires it to be the same every time): entry
\* perm[i] of the key-sorted pairs comes i-th.  A map of two or more entries
\* for which no order is given leaves the render undecided.
Cx0 == [strict |-> FALSE, path |-> <<>>, line0 |-> 0, fs |-> <<>>, cache |-> <<>>, pol |-> Intended, perm |-> <<>>]

\* ------------------------------------------------------------- the sink
Sink0 == [acc |-> <<>>, calls |-> 0, failAt |-> 0, keep |-> 0, failed |-> FALSE]
SinkWrite(sink, b) ==
  LET c == sink.calls + 1 IN
    IF sink.failAt = c
    \* (keep < 0: all but that many bytes of the failing call are accepted)
    THEN [sink EXCEPT !.calls = c, !.acc = @ \o Take(b, IF sink.keep < 0 THEN (IF Len(b) + sink.keep < 0 THEN 0 ELSE Len(b) + sink.keep) ELSE sink.keep), !.failed = TRUE]
    ELSE [sink EXCEPT !.calls = c, !.acc = @ \o b]

\* --------------------------------------------------------- trim writers
Writer0 == [buf |-> <<>>, trim |-> FALSE, acc |-> <<>>]

\* hand b to what the top trim writer wraps
Emit(st, b) ==
  LET i == Len(st.ws) IN
    IF i = 1 THEN [st EXCEPT !.sink = SinkWrite(st.sink, b)]
    ELSE [st EXCEPT !.ws[i].acc = @ \o b]

TwFlush(st) ==
  LET i == Len(st.ws) w == st.ws[i] IN
    IF w.buf = <<>> THEN st ELSE Emit([st EXCEPT !.ws[i].buf = <<>>], w.buf)

TwWrite(cx, st, b) ==
  LET i == Len(st.ws) w == st.ws[i] IN
    IF cx.pol.trimWrite = "flushfirst" THEN
      LET s1 == TwFlush(st) IN
        IF s1.sink.failed THEN s1
        ELSE [s1 EXCEPT !.ws[i].buf = IF w.trim THEN LStrip(b) ELSE b, !.ws[i].trim = FALSE]
    ELSE \* the pinned behaviour: a trimmed write joins the buffered one
      IF w.trim THEN [st EXCEPT !.ws[i].buf = @ \o LStrip(b), !.ws[i].trim = FALSE]
      ELSE LET s1 == TwFlush(st) IN
        IF s1.sink.failed THEN s1 ELSE [s1 EXCEPT !.ws[i].buf = b]

TwTrimLeft(st) ==
  LET i == Len(st.ws) w == st.ws[i] IN Emit([st EXCEPT !.ws[i].buf = <<>>], RStrip(w.buf))

TwTrimRight(st) == [st EXCEPT !.ws[Len(st.ws)].trim = TRUE]

RECURSIVE WriteAll(_, _, _)
WriteAll(cx, st, texts) ==
  IF texts = <<>> \/ st.sink.failed THEN st
  ELSE WriteAll(cx, TwWrite(cx, st, Head(texts)), Tail(texts))

XArgsName == <<108, 113, 120, 95, 97, 114, 103, 115>>      \* lqx_args
\* --------------------------------------------------------------- the tree
RECURSIVE NLNode(_)
RECURSIVE NLNodes(_)
NLNodes(ns) == IF ns = <<>> THEN 0 ELSE NLNode(Head(ns)) + NLNodes(Tail(ns))
RECURSIVE NLBranches(_)
NLBranches(bs) == IF bs = <<>> THEN 0 ELSE NLNodes(Head(bs).body) + NLBranches(Tail(bs))
Pad(n) == Fld(n, "padnl", 0)        \* newlines inside the node's own (opening) tag
NLNode(n) ==
  CASE n.t \in {"text", "raw", "comment"} -> Newlines(n.s)
    [] n.t = "if" -> Pad(n) + NLBranches(n.branches)
    [] n.t = "case" -> Pad(n) + NLNodes(Fld(n, "pre", <<>>)) + NLBranches(n.whens)
    [] n.t = "for" -> Pad(n) + NLNodes(n.body) + NLNodes(Fld(n, "else", <<>>))
    [] n.t = "capture" -> Pad(n) + NLNodes(n.body)
    [] n.t = "xblock" -> Pad(n) + NLNodes(n.body)
    \* a tag or object may itself span lines (padnl newlines inside its delimiters): it begins on
    \* the line it starts, what follows it is that many lines further down
    [] OTHER -> Fld(n, "padnl", 0)

\* what an object writes: one write per non-nil leaf
RECURSIVE Leaves(_)
Leaves(v) ==
  CASE v.k = "nil" -> <<>>
    [] v.k = "arr" -> Flatten([i \in 1..Len(v.v) |-> Leaves(v.v[i])])
    [] OTHER -> <<ToText(v)>>

ForloopV(i, n) ==
  MapV(<< <<B_first, Bool(i = 1)>>, <<B_index, IntV(i)>>, <<B_index0, IntV(i - 1)>>,
          <<B_last, Bool(i = n)>>, <<B_length, IntV(n)>>, <<B_rindex, IntV(n - i + 1)>>,
          <<B_rindex0, IntV(n - i)>> >>)

\* C11: reverse, then skip `off`, then take `lim`  (off <= 0 and lim < 0 are no-ops)
Window(items, rev, off, lim) ==
  LET r == IF rev THEN Rev(items) ELSE items
      s == IF off > 0 THEN Drop(r, off) ELSE r
  IN  IF lim >= 0 THEN Take(s, lim) ELSE s

LoopItems(cx, v) ==
  CASE v.k = "arr" -> [ok |-> ~NilFree(v), v |-> v.v]
    [] v.k = "range" -> [ok |-> TRUE, v |-> RangeItems(v.a, v.b)]
    [] v.k = "map" ->
         LET pairs == [i \in 1..Len(v.v) |-> Arr(<<Str(v.v[i][1]), v.v[i][2]>>)] IN
           IF Len(pairs) <= 1 THEN [ok |-> TRUE, v |-> pairs]
           ELSE IF Len(cx.perm) = Len(pairs) THEN [ok |-> TRUE, v |-> [i \in 1..Len(pairs) |-> pairs[cx.perm[i]]]]
           ELSE [ok |-> FALSE, v |-> <<>>]
    [] v.k = "nil" -> [ok |-> TRUE, v |-> <<>>]
    [] OTHER -> [ok |-> FALSE, v |-> <<>>]

\* tablerow decoration
TrOpen(row) == <<60, 116, 114, 32, 99, 108, 97, 115, 115, 61, 34, 114, 111, 119>> \o NatDigits(row) \o <<34, 62>>
TdOpen(col) == <<60, 116, 100, 32, 99, 108, 97, 115, 115, 61, 34, 99, 111, 108>> \o NatDigits(col) \o <<34, 62>>
TdClose == <<60, 47, 116, 100, 62>>
TrClose == <<60, 47, 116, 114, 62>>

\* --------------------------------------------------------------- frames
SeqF(nodes, end, ln, bl, aux) ==
  [f |-> "seq", nodes |-> nodes, pc |-> 1, end |-> end, ln |-> ln, bl |-> bl, aux |-> aux]

InitSt(nodes, env, sink, cx) ==
  [k |-> <<SeqF(nodes, "root", cx.line0, 0 - 1, <<>>)>>, env |-> env, ws |-> <<Writer0>>,
   sink |-> sink, sig |-> "none", status |-> "run", err |-> [line |-> 0 - 1, kind |-> ""], steps |-> 0]

\* ---------------------------------------------------------------- errors
\* The line an error raised at `line` ends up with after every enclosing
\* tag has re-wrapped it (parser.WrapError).  Intended: the innermost
\* location is kept.  Pinned: with no path, every enclosing block whose own
\* line is not 0 replaces it.
RECURSIVE WrapLine(_, _, _, _)
WrapLine(cx, k, j, line) ==
  IF j = 0 THEN line
  ELSE LET f == k[j]
           bl == IF f.f = "seq" THEN f.bl ELSE 0 - 1
           l2 == IF cx.pol.wrap = "keepinner" \/ bl < 0 THEN line
                 ELSE IF cx.path # <<>> \/ bl = 0 THEN line ELSE bl
       IN  WrapLine(cx, k, j - 1, l2)
InInclude(k) == \E j \in 1..Len(k) : k[j].f = "seq" /\ k[j].end = "include"

Fail(cx, st, line, kind) ==
  [st EXCEPT !.status = "error",
             !.err = [line |-> IF line < 0 \/ InInclude(st.k) THEN 0 - 1
                               ELSE WrapLine(cx, st.k, Len(st.k), line),
                      kind |-> kind]]
Undecided(st) == [st EXCEPT !.status = "unspec"]
\* after a writer operation: a failed sink turns into an error at `line`
IoCheck(cx, st, line) == IF st.sink.failed THEN Fail(cx, st, line, "io") ELSE st

\* ---------------------------------------------------- branch selection
RECURSIVE PickBranch(_, _, _, _)
PickBranch(brs, j, env, neg) ==
  IF j > Len(brs) THEN [r |-> "none"]
  ELSE LET c == brs[j].c IN
    IF c.t = "else" THEN [r |-> "sel", j |-> j]
    ELSE LET v == Eval(c, env) IN
      IF v.r # "val" THEN [r |-> v.r]
      ELSE IF IsUnspec(v.v) THEN [r |-> "unspec"]
      ELSE IF (IF neg /\ j = 1 THEN ~Truthy(v.v) ELSE Truthy(v.v)) THEN [r |-> "sel", j |-> j]
      ELSE PickBranch(brs, j + 1, env, neg)

RECURSIVE WhenMatches(_, _, _, _)
WhenMatches(vals, i, subj, env) ==
  IF i > Len(vals) THEN "f"
  ELSE LET v == Eval(vals[i], env) IN
    IF v.r = "err" THEN "err"
    ELSE IF v.r = "unspec" THEN "u"
    ELSE LET e == Eq3(subj, v.v) IN
      IF e = "t" THEN "t" ELSE IF e = "u" THEN "u" ELSE WhenMatches(vals, i + 1, subj, env)
RECURSIVE PickWhen(_, _, _, _)
PickWhen(whens, j, subj, env) ==
  IF j > Len(whens) THEN [r |-> "none"]
  ELSE IF Fld(whens[j], "else", FALSE) THEN [r |-> "sel", j |-> j]
  ELSE LET m == WhenMatches(whens[j].vals, 1, subj, env) IN
    IF m = "t" THEN [r |-> "sel", j |-> j]
    ELSE IF m = "err" THEN [r |-> "err"]
    ELSE IF m = "u" THEN [r |-> "unspec"]
    ELSE PickWhen(whens, j + 1, subj, env)

\* ------------------------------------------------------------- include
DirOf(p) ==
  LET idx == {i \in 1..Len(p) : p[i] = 47} IN
    IF idx = {} THEN <<>> ELSE SubSeq(p, 1, (CHOOSE i \in idx : \A j \in idx : j <= i) - 1)
\* path segments, and a path with its "x/.." pairs and "." segments folded away (as filepath.Join cleans it)
RECURSIVE Segs(_)
Segs(p) == LET idx == {i \in 1..Len(p) : p[i] = 47} IN
             IF idx = {} THEN <<p>>
             ELSE LET i == CHOOSE i \in idx : \A j \in idx : i <= j IN <<SubSeq(p, 1, i - 1)>> \o Segs(SubSeq(p, i + 1, Len(p)))
RECURSIVE Fold(_, _)
Fold(segs, acc) ==
  IF segs = <<>> THEN acc
  ELSE LET sg == Head(segs) IN
    IF sg = <<46>> \/ sg = <<>> THEN Fold(Tail(segs), acc)
    ELSE IF sg = <<46, 46>> /\ acc # <<>> /\ acc[Len(acc)] # <<46, 46>> THEN Fold(Tail(segs), SubSeq(acc, 1, Len(acc) - 1))
    ELSE Fold(Tail(segs), Append(acc, sg))
RECURSIVE Unsegs(_)
Unsegs(ss) == IF ss = <<>> THEN <<>> ELSE IF Len(ss) = 1 THEN ss[1] ELSE ss[1] \o <<47>> \o Unsegs(Tail(ss))
CleanPath(p) == Unsegs(Fold(Segs(p), <<>>))
JoinPath(dir, rel) == IF dir = <<>> THEN CleanPath(rel) ELSE CleanPath(dir \o <<47>> \o rel)
FileIn(files, p) == \E i \in 1..Len(files) : files[i][1] = p
FileEntry(files, p) == files[CHOOSE i \in 1..Len(files) : files[i][1] = p]
\* an entry <<path, nodes>> is a parseable file; <<path, nodes, "bad">> one that does not parse

\* ---------------------------------------------------------------- Step
\* loop modifier: an optional integer-valued expression
ModVal(n, f, env) ==
  IF f \notin DOMAIN n THEN [r |-> "none"]
  ELSE LET v == Eval(n[f], env) IN
    IF v.r # "val" THEN [r |-> v.r]
    ELSE IF v.v.k = "int" THEN [r |-> "int", v |-> v.v.v] ELSE [r |-> "unspec"]

SetVar(env, name, v) == [x \in DOMAIN env \cup {name} |-> IF x = name THEN v ELSE env[x]]

ExecNode(cx, st0, n, line) ==
  \* st0: the state with the program counter already advanced past n
  CASE n.t = "text" -> IoCheck(cx, TwWrite(cx, st0, n.s), line)
    [] n.t = "raw" -> IF n.s = <<>> THEN st0 ELSE IoCheck(cx, TwWrite(cx, st0, n.s), line)
    [] n.t = "comment" -> st0
    [] n.t = "trimL" -> IoCheck(cx, TwTrimLeft(st0), 0 - 1)
    [] n.t = "trimR" -> TwTrimRight(st0)
    [] n.t = "obj" ->
         LET v == Eval(n.e, st0.env) IN
           IF v.r = "err" THEN Fail(cx, st0, line, "eval")
           ELSE IF v.r = "unspec" THEN Undecided(st0)
           ELSE IF IsUnspec(v.v) THEN Undecided(st0)
           ELSE IF IsNil(v.v) /\ cx.strict THEN Fail(cx, st0, line, "strict")
           ELSE LET ls == Leaves(v.v) IN
             IF \E i \in 1..Len(ls) : ~ls[i].ok THEN Undecided(st0)
             ELSE IoCheck(cx, WriteAll(cx, st0, [i \in 1..Len(ls) |-> ls[i].s]), line)
    [] n.t = "snap" -> st0      \* a tag registered by the embedding program that renders nothing (the harness's probe)
    [] n.t = "assign" ->
         LET v == Eval(n.e, st0.env) IN
           IF v.r = "err" THEN Fail(cx, st0, line, "eval")
           ELSE IF v.r = "unspec" THEN Undecided(st0)        \* may be a value or an error
           ELSE [st0 EXCEPT !.env = SetVar(st0.env, n.name, v.v)]
    [] n.t = "capture" ->
         [st0 EXCEPT !.ws = Append(@, Writer0),
                     !.k = Append(@, SeqF(n.body, "capture", line + Pad(n), line, n.name))]
    [] n.t = "if" ->
         LET p == PickBranch(n.branches, 1, st0.env, Fld(n, "neg", FALSE)) IN
           IF p.r = "err" THEN Fail(cx, st0, IF Len(n.branches) = 1 THEN line ELSE 0 - 1, "eval")
           ELSE IF p.r = "unspec" THEN Undecided(st0)
           ELSE IF p.r = "none" THEN st0
           ELSE [st0 EXCEPT !.k = Append(@, SeqF(n.branches[p.j].body, "block",
                                                  line + Pad(n) + NLBranches(SubSeq(n.branches, 1, p.j - 1)), line, <<>>))]
    [] n.t = "case" ->
         LET s == Eval(n.e, st0.env) IN
           IF s.r = "err" THEN Fail(cx, st0, line, "eval")
           ELSE IF s.r = "unspec" \/ IsUnspec(s.v) THEN Undecided(st0)
           ELSE LET p == PickWhen(n.whens, 1, s.v, st0.env) IN
             IF p.r = "err" THEN Fail(cx, st0, 0 - 1, "eval")
             ELSE IF p.r = "unspec" THEN Undecided(st0)
             ELSE IF p.r = "none" THEN st0
             ELSE [st0 EXCEPT !.k = Append(@, SeqF(n.whens[p.j].body, "block",
                        line + Pad(n) + NLNodes(Fld(n, "pre", <<>>)) + NLBranches(SubSeq(n.whens, 1, p.j - 1)), line, <<>>))]
    [] n.t = "for" ->
         LET c == Eval(n.coll, st0.env) IN
           IF c.r = "err" THEN Fail(cx, st0, line, "eval")
           ELSE IF c.r = "unspec" \/ ~LoopItems(cx, c.v).ok THEN Undecided(st0)
           ELSE LET off == ModVal(n, "off", st0.env)
                    lim == ModVal(n, "lim", st0.env)
                    cols == IF n.tag = "tablerow" THEN ModVal(n, "cols", st0.env) ELSE [r |-> "none"]
                IN
             IF off.r = "err" \/ lim.r = "err" \/ cols.r = "err" THEN Fail(cx, st0, line, "eval")
             ELSE IF off.r = "unspec" \/ lim.r = "unspec" \/ cols.r = "unspec" THEN Undecided(st0)
             ELSE LET sel == Window(LoopItems(cx, c.v).v, Fld(n, "rev", FALSE),
                                    IF off.r = "int" THEN off.v ELSE 0,
                                    IF lim.r = "int" THEN lim.v ELSE 0 - 1)
                  IN
               IF sel = <<>> THEN
                 (IF "else" \in DOMAIN n
                  THEN [st0 EXCEPT !.k = Append(@, SeqF(n["else"], "block", line + Pad(n) + NLNodes(n.body), line, <<>>))]
                  ELSE st0)
               ELSE [st0 EXCEPT !.k = Append(@,
                       [f |-> "loop", node |-> n, items |-> sel, i |-> 0, phase |-> "next", ln |-> line, bodyln |-> line + Pad(n),
                        savedLoop |-> Lookup(st0.env, B_forloop), savedVar |-> Lookup(st0.env, n.var),
                        cyc |-> <<>>,
                        cols |-> IF cols.r = "int" /\ cols.v > 0 THEN cols.v ELSE 0])]
    [] n.t = "break" -> [st0 EXCEPT !.sig = "break"]
    [] n.t = "continue" -> [st0 EXCEPT !.sig = "continue"]
    [] n.t = "cycle" ->
         LET loops == {j \in 1..Len(st0.k) : st0.k[j].f = "loop"} IN
           IF IsNil(Lookup(st0.env, B_forloop)) /\ loops = {} THEN Fail(cx, st0, line, "cycle")
           ELSE IF loops = {} \/ InInclude(st0.k) THEN Undecided(st0)
           ELSE LET j == CHOOSE j \in loops : \A i \in loops : i <= j
                    lf == st0.k[j]
                    g == Fld(n, "group", <<>>)
                    has == \E i \in 1..Len(lf.cyc) : lf.cyc[i][1] = g
                    cnt == IF has THEN (LET i == CHOOSE i \in 1..Len(lf.cyc) : lf.cyc[i][1] = g IN lf.cyc[i][2]) ELSE 0
                    cyc2 == IF has THEN [i \in 1..Len(lf.cyc) |-> IF lf.cyc[i][1] = g THEN <<g, cnt + 1>> ELSE lf.cyc[i]]
                            ELSE Append(lf.cyc, <<g, 1>>)
                    \* the loop record must still be the loop's own
                    own == Same(Lookup(st0.env, B_forloop), ForloopV(lf.i, Len(lf.items)))
                IN  IF ~own THEN Undecided(st0)
                    ELSE IoCheck(cx, TwWrite(cx, [st0 EXCEPT !.k[j].cyc = cyc2], n.vals[(cnt % Len(n.vals)) + 1]), line)
    \* ---- constructs registered by the embedding program through the public API (RegisterTag / RegisterBlock with
    \* render.Context): what the harness registers under these names is spelled out in harness/ext.go
    \* lqx_args: TagName and TagArgs, verbatim
    [] n.t = "xargs" -> IoCheck(cx, TwWrite(cx, st0, <<60>> \o XArgsName \o <<124>> \o n.s \o <<62>>), line)
    \* lqx_set NAME EXPR: Context.EvaluateString and Context.Set - an assign by other means
    [] n.t = "xset" ->
         LET v == Eval(n.e, st0.env) IN
           IF v.r = "err" THEN Fail(cx, st0, line, "eval")
           ELSE IF v.r = "unspec" THEN Undecided(st0)
           ELSE [st0 EXCEPT !.env = SetVar(st0.env, n.name, v.v)]
    \* lqx_show NAME: Context.Get, printed as Go prints it
    [] n.t = "xshow" ->
         LET v == Lookup(st0.env, n.name) IN
           IF v.k = "str" THEN IoCheck(cx, TwWrite(cx, st0, v.v), line)
           ELSE IF v.k = "nil" THEN IoCheck(cx, TwWrite(cx, st0, <<60, 110, 105, 108, 62>>), line)
           ELSE IF v.k \in {"int", "bool"} THEN IoCheck(cx, TwWrite(cx, st0, ToText(v).s), line)
           ELSE Undecided(st0)
    \* lqx_expand ARGS: Context.ExpandTagArg - the arguments, with the objects in them rendered in the current
    \* bindings (hyphens included), arrive as one piece of output; an error in them is located at the tag
    [] n.t = "xexpand" ->
         [st0 EXCEPT !.ws = Append(@, Writer0), !.k = Append(@, SeqF(n.body, "xexpand", line, line, <<>>))]
    \* lqx_fail: Context.Errorf
    \* lqx_loopidx: a tag that reads the loop state through Context.Get("forloop") - "index/length" inside a loop,
    \* "-" outside
    [] n.t = "xloopidx" ->
         LET fl == Lookup(st0.env, B_forloop) IN
           IF fl.k = "map" /\ MapHas(fl, B_index) /\ MapHas(fl, B_length) /\ MapGet(fl, B_index).k = "int" /\ MapGet(fl, B_length).k = "int"
           THEN IoCheck(cx, TwWrite(cx, st0, IntText(MapGet(fl, B_index).v) \o <<47>> \o IntText(MapGet(fl, B_length).v)), line)
           ELSE IF IsNil(fl) THEN IoCheck(cx, TwWrite(cx, st0, <<45>>), line)
           ELSE Undecided(st0)
    [] n.t = "xfail" -> Fail(cx, st0, line, "ext")
    \* lqx_sub: a tag whose own work fails somewhere else (it renders another template and wraps that render's error,
    \* which carries a location of its own): the failure is located at this tag
    [] n.t = "xsub" -> Fail(cx, st0, line, "ext")
    \* lqx_file NAME: Context.RenderFile(dir of Context.SourceFile / NAME, {p: 7}) - the file is rendered with the
    \* current bindings plus p; what it assigns stays with it
    [] n.t = "xfile" ->
         LET p == JoinPath(DirOf(cx.path), n.rel) IN
           IF FileIn(cx.fs, p) \/ FileIn(cx.cache, p)
           THEN LET ent == IF FileIn(cx.fs, p) THEN FileEntry(cx.fs, p) ELSE FileEntry(cx.cache, p) IN
                IF Len(ent) = 3 THEN Fail(cx, st0, 0 - 1, "include-syntax")
                ELSE [st0 EXCEPT !.ws = Append(@, Writer0), !.env = SetVar(@, <<112>>, IntV(7)),
                                 !.k = Append(@, SeqF(ent[2], "include", line, line, st0.env))]
           ELSE Fail(cx, st0, line, "include-missing")
    \* lqx_drop / lqx_wrap / lqx_twice ... end: Context.InnerString zero times, once, twice; the block writes
    \* "(" first "|" second ")" in one piece
    [] n.t = "xblock" ->
         IF n.times = 0 THEN st0
         ELSE [st0 EXCEPT !.ws = Append(@, Writer0),
                          !.k = Append(@, SeqF(n.body, "xblock", line + Pad(n), line, [left |-> n.times - 1, acc |-> <<40>>, body |-> n.body, ln |-> line + Pad(n)]))]
    [] n.t = "include" ->
         LET v == Eval(n.e, st0.env) IN
           IF v.r = "err" THEN Fail(cx, st0, line, "eval")
           ELSE IF v.r = "unspec" \/ IsUnspec(v.v) THEN Undecided(st0)
           ELSE IF v.v.k # "str" THEN Fail(cx, st0, line, "include-arg")
           ELSE LET p == JoinPath(DirOf(cx.path), v.v.v) IN
             IF FileIn(cx.fs, p) \/ FileIn(cx.cache, p)
             THEN LET ent == IF FileIn(cx.fs, p) THEN FileEntry(cx.fs, p) ELSE FileEntry(cx.cache, p) IN
                  IF Len(ent) = 3 THEN Fail(cx, st0, 0 - 1, "include-syntax")
                  ELSE [st0 EXCEPT !.ws = Append(@, Writer0),
                                   !.k = Append(@, SeqF(ent[2], "include", line, line, st0.env))]
             ELSE Fail(cx, st0, line, "include-missing")

\* the end of a sequence frame
EndSeq(cx, st, f) ==
  LET flushed == TwFlush(st)
      \* a sink failure while flushing at the end of a block body
      fl == IF flushed.sink.failed
            THEN (IF cx.pol.flushErr = "panic" THEN [flushed EXCEPT !.status = "panic"]
                  ELSE Fail(cx, flushed, 0 - 1, "io"))
            ELSE flushed
  IN
  IF fl.status # "run" THEN fl
  ELSE CASE f.end = "root" -> [fl EXCEPT !.status = "ok", !.k = Pop(@)]
         [] f.end \in {"block", "iter"} -> [fl EXCEPT !.k = Pop(@)]
         [] f.end = "capture" ->
              [fl EXCEPT !.k = Pop(@), !.ws = Pop(@),
                         !.env = SetVar(fl.env, f.aux, Str(Top(fl.ws).acc))]
         [] f.end = "include" ->
              LET content == Top(fl.ws).acc
                  s1 == [fl EXCEPT !.k = Pop(@), !.ws = Pop(@), !.env = f.aux]
              IN  IoCheck(cx, TwWrite(cx, s1, content), f.bl)
         [] f.end = "xexpand" ->
              LET content == Top(fl.ws).acc
                  s1 == [fl EXCEPT !.k = Pop(@), !.ws = Pop(@)]
              IN  IoCheck(cx, TwWrite(cx, s1, content), f.bl)
         [] f.end = "xblock" ->
              LET content == Top(fl.ws).acc
                  s1 == [fl EXCEPT !.k = Pop(@), !.ws = Pop(@)]
              IN  IF f.aux.left > 0
                  THEN [s1 EXCEPT !.ws = Append(@, Writer0),
                                  !.k = Append(@, SeqF(f.aux.body, "xblock", f.aux.ln, f.bl,
                                                       [f.aux EXCEPT !.left = @ - 1, !.acc = @ \o content \o <<124>>]))]
                  ELSE IoCheck(cx, TwWrite(cx, s1, f.aux.acc \o content \o <<41>>), f.bl)

\* tablerow decoration around iteration i (1-based) of n
RowBefore(cx, st, lf) ==
  IF lf.node.tag # "tablerow" THEN st
  ELSE LET i0 == lf.i - 1
           cols == lf.cols
           row == IF cols = 0 THEN 0 ELSE i0 \div cols
           col == IF cols = 0 THEN i0 ELSE i0 % cols
       IN  WriteAll(cx, st, (IF col = 0 THEN <<TrOpen(row + 1)>> ELSE <<>>) \o <<TdOpen(col + 1)>>)
RowAfter(cx, st, lf) ==
  IF lf.node.tag # "tablerow" THEN st
  ELSE LET cols == lf.cols
           endRow == (cols # 0 /\ lf.i % cols = 0) \/ lf.i = Len(lf.items)
       IN  WriteAll(cx, st, <<TdClose>> \o (IF endRow THEN <<TrClose>> ELSE <<>>))

LoopExit(st, lf) ==
  [st EXCEPT !.k = Pop(@),
             !.env = SetVar(SetVar(st.env, B_forloop, lf.savedLoop), lf.node.var, lf.savedVar)]

StepLoop(cx, st, lf) ==
  LET top == Len(st.k) IN
  IF lf.phase = "after" THEN
    \* the body of iteration lf.i has ended (normally, or by continue)
    LET s1 == RowAfter(cx, st, lf) IN
      IF s1.sink.failed
      THEN (IF cx.pol.flushErr = "panic" THEN [s1 EXCEPT !.status = "panic"] ELSE Fail(cx, s1, 0 - 1, "io"))
      ELSE [s1 EXCEPT !.k[top].phase = "next"]
  ELSE IF lf.i >= Len(lf.items) THEN LoopExit(st, lf)
  ELSE
    LET i == lf.i + 1
        lf2 == [lf EXCEPT !.i = i, !.phase = "after"]
        env2 == SetVar(SetVar(st.env, lf.node.var, lf.items[i]), B_forloop, ForloopV(i, Len(lf.items)))
        s1 == RowBefore(cx, [st EXCEPT !.k[top] = lf2, !.env = env2], lf2)
    IN  IF s1.sink.failed
        THEN (IF cx.pol.flushErr = "panic" THEN [s1 EXCEPT !.status = "panic"] ELSE Fail(cx, s1, 0 - 1, "io"))
        ELSE [s1 EXCEPT !.k = Append(@, SeqF(lf.node.body, "iter", lf.bodyln, lf.ln, <<>>))]

\* one step of unwinding for break / continue
StepSignal(cx, st) ==
  IF st.k = <<>> THEN Fail(cx, st, 0 - 1, "loop-signal")
  ELSE LET f == Top(st.k) IN
    IF f.f = "loop" THEN
      (IF st.sig = "break"
       THEN LET s1 == RowAfter(cx, st, f) IN
              IF s1.sink.failed
              THEN (IF cx.pol.flushErr = "panic" THEN [s1 EXCEPT !.status = "panic"] ELSE Fail(cx, s1, 0 - 1, "io"))
              \* the cell is closed; when it was not the last of its row, a row stays open: not decided
              ELSE IF f.node.tag = "tablerow" /\ ~((f.cols # 0 /\ f.i % f.cols = 0) \/ f.i = Len(f.items)) THEN Undecided(s1)
              ELSE [LoopExit(s1, f) EXCEPT !.sig = "none"]
       ELSE [st EXCEPT !.sig = "none"])        \* continue: the loop frame is in phase "after"
    ELSE CASE f.end = "root" -> Fail(cx, [st EXCEPT !.k = Pop(@)], 0 - 1, "loop-signal")
           [] f.end \in {"block", "iter"} -> [st EXCEPT !.k = Pop(@)]
           [] f.end = "capture" -> [st EXCEPT !.k = Pop(@), !.ws = Pop(@)]
           \* (a block of the embedding program that passes the signal on as its error: what it had rendered is dropped)
           [] f.end = "xblock" -> [st EXCEPT !.k = Pop(@), !.ws = Pop(@)]
           [] f.end \in {"include", "xexpand"} -> Undecided(st)

Step(cx, st) ==
  LET s0 == [st EXCEPT !.steps = @ + 1] IN
  IF st.sig # "none" THEN StepSignal(cx, s0)
  ELSE LET f == Top(st.k) top == Len(st.k) IN
    IF f.f = "loop" THEN StepLoop(cx, s0, f)
    ELSE IF f.pc > Len(f.nodes) THEN EndSeq(cx, s0, f)
    ELSE LET n == f.nodes[f.pc]
             adv == [s0 EXCEPT !.k[top].pc = @ + 1, !.k[top].ln = @ + NLNode(n)]
         IN  ExecNode(cx, adv, n, f.ln)

RECURSIVE Run(_, _)
Run(cx, st) == IF st.status # "run" THEN st ELSE Run(cx, Step(cx, st))

\* Big-step result of rendering `nodes` with bindings `env` into a sink
\* that never fails: [status, out, err]
Render(cx, nodes, env) ==
  LET fin == Run(cx, InitSt(nodes, env, Sink0, cx))
  IN  [status |-> fin.status, out |-> fin.sink.acc, err |-> fin.err, env |-> fin.env]

EnvOf(pairs) == [x \in {pairs[i][1] : i \in 1..Len(pairs)} |->
                   (LET i == CHOOSE i \in 1..Len(pairs) : pairs[i][1] = x IN pairs[i][2])]
=============================================================================
