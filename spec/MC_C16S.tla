------------------------------- MODULE MC_C16S ------------------------------
(***************************************************************************)
(* C16, last clause but one: numbers and booleans given as receivers are   *)
(* first converted to the text they print as (nil to the empty string).    *)
(* Receivers: integers, floats in plain and in exponent notation (Go       *)
(* prints a float with a decimal exponent below -4 or of 6 and more as     *)
(* d.ddde+XX), booleans, nil - each through every string filter of a small *)
(* argument grid, in several Go representations.  Law: the result is the   *)
(* result for the string the receiver prints as.                           *)
(***************************************************************************)
EXTENDS LqRender, Json, TLC

VARIABLES ri, call
vars == <<ri, call>>

Recvs == << IntV(12), IntV(0 - 3), IntV(1000000), Flt(5, 2), Flt(0 - 1, 4), Flt(3, 1),
            Flt(2500000, 1), Flt(2469135, 2), Flt(0 - 1000000, 1), Flt(123456789, 1), Flt(1, 20000), Flt(0 - 3, 100000), Flt(1, 10000),
            Bool(TRUE), Bool(FALSE), Nil >>
\* (size is the collection filter as well: what it says of a number is left open, as for a map)
Calls == [name : {"upcase", "downcase", "capitalize", "strip", "escape", "url_encode", "strip_newlines"}, args : {<<>>}]
         \cup [name : {"append", "prepend", "remove", "remove_first", "split"}, args : {<<Str(<<>>)>>, <<Str(<<53>>)>>, <<Str(<<101>>)>>, <<Str(<<46>>)>>}]
         \cup [name : {"replace", "replace_first"}, args : {<<Str(<<53>>), Str(<<120>>)>>, <<Str(<<101, 43>>), Str(<<>>)>>}]
         \cup [name : {"slice"}, args : {<<IntV(0), IntV(3)>>, <<IntV(0 - 2)>>, <<IntV(1), IntV(9)>>}]
         \cup [name : {"truncate"}, args : {<<IntV(3), Str(<<>>)>>, <<IntV(5)>>}]
         \cup [name : {"truncatewords"}, args : {<<IntV(1)>>}]
Init == ri \in 1..Len(Recvs) /\ call \in Calls
Next == UNCHANGED vars

v == Recvs[ri]
R == Filter(call.name, v, call.args)
Dec(r) == r.r = "val" /\ ~IsUnspec(r.v)
\* every receiver of the universe has a decided text, and the filter applied to it is the filter applied to that text
TextDecided == ToText(v).ok
ReceiverAsText == Filter(call.name, Str(ToText(v).s), call.args) = R

S0 == <<115>>
ArgExprs == [i \in 1..Len(call.args) |-> [t |-> "lit", v |-> call.args[i]]]
F1 == [t |-> "filter", e |-> [t |-> "var", name |-> S0], name |-> call.name, args |-> ArgExprs]
Prog ==
  IF call.name = "split"
  THEN << [t |-> "assign", name |-> <<114>>, e |-> F1],
          [t |-> "for", tag |-> "for", var |-> <<120>>, coll |-> [t |-> "var", name |-> <<114>>],
           body |-> <<[t |-> "text", s |-> <<91>>], [t |-> "obj", e |-> [t |-> "var", name |-> <<120>>]], [t |-> "text", s |-> <<93>>]>>],
          [t |-> "text", s |-> <<35>>], [t |-> "obj", e |-> [t |-> "var", name |-> S0]] >>
  ELSE << [t |-> "obj", e |-> F1], [t |-> "text", s |-> <<35>>], [t |-> "obj", e |-> [t |-> "var", name |-> S0]] >>
Hints == CASE v.k = "int" -> <<"", "int64", "drop", "ptr">>
           [] v.k = "flt" -> <<"", "drop", "ptr">>
           [] v.k = "bool" -> <<"", "drop", "ptr">>
           [] OTHER -> <<"", "drop">>
IdStr == ToString(<<ri, call.name, call.args>>)
\* single-precision floats that no short decimal denotes exactly (0.1f, 1/3 as a float32, the largest below 1): whatever text
\* they print as, a string filter sees that text - {{ x | append: "" }} renders as {{ x }} does (the harness compares)
F32U == << Flt(13421773, 134217728), Flt(11184811, 33554432), Flt(16777215, 16777216), Flt(0 - 13421773, 134217728) >>
X32(k, f) == [id |-> "f32-" \o ToString(k) \o "-" \o f, kind |-> "render", f |-> f,
              prog |-> << [t |-> "obj", e |-> [t |-> "filter", e |-> [t |-> "var", name |-> S0], name |-> f, args |-> IF f = "append" THEN <<[t |-> "lit", v |-> Str(<<>>)]>> ELSE <<>>]] >>,
              prog2 |-> << [t |-> "obj", e |-> [t |-> "var", name |-> S0]] >>, env |-> << <<S0, F32U[k]>> >>, repr |-> ("s" :> "float32")]
EmitF32 == \A k \in 1..Len(F32U) : \A f \in {"append", "strip", "downcase"} : PrintT(ToJson(X32(k, f)))
\* every ASCII white-space character (tab, line feed, vertical tab, form feed, carriage return, space) at the edges of a
\* text, alone and inside a run of others: strip / lstrip / rstrip remove it, and nothing else
WsChars == {9, 10, 11, 12, 13, 32}
WsShapes(c) == << <<c, 97, c>>, <<32, c, 97, c, 32>>, <<c, 32, 97, 98, 32, c>>, <<c>>, <<97, c, 98>>, <<c, c, 97>>, <<97, c, c>> >>
EmitWs == \A c \in WsChars : \A k \in 1..Len(WsShapes(c)) : \A f \in {"strip", "lstrip", "rstrip"} :
  PrintT(ToJson([id |-> "ws-" \o ToString(c) \o "-" \o ToString(k) \o "-" \o f, kind |-> "render", f |-> f,
                 prog |-> << [t |-> "text", s |-> <<91>>], [t |-> "obj", e |-> [t |-> "filter", e |-> [t |-> "var", name |-> S0], name |-> f, args |-> <<>>]],
                             [t |-> "text", s |-> <<93>>] >>,
                 env |-> << <<S0, Str(WsShapes(c)[k])>> >>]))
WsLaw == \A c \in WsChars : \A k \in 1..Len(WsShapes(c)) :
  LET t == WsShapes(c)[k] IN Strip(t) = LStrip(RStrip(t)) /\ (\A i \in 1..Len(Strip(t)) : Strip(t)[i] \in {97, 98} \/ (i > 1 /\ i < Len(Strip(t))))
EmitCase == ((ri = 1 /\ call.name = "upcase") => EmitF32 /\ EmitWs /\ WsLaw) /\ \A h \in 1..Len(Hints) :
  PrintT(ToJson([id |-> "sr" \o ToString(h) \o IdStr, kind |-> "render", f |-> call.name, prog |-> Prog, env |-> << <<S0, v>> >>]
                @@ (IF Hints[h] = "" THEN <<>> ELSE [repr |-> ("s" :> Hints[h])])))
=============================================================================
