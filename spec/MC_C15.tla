------------------------------- MODULE MC_C15 -------------------------------
(***************************************************************************)
(* C15 - array filters.  TLC enumerates every array up to N elements over  *)
(* three element universes (numbers with nil, strings, maps with present / *)
(* absent / nil keys) times the array-filter calls and two-filter chains,  *)
(* checks the laws of the statement on the reference (LqFilters) and emits *)
(* a probe that prints the result element by element and then the input    *)
(* again (so a filter that modifies its input is seen), for several Go     *)
(* representations of the same array.                                      *)
(***************************************************************************)
EXTENDS LqRender, Json, TLC

CONSTANTS N,        \* longest array
          Reprs     \* TRUE: also emit the typed representations

VARIABLES u, ix, call
vars == <<u, ix, call>>

KK == <<107>>        \* "k"
JJ == <<106>>        \* "j"
SZ == <<115, 105, 122, 101>>   \* "size": as a property of a map it is the entry under that key if there is one, the number of entries if not
M1(k, v) == MapV(<< <<k, v>> >>)
Elems(un) ==
  CASE un = "num" -> <<IntV(1), IntV(2), Flt(5, 2), Nil>>
    [] un = "str" -> <<Str(<<97>>), Str(<<66>>), Str(<<98>>)>>
    [] un = "map" -> <<M1(KK, IntV(1)), M1(KK, IntV(2)), M1(JJ, IntV(1)), M1(KK, Nil), M1(KK, Str(<<49>>))>>
    [] un = "mapsz" -> <<M1(KK, IntV(1)), MapV(<< <<JJ, IntV(2)>>, <<KK, IntV(1)>> >>), M1(SZ, IntV(1)), M1(SZ, Nil), MapV(<<>>)>>
    \* whole numbers as integers and as floats: equal by ==, so one element to uniq (the first occurrence stays)
    [] un = "numeq" -> <<IntV(1), Flt(1, 1), IntV(0 - 1), Flt(0 - 1, 1), IntV(0 - 2), Flt(1, 2)>>
    \* values that look empty or false without being nil: compact keeps them all
    [] un = "falsy" -> <<Bool(FALSE), Nil, IntV(0), Str(<<>>), Bool(TRUE)>>
    [] un = "int" -> <<IntV(3), IntV(1), IntV(2)>>
    [] un = "mix" -> <<Nil, Str(<<97>>), IntV(1), Arr(<<IntV(1)>>), Arr(<<Str(<<49>>)>>)>>

RECURSIVE SeqsOfLen(_, _)
SeqsOfLen(n, m) == IF n = 0 THEN {<<>>} ELSE {<<i>> \o t : i \in 1..m, t \in SeqsOfLen(n - 1, m)}

Single == {"compact", "reverse", "first", "last", "size", "uniq", "sort", "join", "sort_natural"}
CallsOf(un) ==
  IF un = "numeq" THEN [name : {"uniq", "sort", "compact", "reverse"}, arg : {"none"}, then : {"none", "size", "join", "uniq"}] ELSE
  IF un = "mapsz" THEN [name : {"map"}, arg : {"k", "ksz"}, then : {"none", "compact", "join"}] \cup [name : {"sort"}, arg : {"k", "ksz"}, then : {"none"}] ELSE
  [name : Single, arg : {"none"}, then : {"none"}]
  \* (a separator of two characters; the empty separator: the items one after the other, not the default blank)
  \cup [name : {"join"}, arg : {"comma", "nosep", "sep2"}, then : {"none"}]
  \cup [name : {"concat"}, arg : {"other", "empty"}, then : {"none"}]
  \* two applications to the same receiver (also to a filtered copy of it) with different arguments: they must not share storage
  \cup [name : {"concat"}, arg : {"other"}, then : {"again", "again-compact"}]
  \cup [name : {"sort", "map"}, arg : {"k"}, then : {"none"}]
  \cup [name : {"reverse", "sort", "compact", "uniq"}, arg : {"none"}, then : {"reverse", "compact", "sort", "size", "first", "join"}]

Init == /\ u \in {"num", "str", "map", "int", "mix", "mapsz", "numeq", "falsy"}
        /\ \E n \in 0..N : ix \in SeqsOfLen(n, Len(Elems(u)))
        /\ call \in CallsOf(u)
Next == UNCHANGED vars

arr == [i \in 1..Len(ix) |-> Elems(u)[ix[i]]]
ArgVals == CASE call.arg = "none" -> <<>>
             [] call.arg = "comma" -> <<Str(<<44>>)>>
             [] call.arg = "nosep" -> <<Str(<<>>)>>
             [] call.arg = "sep2" -> <<Str(<<44, 32>>)>>
             [] call.arg = "other" -> <<Arr(<<IntV(9)>>)>>
             [] call.arg = "empty" -> <<Arr(<<>>)>>
             [] call.arg = "k" -> <<Str(KK)>>
             [] call.arg = "ksz" -> <<Str(SZ)>>
R1 == Filter(call.name, Arr(arr), ArgVals)
Again == call.then \in {"again", "again-compact"}
R == IF call.then = "none" \/ Again \/ R1.r # "val" THEN R1 ELSE Filter(call.then, R1.v, <<>>)
Dec(r) == r.r = "val" /\ ~IsUnspec(r.v)
F(name, v, args) == Filter(name, v, args)

\* ------------------------------------------------------------------ laws
IsPerm(a, b) == Len(a) = Len(b) /\ \E p \in [1..Len(a) -> 1..Len(a)] :
                   (\A i, j \in 1..Len(a) : p[i] = p[j] => i = j) /\ \A i \in 1..Len(a) : Same(a[i], b[p[i]])
Simple == call.then = "none"
SortIsAscendingPermutation ==
  (Simple /\ call.name = "sort" /\ call.arg = "none" /\ Dec(R)) =>
     /\ IsPerm(arr, R.v.v)
     /\ LET nn == SelectSeq(R.v.v, LAMBDA e : ~IsNil(e)) IN \A i \in 1..(Len(nn) - 1) : Less3(nn[i + 1], nn[i]) # "t"
SortByKeyLackingFirst ==
  (Simple /\ call.name = "sort" /\ call.arg \in {"k", "ksz"} /\ Dec(R)) =>
     LET key == ArgVals[1].v IN
     /\ IsPerm(arr, R.v.v)
     /\ \A i, j \in 1..Len(R.v.v) : (IsNil(KeyOf(R.v.v[j], key)) /\ ~IsNil(KeyOf(R.v.v[i], key))) => j < i
     /\ \A i, j \in 1..Len(R.v.v) : (i < j /\ ~IsNil(KeyOf(R.v.v[i], key)) /\ ~IsNil(KeyOf(R.v.v[j], key)))
                                       => Less3(KeyOf(R.v.v[j], key), KeyOf(R.v.v[i], key)) # "t"
ReverseInvolution == (Simple /\ call.name = "reverse" /\ Dec(R)) => F("reverse", R.v, <<>>) = FVal(Arr(arr))
UniqLaw == (Simple /\ call.name = "uniq" /\ Dec(R)) =>
              /\ \A i, j \in 1..Len(R.v.v) : i # j => Eq3(R.v.v[i], R.v.v[j]) # "t"
              /\ \A i \in 1..Len(arr) : \E j \in 1..Len(R.v.v) : Eq3(arr[i], R.v.v[j]) = "t"
              \* first occurrences, in order: the result is a subsequence of the input
              /\ \E f \in [1..Len(R.v.v) -> 1..Len(arr)] :
                    (\A i, j \in 1..Len(R.v.v) : i < j => f[i] < f[j]) /\ \A i \in 1..Len(R.v.v) : Same(arr[f[i]], R.v.v[i])
CompactLaw == (Simple /\ call.name = "compact" /\ Dec(R)) =>
                 /\ \A i \in 1..Len(R.v.v) : ~IsNil(R.v.v[i])
                 /\ Len(R.v.v) = Cardinality({i \in 1..Len(arr) : ~IsNil(arr[i])})
FirstLastSize == /\ (Simple /\ call.name = "first" /\ Dec(R)) => Same(R.v, Index(Arr(arr), IntV(0)))
                 /\ (Simple /\ call.name = "last" /\ Dec(R)) => Same(R.v, Index(Arr(arr), IntV(0 - 1)))
                 /\ (Simple /\ call.name = "size" /\ Dec(R)) => R.v.v = Len(arr)
ConcatLaw == (Simple /\ call.name = "concat" /\ Dec(R)) => Len(R.v.v) = Len(arr) + Len(ArgVals[1].v)
MapLaw == (Simple /\ call.name = "map" /\ Dec(R)) => \A i \in 1..Len(arr) : Same(R.v.v[i], Prop(arr[i], ArgVals[1].v))

\* ------------------------------------------------------------ the probe
A == <<97>>
RR == <<114>>
X == <<120>>
V(n) == [t |-> "var", name |-> n]
T(s) == [t |-> "text", s |-> s]
Ob(e) == [t |-> "obj", e |-> e]
ElemProbe(x) == IF u \in {"map", "mapsz"}
                THEN <<T(<<91>>), Ob([t |-> "prop", e |-> V(x), name |-> KK]), T(<<58>>), Ob([t |-> "prop", e |-> V(x), name |-> JJ]), T(<<93>>)>>
                ELSE <<T(<<91>>), Ob(V(x)), T(<<93>>)>>
\* (the elements of a `map` result are the looked-up values themselves)
ResProbe(x) == IF call.name = "map" THEN <<T(<<91>>), Ob(V(x)), T(<<93>>)>> ELSE ElemProbe(x)
Each(coll) == [t |-> "for", tag |-> "for", var |-> X, coll |-> V(coll), body |-> IF coll = RR THEN ResProbe(X) ELSE ElemProbe(X)]
Lit(v) == [t |-> "lit", v |-> v]
Piped == LET f1 == [t |-> "filter", e |-> V(A), name |-> call.name, args |-> [i \in 1..Len(ArgVals) |-> Lit(ArgVals[i])]]
         IN  IF call.then = "none" \/ Again THEN f1 ELSE [t |-> "filter", e |-> f1, name |-> call.then, args |-> <<>>]
Last == IF call.then = "none" \/ Again THEN call.name ELSE call.then
Scalar == Last \in {"size", "join"}
OneElem == Last \in {"first", "last"}
\* mapslice: a loop over the binding would see [key, value] pairs, so the input is shown through join
After(rep) == IF rep \in {"msvalues", "mssize"} THEN <<Ob([t |-> "filter", e |-> V(A), name |-> "join", args |-> <<Lit(Str(<<44>>))>>])>>
              ELSE <<Each(A)>>
\* p = base | concat: [9]   q = base | concat: [8]   print p, q   (base: a, or a | compact)
AgainProg(rep) ==
  LET base == IF call.then = "again-compact" THEN [t |-> "filter", e |-> V(A), name |-> "compact", args |-> <<>>] ELSE V(A)
      BB == <<98>>
      cat(x) == [t |-> "filter", e |-> V(BB), name |-> "concat", args |-> <<Lit(Arr(<<IntV(x)>>))>>]
      show(n) == [t |-> "for", tag |-> "for", var |-> X, coll |-> V(n), body |-> ElemProbe(X)]
  IN  <<[t |-> "assign", name |-> BB, e |-> base], [t |-> "assign", name |-> <<112>>, e |-> cat(9)], [t |-> "assign", name |-> <<113>>, e |-> cat(8)],
        show(<<112>>), T(<<124>>), show(<<113>>), T(<<124>>)>>
      \* (a loop over an ordered-map binding would see [key, value] pairs: there the input is shown through join only)
      \o (IF rep \in {"msvalues", "mssize"} /\ call.then = "again" THEN <<>> ELSE <<show(BB)>>) \o <<T(<<35>>)>> \o After(rep)
Prog(rep) ==
  IF Again THEN AgainProg(rep) ELSE
  (IF Scalar THEN <<Ob(Piped)>>
   ELSE IF OneElem THEN <<[t |-> "assign", name |-> RR, e |-> Piped]>> \o ResProbe(RR)
   ELSE <<[t |-> "assign", name |-> RR, e |-> Piped], Each(RR)>>)
  \o <<T(<<35>>)>> \o After(rep)

AllK2(ks) == \A i \in 1..Len(arr) : arr[i].k \in ks
ReprsFor == {"generic"} \cup (IF ~Reprs THEN {} ELSE
              {"msvalues"} \cup (IF Len(arr) > 0 THEN {"mssize"} ELSE {})
              \cup (IF AllK2({"int"}) THEN {"ints"} ELSE {})
              \cup (IF AllK2({"int"}) /\ \A i \in 1..(Len(arr) - 1) : arr[i + 1].v = arr[i].v + 1 THEN {"range"} ELSE {})
              \cup (IF AllK2({"str"}) THEN {"strings"} ELSE {})
              \cup (IF AllK2({"map"}) THEN {"maps"} ELSE {})
              \cup (IF Len(arr) = 3 THEN {"array3"} ELSE {})
              \cup (IF Len(arr) = 2 THEN {"array2"} ELSE {}))
CaseFor(rep) == [id |-> ToString(<<u, ix, call.name, call.arg, call.then, rep>>), kind |-> "render", f |-> call.name,
                 prog |-> Prog(rep), env |-> << <<A, Arr(arr)>> >>]
                @@ (IF rep = "generic" THEN <<>> ELSE [repr |-> [a |-> rep]])
\* the same call with its argument in a variable, in another Go representation (a Drop, a pointer, a typed slice, a range)
ArgV == <<118, 49>>      \* v1
PipedV == [t |-> "filter", e |-> V(A), name |-> call.name, args |-> <<V(ArgV)>>]
ProgV == (IF Scalar THEN <<Ob(PipedV)>>
          ELSE IF OneElem THEN <<[t |-> "assign", name |-> RR, e |-> PipedV]>> \o ResProbe(RR)
          ELSE <<[t |-> "assign", name |-> RR, e |-> PipedV], Each(RR)>>) \o <<T(<<35>>)>> \o <<Each(A)>>
ArgHints == CASE call.arg \in {"comma", "nosep", "sep2", "k", "ksz"} -> <<"drop", "ptr", "dropdrop">>
              [] call.arg = "other" -> <<"ints", "drop", "range", "int64s", "ptr">>
              [] call.arg = "empty" -> <<"nilslice", "drop", "range">>
              [] OTHER -> <<"drop">>
EmitCase ==
  /\ \A rep \in ReprsFor : PrintT(ToJson(CaseFor(rep)))
  /\ (call.arg # "none" /\ call.then = "none" /\ Len(ix) <= 2) =>
       \A h \in 1..Len(ArgHints) :
         PrintT(ToJson([id |-> ToString(<<u, ix, call.name, call.arg, "argvar", h>>), kind |-> "render", f |-> call.name,
                        prog |-> ProgV, env |-> << <<A, Arr(arr)>>, <<ArgV, ArgVals[1]>> >>, repr |-> ("v1" :> ArgHints[h])]))
=============================================================================
