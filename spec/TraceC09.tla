------------------------------ MODULE TraceC09 ------------------------------
(***************************************************************************)
(* Trace validation for C09.  An event carries the operands a, b and the   *)
(* bits the implementation printed for                                      *)
(*    a==b a!=b a<b a>b a<=b a>=b a contains b, a and b, a or b            *)
(* followed by the same nine for (b, a).  Accepted when                    *)
(*  (1) the render succeeded (evaluating an operator never fails),         *)
(*  (2) every bit the specification decides has the decided value, and     *)
(*  (3) the observed table itself is coherent, whatever the specification  *)
(*      says: != is the negation of ==, > is < swapped, <= is < or ==,     *)
(*      >= is > or ==, == is symmetric, and reflexive on identical values. *)
(*  An event marked "lawsonly" (operands in a representation whose table   *)
(*  the specification leaves open) is held to (1) and (3) only, less        *)
(*  reflexivity (an ordered map equals nothing, itself included).          *)
(***************************************************************************)
EXTENDS LqRender, Json, TLC, IOUtils

Trace == ndJsonDeserialize(IOEnv.LQ_TRACE)
VARIABLE l

Ops == <<"==", "!=", "<", ">", "<=", ">=", "contains">>

Want(a, b) ==
  [k \in 1..9 |->
     IF k <= 7 THEN (LET v == Compare(Ops[k], a, b) IN IF IsUnspec(v) THEN "u" ELSE B3(v.v))
     ELSE IF k = 8 THEN B3(Truthy(a) /\ Truthy(b)) ELSE B3(Truthy(a) \/ Truthy(b))]

Decided(bits, want) == \A k \in 1..9 : want[k] = "u" \/ (bits[k] = 49) = (want[k] = "t")

Coherent(t) ==
  LET x(k) == t.out[k] = 49          \* (a, b)
      y(k) == t.out[9 + k] = 49      \* (b, a)
  IN  /\ x(2) = ~x(1) /\ y(2) = ~y(1)
      /\ x(4) = y(3) /\ y(4) = x(3)
      /\ x(5) = (x(3) \/ x(1)) /\ y(5) = (y(3) \/ y(1))
      /\ x(6) = (x(4) \/ x(1)) /\ y(6) = (y(4) \/ y(1))
      /\ x(1) = y(1)
      /\ ((Same(t.a, t.b) /\ "lawsonly" \notin DOMAIN t) => x(1))
      /\ x(8) = y(8) /\ x(9) = y(9)

Accept(t) ==
  /\ t.outcome = "ok"
  /\ Len(t.out) = 18
  /\ \A k \in 1..18 : t.out[k] \in {48, 49}
  /\ ("lawsonly" \in DOMAIN t) \/ (Decided(SubSeq(t.out, 1, 9), Want(t.a, t.b)) /\ Decided(SubSeq(t.out, 10, 18), Want(t.b, t.a)))
  /\ Coherent(t)

Init == l = 1
Next ==
  /\ l <= Len(Trace)
  /\ l' = l + 1
  /\ LET t == Trace[l] IN
       IF Accept(t) THEN PrintT(<<"V", t.id, "ok">>)
       ELSE PrintT(<<"V", t.id, "REJECT", ToJson([want_ab |-> Want(t.a, t.b), want_ba |-> Want(t.b, t.a)])>>)
TraceAccepted == TLCGet("stats").diameter - 1 = Len(Trace)
=============================================================================
