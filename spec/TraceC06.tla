------------------------------ MODULE TraceC06 ------------------------------
(***************************************************************************)
(* Trace validation for C06.  An event carries a token-class sequence,     *)
(* whether ParseTemplate accepted its spelling, and for an accepted one    *)
(* the tree GetRoot returned (projected to text/obj/tag/raw leaves with    *)
(* the position of their token, and blocks with name, body, clauses).      *)
(* The trace specification runs the parser machine on the sequence.        *)
(***************************************************************************)
EXTENDS LqParse, Json, TLC, IOUtils

Trace == ndJsonDeserialize(IOEnv.LQ_TRACE)
VARIABLE l

RECURSIVE SameTree(_, _)
SameNode(a, b) ==
  /\ a.t = b.t
  /\ CASE a.t \in {"text", "obj", "tag"} -> a.i = b.i
       [] a.t = "raw" -> TRUE
       [] a.t = "block" -> /\ a.name = b.name /\ SameTree(a.body, b.body) /\ Len(a.clauses) = Len(b.clauses)
                           /\ \A k \in 1..Len(a.clauses) : a.clauses[k].name = b.clauses[k].name
                                                           /\ SameTree(a.clauses[k].body, b.clauses[k].body)
SameTree(x, y) == Len(x) = Len(y) /\ \A k \in 1..Len(x) : SameNode(x[k], y[k])

Why(t) ==
  LET r == Parse(t.toks) IN
    IF t.outcome = "panic" THEN "panic"
    ELSE IF r.unspec THEN ""                         \* clause order after an else: not decided
    ELSE IF r.status = "ok" /\ ~t.accepted THEN "a properly nested template was rejected"
    ELSE IF r.status = "rejected" /\ t.accepted THEN "an improperly nested template was accepted"
    ELSE IF r.status = "rejected" /\ ~t.srcerr THEN "the rejection is not a SourceError"
    ELSE IF r.status = "ok" /\ ~("notree" \in DOMAIN t) /\ ~SameTree(r.root, t.tree) THEN "the parsed tree does not mirror the nesting"
    ELSE IF r.status = "ok" /\ t.raws # RawBodies(t.toks, 1, "normal", <<>>) THEN "a raw block does not hold exactly the text between its tags"
    ELSE ""

Init == l = 1
Next ==
  /\ l <= Len(Trace)
  /\ l' = l + 1
  /\ LET t == Trace[l] w == Why(t) IN
       IF w = "" THEN PrintT(<<"V", t.id, IF Parse(t.toks).unspec THEN "unspec" ELSE "ok">>)
       ELSE PrintT(<<"V", t.id, "REJECT", ToJson([why |-> w, status |-> Parse(t.toks).status])>>)
TraceAccepted == TLCGet("stats").diameter - 1 = Len(Trace)
=============================================================================
