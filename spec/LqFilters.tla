------------------------------ MODULE LqFilters ------------------------------
(***************************************************************************)
(* The standard filter library as a function                               *)
(*                                                                         *)
(*     Filter(name, recv, args)  ->  FVal(v) | FErr | FUnspec              *)
(*                                                                         *)
(* FVal(v): the filter must return exactly v (v itself may be Unspec);     *)
(* FErr: applying the filter must be reported as an error;                 *)
(* FUnspec: the listed properties do not decide (any value or an error).   *)
(*                                                                         *)
(* The function is the reference semantics of properties C15 (arrays),     *)
(* C16 (strings), C17 (numbers) and of the pipeline part of C08.  It is    *)
(* deliberately Unspec wherever the statements are silent (coercions of    *)
(* collections to strings, sort ties between distinct elements, rounding   *)
(* direction of negative integer quotients, ...), so that an               *)
(* implementation choice there never raises an alarm.                      *)
(***************************************************************************)
EXTENDS LqValues

FVal(v) == [r |-> "val", v |-> v]
FErr == [r |-> "err"]
FUnspec == [r |-> "unspec"]

\* -------------------------------------------------------------- coercions
\* string parameter / receiver: numbers and booleans become the text they
\* print as, nil the empty string (C16)
AsStr(v) == IF v.k \in {"nil", "bool", "int", "flt", "str", "big"} THEN ScalarText(v)
            ELSE [ok |-> FALSE, s |-> <<>>]

\* decimal spelling  -?digits(.digits)?  with at most 4 fractional digits
NumSpellParts(s) ==
  LET neg == s # <<>> /\ s[1] = 45
      body == IF neg THEN Tail(s) ELSE s
      dot == Find(body, <<46>>)
      ip == IF dot = 0 THEN body ELSE SubSeq(body, 1, dot - 1)
      fp == IF dot = 0 THEN <<>> ELSE SubSeq(body, dot + 1, Len(body))
  IN  [neg |-> neg, ip |-> ip, fp |-> fp, dot |-> dot # 0]
IsNumSpell(s) ==
  LET p == NumSpellParts(s)
  IN  AllDigits(p.ip) /\ Len(p.ip) <= 7 /\ (IF p.dot THEN AllDigits(p.fp) /\ Len(p.fp) <= 4 ELSE TRUE)
NumOfSpell(s) ==
  LET p == NumSpellParts(s)
      sg == IF p.neg THEN 0 - 1 ELSE 1
  IN  IF ~p.dot THEN IntV(sg * DigitsVal(p.ip, 0))
      ELSE Flt(sg * (DigitsVal(p.ip, 0) * (10^Len(p.fp)) + DigitsVal(p.fp, 0)), 10^Len(p.fp))
\* exponent spelling  mantissa (e|E) (+|-)? digits  - what a float of 10^6 and more, or below 10^-4, prints as
ExpAt(s) == IF \E i \in 1..Len(s) : s[i] \in {69, 101} THEN CHOOSE i \in 1..Len(s) : s[i] \in {69, 101} /\ \A j \in 1..(i - 1) : s[j] \notin {69, 101} ELSE 0
ExpParts(s) ==
  LET e == ExpAt(s)
      mant == SubSeq(s, 1, e - 1)
      rest == SubSeq(s, e + 1, Len(s))
      neg == rest # <<>> /\ rest[1] = 45
      ds == IF rest # <<>> /\ rest[1] \in {43, 45} THEN Tail(rest) ELSE rest
  IN  [mant |-> mant, neg |-> neg, ds |-> ds]
IsExpSpell(s) ==
  /\ ExpAt(s) > 1
  /\ LET p == ExpParts(s) m == NumSpellParts(p.mant) IN
       /\ IsNumSpell(p.mant) /\ m.ip # <<>> /\ (m.dot => m.fp # <<>>)
       /\ p.ds # <<>> /\ Len(p.ds) <= 2 /\ AllDigits(p.ds) /\ DigitsVal(p.ds, 0) <= 6
       /\ (IF p.neg THEN Len(m.fp) + DigitsVal(p.ds, 0) <= 6 ELSE Len(m.ip) + DigitsVal(p.ds, 0) <= 8)
NumOfExpSpell(s) ==
  LET p == ExpParts(s)
      m == NumOfSpell(p.mant)
      x == DigitsVal(p.ds, 0)
  IN  IF p.neg THEN Flt(NumN(m), NumD(m) * (10^x)) ELSE Flt(NumN(m) * (10^x), NumD(m))
\* bytes that may occur in some spelling Go's ParseFloat accepts
FloatishByte(b) == IsDigitB(b) \/ b \in {43, 45, 46, 95, 69, 101, 88, 120, 80, 112,
                                         73, 105, 78, 110, 70, 102, 65, 97, 84, 116, 89, 121}
DefinitelyNotNumber(s) == s = <<>> \/ \E i \in 1..Len(s) : ~FloatishByte(s[i])

\* numeric operand: [r |-> "num", v |-> number] | [r |-> "err"] | [r |-> "unspec"]
\* (a plain run of 8 to 16 digits spells a whole number beyond the modelled 32-bit arithmetic)
IsLongDigits(s) == Len(s) \in 8..16 /\ AllDigits(s) /\ s[1] # 48
AsNum(v, isRecv) ==
  CASE IsNum(v) -> [r |-> "num", v |-> v]
    [] v.k = "str" /\ isRecv /\ IsLongDigits(v.v) -> [r |-> "num", v |-> BigV(FALSE, v.v)]
    [] v.k = "str" /\ isRecv /\ IsExpSpell(v.v) -> [r |-> "num", v |-> NumOfExpSpell(v.v)]
    [] v.k = "str" -> IF IsNumSpell(v.v) THEN
                         (IF isRecv THEN [r |-> "num", v |-> NumOfSpell(v.v)] ELSE [r |-> "unspec"])
                      ELSE IF DefinitelyNotNumber(v.v) THEN [r |-> "err"]
                      ELSE [r |-> "unspec"]
    [] OTHER -> [r |-> "unspec"]

\* array receiver / argument
RangeItems(a, b) == IF b < a THEN <<>> ELSE [i \in 1..(b - a + 1) |-> IntV(a + i - 1)]
AsArr(v) ==
  CASE v.k = "arr" -> [ok |-> TRUE, v |-> v.v, nf |-> NilFree(v)]
    [] v.k = "range" -> [ok |-> TRUE, v |-> RangeItems(v.a, v.b), nf |-> FALSE]
    [] OTHER -> [ok |-> FALSE, v |-> <<>>, nf |-> FALSE]

\* ----------------------------------------------------------------- arity
MaxArgs(name) ==
  CASE name \in {"compact", "reverse", "first", "last", "uniq", "abs", "ceil", "floor", "size", "lqx_sum",
                 "escape", "newline_to_br", "strip_html", "strip_newlines", "strip", "lstrip",
                 "rstrip", "url_encode", "url_decode", "json", "inspect", "type"} -> 0
    [] name \in {"default", "concat", "join", "map", "sort", "sort_natural", "modulo", "minus",
                 "plus", "times", "divided_by", "round", "append", "prepend", "remove", "lqx_rep",
                 "remove_first", "split", "date",
                 "upcase", "downcase", "capitalize", "escape_once"} -> 1
    [] name \in {"replace", "replace_first", "slice", "truncate", "truncatewords"} -> 2
    [] OTHER -> 0 - 1
\* documented arity (the four case/escape filters are declared with a
\* spurious extra parameter; an extra argument to them is undecided)
DocArgs(name) == IF name \in {"upcase", "downcase", "capitalize", "escape_once"} THEN 0 ELSE MaxArgs(name)
KnownFilter(name) == MaxArgs(name) >= 0

\* ------------------------------------------------------------ array part
AllK(s, ks) == \A i \in 1..Len(s) : s[i].k \in ks \/ (s[i].k = "big" /\ "int" \in ks)
\* a strict total order exists on s and ties are only between identical values
SortableSeq(s) ==
  /\ (AllK(s, {"int", "flt"}) \/ AllK(s, {"str"}))
  /\ \A i, j \in 1..Len(s) : (Less3(s[i], s[j]) = "f" /\ Less3(s[j], s[i]) = "f") => Same(s[i], s[j])
ValLess(a, b) == Less3(a, b) = "t"

KeyOf(e, key) == IF e.k = "map" /\ MapHas(e, key) THEN MapGet(e, key) ELSE Nil
SortByKey(s, key) ==
  LET lacking == SelectSeq(s, LAMBDA e : IsNil(KeyOf(e, key)))
      having == SelectSeq(s, LAMBDA e : ~IsNil(KeyOf(e, key)))
      keys == [i \in 1..Len(having) |-> KeyOf(having[i], key)]
      \* ties between distinct entries are undecided (Go's sort is not stable)
      decided == /\ (AllK(keys, {"int", "flt"}) \/ AllK(keys, {"str"}))
                 /\ \A i, j \in 1..Len(having) :
                      (Less3(keys[i], keys[j]) = "f" /\ Less3(keys[j], keys[i]) = "f") => Same(having[i], having[j])
                 /\ \A i, j \in 1..Len(lacking) : Same(lacking[i], lacking[j])
  IN  IF decided
      THEN FVal(Arr(lacking \o SortBy(having, LAMBDA x, y : ValLess(KeyOf(x, key), KeyOf(y, key)))))
      ELSE FUnspec

RECURSIVE UniqSeq(_, _)
UniqSeq(s, seen) ==
  IF s = <<>> THEN <<>>
  ELSE IF \E i \in 1..Len(seen) : Eq3(seen[i], Head(s)) = "t" THEN UniqSeq(Tail(s), seen)
  ELSE <<Head(s)>> \o UniqSeq(Tail(s), Append(seen, Head(s)))
\* "distinct" is by ==: of 1 and 1.0 the first occurrence stays.  Decided when no pair's equality is open.
UniqDecided(s) == \A i, j \in 1..Len(s) : Eq3(s[i], s[j]) # "u"

JoinItems(s, sep) ==
  LET kept == SelectSeq(s, LAMBDA e : ~IsNil(e))
      ts == [i \in 1..Len(kept) |-> ScalarText(kept[i])]
  IN  IF \A i \in 1..Len(ts) : ts[i].ok
      THEN FVal(Str(JoinWith([i \in 1..Len(ts) |-> ts[i].s], sep)))
      ELSE FUnspec

ArrayFilter(name, a, args, nf) ==
  LET n == Len(args)
      arg1 == IF n >= 1 THEN args[1] ELSE Nil
      nonNil == SelectSeq(a, LAMBDA e : ~IsNil(e))
      nils == SelectSeq(a, LAMBDA e : IsNil(e))
  IN
  CASE nf /\ ~(name \in {"compact", "size", "join"} \/ (name = "sort" /\ n = 0)) -> FUnspec
    [] name = "compact" -> FVal(Arr(SelectSeq(a, LAMBDA e : ~IsNil(e))))
    [] name = "reverse" -> FVal(Arr(Rev(a)))
    [] name = "first" -> FVal(IF a = <<>> THEN Nil ELSE a[1])
    [] name = "last" -> FVal(IF a = <<>> THEN Nil ELSE a[Len(a)])
    [] name = "size" -> FVal(IntV(Len(a)))
    [] name = "concat" -> IF n = 1 /\ AsArr(arg1).ok /\ ~AsArr(arg1).nf THEN FVal(Arr(a \o AsArr(arg1).v)) ELSE FUnspec
    [] name = "join" -> IF n = 0 THEN JoinItems(a, <<32>>)
                        ELSE IF arg1.k = "str" THEN JoinItems(a, arg1.v) ELSE FUnspec
    [] name = "map" -> IF n = 1 /\ arg1.k = "str"
                       THEN FVal(Arr([i \in 1..Len(a) |-> Prop(a[i], arg1.v)])) ELSE FUnspec
    [] name = "uniq" -> IF UniqDecided(a) THEN FVal(Arr(UniqSeq(a, <<>>))) ELSE FUnspec
    [] name = "sort" -> IF n = 0 THEN
                          (IF SortableSeq(a) THEN FVal(Arr(SortBy(a, ValLess)))
                           ELSE IF nils # <<>> /\ SortableSeq(nonNil) THEN FVal(ArrNF(nils \o SortBy(nonNil, ValLess)))
                           ELSE FUnspec)
                        ELSE IF arg1.k = "str" THEN SortByKey(a, arg1.v) ELSE FUnspec
    [] name = "sort_natural" ->
         IF n = 0 /\ AllK(a, {"str"}) /\ (\A i \in 1..Len(a) : CaseModelled(a[i].v))
            /\ \A i, j \in 1..Len(a) : Upcase(a[i].v) = Upcase(a[j].v) => a[i] = a[j]
         THEN FVal(Arr(SortBy(a, LAMBDA x, y : BytesLess(Upcase(x.v), Upcase(y.v)))))
         ELSE FUnspec
    [] OTHER -> FUnspec

\* ----------------------------------------------------------- string part
TruncateChars(s, n, el) ==
  LET cs == Chars(s) IN
    IF Len(cs) <= n THEN s
    ELSE Flatten(SubSeq(cs, 1, n - CharCount(el))) \o el

\* words separated by single spaces, no leading/trailing space
SimpleWords(s) == s # <<>> /\ ~IsSpaceB(s[1]) /\ ~IsSpaceB(s[Len(s)])
                  /\ (\A i \in 1..Len(s) : IsSpaceB(s[i]) => s[i] = 32)
                  /\ ~HasSub(s, <<32, 32>>)

\* words: maximal runs of non-space bytes; decided when the only spaces are ASCII ones (no byte that could
\* begin a Unicode space: U+0085, U+00A0, U+1680, U+2000.., U+3000)
WordCount(s) == Cardinality({i \in 1..Len(s) : ~IsSpaceB(s[i]) /\ (i = 1 \/ IsSpaceB(s[i - 1]))})
AsciiSpacesOnly(s) == \A i \in 1..Len(s) : s[i] \notin {194, 225, 226, 227}

RECURSIVE UrlDecode(_)
\* [ok, s]: ok = FALSE when an escape is malformed
UrlDecode(s) ==
  IF s = <<>> THEN [ok |-> TRUE, s |-> <<>>]
  ELSE IF Head(s) = 43 THEN LET r == UrlDecode(Tail(s)) IN [ok |-> r.ok, s |-> <<32>> \o r.s]
  ELSE IF Head(s) = 37 THEN
    LET hv(b) == IF IsDigitB(b) THEN b - 48
                 ELSE IF b >= 65 /\ b <= 70 THEN b - 55
                 ELSE IF b >= 97 /\ b <= 102 THEN b - 87 ELSE 0 - 1
    IN  IF Len(s) < 3 \/ hv(s[2]) < 0 \/ hv(s[3]) < 0 THEN [ok |-> FALSE, s |-> <<>>]
        ELSE LET r == UrlDecode(SubSeq(s, 4, Len(s))) IN [ok |-> r.ok, s |-> <<hv(s[2]) * 16 + hv(s[3])>> \o r.s]
  ELSE LET r == UrlDecode(Tail(s)) IN [ok |-> r.ok, s |-> <<Head(s)>> \o r.s]

\* the text without its tags: from each '<' (leftmost first) to the nearest '>' after it, when they are on one line
RECURSIVE StripHtml(_)
StripHtml(s) ==
  LET closes(i) == {j \in (i + 1)..Len(s) : s[j] = 62}
      opens == {i \in 1..Len(s) : s[i] = 60 /\ closes(i) # {} /\ \A k \in (i + 1)..(MinOf(closes(i)) - 1) : s[k] # 10}
  IN  IF opens = {} THEN s
      ELSE LET i == MinOf(opens) j == MinOf(closes(i))
           IN  SubSeq(s, 1, i - 1) \o StripHtml(SubSeq(s, j + 1, Len(s)))

\* a text without a digit in it, where a filter takes a whole number: it cannot be converted - an error, also
\* where the argument may be left out
NoNumberStr(v) == v.k = "str" /\ \A i \in 1..Len(v.v) : v.v[i] \notin 48..57
StringFilter(name, s, args) ==
  LET n == Len(args)
      a1 == IF n >= 1 THEN AsStr(args[1]) ELSE [ok |-> TRUE, s |-> <<>>]
      a2 == IF n >= 2 THEN AsStr(args[2]) ELSE [ok |-> TRUE, s |-> <<>>]
      strArgs1 == n = 1 /\ a1.ok
      strArgs2 == n = 2 /\ a1.ok /\ a2.ok
      S(x) == FVal(Str(x))
  IN
  CASE name = "append" -> IF strArgs1 THEN S(s \o a1.s) ELSE FUnspec
    [] name = "prepend" -> IF strArgs1 THEN S(a1.s \o s) ELSE FUnspec
    [] name = "upcase" -> IF n = 0 /\ CaseModelled(s) THEN S(Upcase(s)) ELSE FUnspec
    [] name = "downcase" -> IF n = 0 /\ CaseModelled(s) THEN S(Downcase(s)) ELSE FUnspec
    [] name = "capitalize" ->
         IF n = 0 /\ CaseModelled(s)
         THEN (IF s = <<>> THEN S(s) ELSE LET cs == Chars(s) IN S(UpChar(cs[1]) \o Flatten(Tail(cs))))
         ELSE FUnspec
    [] name = "strip" -> IF n = 0 THEN S(Strip(s)) ELSE FUnspec
    [] name = "lstrip" -> IF n = 0 THEN S(LStrip(s)) ELSE FUnspec
    [] name = "rstrip" -> IF n = 0 THEN S(RStrip(s)) ELSE FUnspec
    [] name = "strip_html" -> IF n = 0 THEN S(StripHtml(s)) ELSE FUnspec
    [] name = "strip_newlines" -> IF n = 0 THEN S(SelectSeq(s, LAMBDA b : b # 10)) ELSE FUnspec
    [] name = "newline_to_br" -> IF n = 0 THEN S(ReplaceN(s, <<10>>, <<60, 98, 114, 32, 47, 62>>, 0 - 1)) ELSE FUnspec
    [] name = "replace" -> IF strArgs2 /\ a1.s # <<>> THEN S(ReplaceN(s, a1.s, a2.s, 0 - 1)) ELSE FUnspec
    [] name = "replace_first" -> IF strArgs2 /\ a1.s # <<>> THEN S(ReplaceN(s, a1.s, a2.s, 1)) ELSE FUnspec
    [] name = "remove" -> IF strArgs1 /\ a1.s # <<>> THEN S(ReplaceN(s, a1.s, <<>>, 0 - 1)) ELSE FUnspec
    [] name = "remove_first" -> IF strArgs1 /\ a1.s # <<>> THEN S(ReplaceN(s, a1.s, <<>>, 1)) ELSE FUnspec
    [] name = "size" -> IF n = 0 /\ ValidUtf8(s) THEN FVal(IntV(CharCount(s))) ELSE FUnspec
    [] name = "split" ->
         IF ~strArgs1 THEN FUnspec
         ELSE LET pieces == IF a1.s = <<32>> THEN SplitSpaceRuns(s, <<>>)
                            ELSE IF a1.s = <<>> THEN Chars(s)
                            ELSE SplitOn(s, a1.s)
                  kept == DropTrailingEmpty(pieces)
              IN  IF a1.s = <<>> /\ ~ValidUtf8(s) THEN FUnspec
                  ELSE FVal(Arr([i \in 1..Len(kept) |-> Str(kept[i])]))
    [] name = "slice" ->
         \* start (and optional length, default 1) in characters; decided
         \* when the start lies inside the string and the length is >= 0
         IF n \in {1, 2} /\ (NoNumberStr(args[1]) \/ (n = 2 /\ args[1].k = "int" /\ NoNumberStr(args[2]))) THEN FErr
         ELSE IF n \in {1, 2} /\ args[1].k = "int" /\ (n = 1 \/ args[2].k = "int") /\ ValidUtf8(s)
         THEN LET cs == Chars(s)
                  st0 == args[1].v
                  st == IF st0 < 0 THEN st0 + Len(cs) ELSE st0
                  ln == IF n = 2 THEN args[2].v ELSE 1
              IN  IF st >= 0 /\ st < Len(cs) /\ ln >= 0
                  THEN S(Flatten(SubSeq(cs, st + 1, MinI(st + ln, Len(cs)))))
                  ELSE FUnspec
         ELSE FUnspec
    [] name = "truncate" ->
         \* decided for single-line valid text, an ellipsis free of
         \* regexp-template characters, and a length that leaves room for it
         IF n \in {1, 2} /\ NoNumberStr(args[1]) THEN FErr
         ELSE IF n \in {1, 2} /\ args[1].k = "int" /\ (n = 1 \/ args[2].k = "str") /\ ValidUtf8(s)
            /\ ~(10 \in {s[i] : i \in 1..Len(s)})
         THEN LET el == IF n = 2 THEN args[2].v ELSE <<46, 46, 46>>
              \* (the ellipsis counts in characters too)
              IN  IF ValidUtf8(el) /\ ~(36 \in {el[i] : i \in 1..Len(el)}) /\ args[1].v >= CharCount(el)
                  THEN S(TruncateChars(s, args[1].v, el)) ELSE FUnspec
         ELSE FUnspec
    [] name = "truncatewords" ->
         \* a text of at most n words (however they are spaced) fits and stays as it is; cutting is decided for
         \* words separated by single spaces
         IF n \in {1, 2} /\ args[1].k = "int" /\ (n = 1 \/ args[2].k = "str") /\ args[1].v >= 1
            /\ AsciiSpacesOnly(s) /\ WordCount(s) <= args[1].v
         THEN S(s)
         ELSE IF n \in {1, 2} /\ args[1].k = "int" /\ (n = 1 \/ args[2].k = "str") /\ args[1].v >= 1
            /\ (s = <<>> \/ SimpleWords(s))
         THEN LET el == IF n = 2 THEN args[2].v ELSE <<46, 46, 46>>
                  ws == IF s = <<>> THEN <<>> ELSE SplitOn(s, <<32>>)
              IN  IF Len(ws) <= args[1].v THEN S(s)
                  ELSE S(JoinWith(SubSeq(ws, 1, args[1].v), <<32>>) \o el)
         ELSE FUnspec
    [] name = "escape" -> IF n = 0 THEN S(HtmlEscape(s)) ELSE FUnspec
    [] name = "escape_once" -> IF n = 0 /\ AmpersandsModelled(s) THEN S(HtmlEscape(HtmlUnescape(s))) ELSE FUnspec
    [] name = "url_encode" -> IF n = 0 THEN S(UrlEncode(s)) ELSE FUnspec
    [] name = "url_decode" -> IF n = 0 THEN (LET r == UrlDecode(s) IN IF r.ok THEN S(r.s) ELSE FUnspec) ELSE FUnspec
    [] OTHER -> FUnspec

\* ---------------------------------------------------------- numeric part
NumAdd(a, b) == Flt(NumN(a) * NumD(b) + NumN(b) * NumD(a), NumD(a) * NumD(b))
NumSub(a, b) == Flt(NumN(a) * NumD(b) - NumN(b) * NumD(a), NumD(a) * NumD(b))
NumMul(a, b) == Flt(NumN(a) * NumN(b), NumD(a) * NumD(b))
NumDivReal(a, b) == Flt(NumN(a) * NumD(b), NumD(a) * NumN(b))
Pow10(p) == IF p >= 0 THEN Flt(10^p, 1) ELSE Flt(1, 10^(0 - p))

NumericFilter(name, x, args) ==
  LET n == Len(args)
      b == IF n >= 1 THEN AsNum(args[1], FALSE) ELSE [r |-> "unspec"]
      Bin(Op(_, _)) == IF n # 1 THEN FUnspec
                       ELSE IF b.r = "num" THEN FVal(Op(x, b.v))
                       ELSE IF b.r = "err" THEN FErr ELSE FUnspec
  IN
  CASE name = "plus" -> Bin(NumAdd)
    [] name = "minus" -> Bin(NumSub)
    [] name = "times" ->
         \* a zero product with a negative factor is IEEE negative zero ("-0"): the value is exact, its spelling open
         IF n = 1 /\ b.r = "num" /\ NumN(NumMul(x, b.v)) = 0 /\ (NumN(x) < 0 \/ NumN(b.v) < 0) THEN FUnspec
         ELSE Bin(NumMul)
    [] name = "abs" -> IF n = 0 THEN FVal(Flt(AbsI(NumN(x)), NumD(x))) ELSE FUnspec
    [] name = "ceil" -> IF n = 0 THEN FVal(IntV(CeilDiv(NumN(x), NumD(x)))) ELSE FUnspec
    [] name = "floor" -> IF n = 0 THEN FVal(IntV(FloorDiv(NumN(x), NumD(x)))) ELSE FUnspec
    [] name = "round" ->
         IF n = 1 /\ NoNumberStr(args[1]) THEN FErr
         ELSE IF n = 0 \/ (n = 1 /\ args[1].k = "int" /\ args[1].v >= 0 /\ args[1].v <= 3)
         THEN LET p == IF n = 1 THEN args[1].v ELSE 0
                  e == 10^p
                  \* floor(x * e + 1/2) / e
                  num == NumN(x) * e * 2 + NumD(x)
                  den == NumD(x) * 2
              IN  FVal(Flt(FloorDiv(num, den), e))
         ELSE FUnspec
    [] name = "divided_by" ->
         IF n # 1 THEN FUnspec
         ELSE IF IsNum(args[1]) THEN
           (IF NumN(args[1]) = 0 THEN FErr
            ELSE IF args[1].k = "flt" THEN
              (IF NumN(x) = 0 /\ NumN(args[1]) < 0 THEN FUnspec ELSE FVal(NumDivReal(x, args[1])))
            ELSE \* integer divisor: integer division; floor and truncation
                 \* agree exactly when the exact quotient is whole or positive
                 LET q == NumDivReal(x, args[1])
                 IN  IF q.d = 1 \/ q.n >= 0 THEN FVal(IntV(FloorDiv(q.n, q.d))) ELSE FUnspec)
         ELSE FUnspec
    [] name = "modulo" ->
         IF n # 1 THEN FUnspec
         ELSE IF b.r = "err" THEN FErr
         ELSE IF b.r # "num" THEN FUnspec
         ELSE IF NumN(b.v) = 0 THEN FErr
         ELSE IF NumN(x) < 0 \/ NumN(b.v) < 0 THEN FUnspec     \* sign convention open
         ELSE \* x - b * floor(x / b), on rationals
              LET q == NumDivReal(x, b.v)
                  fl == FloorDiv(q.n, q.d)
              IN  FVal(NumSub(x, NumMul(b.v, IntV(fl))))
    [] OTHER -> FUnspec

\* A whole receiver beyond 32 bits but within 2^53 (so exactly a 64-bit float) modulo a small positive p/q with q a
\* power of two: x mod (p/q) = ((q * x) mod p) / q, and x mod p folds over the decimal digits - exact, within TLC's integers.
TwoTo53 == <<57, 48, 48, 55, 49, 57, 57, 50, 53, 52, 55, 52, 48, 57, 57, 50>>
RECURSIVE FoldMod(_, _, _)
FoldMod(ds, p, r) == IF ds = <<>> THEN r ELSE FoldMod(Tail(ds), p, (r * 10 + (Head(ds) - 48)) % p)
BigModDecided(x, args) ==
  /\ IsBig(x) /\ ~x.neg /\ DigitsCmp(x.digits, TwoTo53) <= 0
  /\ Len(args) = 1 /\ IsNum(args[1]) /\ ~IsBig(args[1])
  /\ NumN(args[1]) > 0 /\ NumN(args[1]) <= 1000 /\ NumD(args[1]) \in {1, 2, 4, 8}
BigMod(x, b) == LET pp == NumN(b) qq == NumD(b) IN Flt(((qq % pp) * FoldMod(x.digits, pp, 0)) % pp, qq)

\* ------------------------------------------------------------------ date
\* Decided for the fragment that does not depend on the clock or the time zone: a calendar date written
\* YYYY-MM-DD (month 01-12, day 01-28) formatted with %Y %m %d %% and literal text.  A string without a digit
\* (other than the words for the current time) is not a date: an error.  Everything else is left open.
Num2(s) == (s[1] - 48) * 10 + (s[2] - 48)
IsoDate(s) == /\ Len(s) = 10 /\ s[5] = 45 /\ s[8] = 45
              /\ AllDigits(SubSeq(s, 1, 4)) /\ AllDigits(SubSeq(s, 6, 7)) /\ AllDigits(SubSeq(s, 9, 10))
              /\ Num2(SubSeq(s, 6, 7)) \in 1..12 /\ Num2(SubSeq(s, 9, 10)) \in 1..28 /\ SubSeq(s, 1, 4) # <<48, 48, 48, 48>>
RECURSIVE Strftime(_, _)
Strftime(f, d) ==
  IF f = <<>> THEN [ok |-> TRUE, s |-> <<>>]
  ELSE IF Head(f) # 37 THEN (LET r == Strftime(Tail(f), d) IN [ok |-> r.ok, s |-> <<Head(f)>> \o r.s])
  ELSE IF Len(f) < 2 THEN [ok |-> FALSE, s |-> <<>>]
  ELSE LET piece == CASE f[2] = 89 -> [ok |-> TRUE, s |-> SubSeq(d, 1, 4)]
                      [] f[2] = 109 -> [ok |-> TRUE, s |-> SubSeq(d, 6, 7)]
                      [] f[2] = 100 -> [ok |-> TRUE, s |-> SubSeq(d, 9, 10)]
                      [] f[2] = 37 -> [ok |-> TRUE, s |-> <<37>>]
                      [] OTHER -> [ok |-> FALSE, s |-> <<>>]
           r == Strftime(SubSeq(f, 3, Len(f)), d)
       IN  [ok |-> piece.ok /\ r.ok, s |-> piece.s \o r.s]
NowWords == {<<110, 111, 119>>, <<116, 111, 100, 97, 121>>}
DateFilter(recv, args) ==
  IF recv.k # "str" THEN FUnspec
  ELSE IF (\A i \in 1..Len(recv.v) : ~IsDigitB(recv.v[i])) /\ recv.v \notin NowWords /\ IsAscii(recv.v) THEN FErr
  ELSE IF Len(args) = 1 /\ args[1].k = "str" /\ IsoDate(recv.v) /\ IsAscii(args[1].v) /\ args[1].v # <<>>
       THEN (LET r == Strftime(args[1].v, recv.v) IN IF r.ok THEN FVal(Str(r.s)) ELSE FUnspec)
  ELSE FUnspec

\* ------------------------------------------------------------- dispatcher
ArrayFilters == {"compact", "reverse", "first", "last", "concat", "join", "map", "uniq", "sort", "sort_natural"}
StringFilters == {"append", "prepend", "upcase", "downcase", "capitalize", "strip", "lstrip", "rstrip", "strip_html",
                  "strip_newlines", "newline_to_br", "replace", "replace_first", "remove", "remove_first",
                  "split", "slice", "truncate", "truncatewords", "escape", "escape_once",
                  "url_encode", "url_decode"}
NumericFilters == {"plus", "minus", "times", "abs", "ceil", "floor", "round", "divided_by", "modulo"}

IsEmptyV(v) == (v.k \in {"str", "arr", "map"} /\ v.v = <<>>)

Filter(name, recv, args) ==
  IF ~KnownFilter(name) THEN FErr
  ELSE IF Len(args) > MaxArgs(name) THEN FErr
  ELSE IF Len(args) > DocArgs(name) THEN FUnspec
  ELSE IF IsUnspec(recv) \/ \E i \in 1..Len(args) : IsUnspec(args[i]) THEN FUnspec
  ELSE IF name = "default" THEN
    (IF Len(args) # 1 THEN FUnspec
     ELSE IF recv.k = "nil" \/ (recv.k = "bool" /\ ~recv.v) \/ IsEmptyV(recv) THEN FVal(args[1])
     ELSE FVal(recv))
  ELSE IF name = "date" THEN DateFilter(recv, args)
  \* lqx_rep: a filter of the embedding program (Engine.RegisterFilter with func(string, int) string, repeating the
  \* text) - known where it is registered; its arguments are converted as for the standard filters
  \* lqx_sum: a filter of the embedding program declared with a typed slice parameter (func([]int) int): the array is
  \* converted element by element; an element that is no integer is a conversion error (the object's, located)
  ELSE IF name = "lqx_sum" THEN
    (IF recv.k # "arr" \/ args # <<>> THEN FUnspec
     ELSE IF \A i \in 1..Len(recv.v) : recv.v[i].k = "int" /\ recv.v[i].v \in 0..1000
          THEN FVal(IntV(LET RECURSIVE Sum(_) Sum(q) == IF q = <<>> THEN 0 ELSE Head(q).v + Sum(Tail(q)) IN Sum(recv.v)))
     ELSE IF \E i \in 1..Len(recv.v) : recv.v[i].k = "str" /\ DefinitelyNotNumber(recv.v[i].v) THEN FErr
     ELSE FUnspec)
  ELSE IF name = "lqx_rep" THEN
    (IF recv.k # "str" \/ Len(args) # 1 THEN FUnspec
     ELSE IF args[1].k = "int" /\ args[1].v \in 0..50 THEN FVal(Str(Flatten([i \in 1..args[1].v |-> recv.v])))
     ELSE IF args[1].k = "str" /\ DefinitelyNotNumber(args[1].v) THEN FErr
     ELSE FUnspec)
  ELSE IF name = "size" THEN
    (IF recv.k = "str" THEN StringFilter(name, recv.v, args)
     ELSE IF AsArr(recv).ok THEN ArrayFilter(name, AsArr(recv).v, args, AsArr(recv).nf)
     ELSE FUnspec)
  ELSE IF name \in ArrayFilters THEN
    (IF AsArr(recv).ok THEN ArrayFilter(name, AsArr(recv).v, args, AsArr(recv).nf) ELSE FUnspec)
  ELSE IF name \in StringFilters THEN
    (IF AsStr(recv).ok THEN StringFilter(name, AsStr(recv).s, args) ELSE FUnspec)
  ELSE IF name \in NumericFilters THEN
    (LET x == AsNum(recv, TRUE)
         \* TLC integers are 32-bit: magnitudes beyond 10^6 are outside the modelled arithmetic
         small(v) == ~IsNum(v) \/ (~IsBig(v) /\ AbsI(NumN(v)) <= 1000000 /\ NumD(v) <= 10000)
     IN  IF name \in {"modulo", "divided_by"} /\ x.r = "num" /\ Len(args) = 1 /\ IsNum(args[1]) /\ ~IsBig(args[1]) /\ NumN(args[1]) = 0 THEN FErr
         ELSE IF name = "modulo" /\ x.r = "num" /\ BigModDecided(x.v, args) THEN FVal(BigMod(x.v, args[1]))
         ELSE IF x.r = "num" /\ ~(small(x.v) /\ \A i \in 1..Len(args) : small(args[i])) THEN FUnspec
         ELSE IF x.r = "num" THEN NumericFilter(name, x.v, args)
         ELSE IF x.r = "err" THEN FErr ELSE FUnspec)
  ELSE FUnspec
=============================================================================
