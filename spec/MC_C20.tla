------------------------------- MODULE MC_C20 -------------------------------
(***************************************************************************)
(* C20 - a failing output writer stops the render with an error.           *)
(* The render machine runs against a sink that fails on its k-th Write     *)
(* call, accepting `keep` bytes of it, for every k up to one past the      *)
(* number of calls the fault-free render makes, on a family of templates   *)
(* that exercises every place the implementation writes: plain text, the   *)
(* final flush, flushes at the end of block bodies and iterations,         *)
(* left-trims, objects printing arrays, tablerow decoration, cycle,        *)
(* capture (which must not write at all) and raw.                          *)
(* FlushPolicy = "panic" models the pinned commit (self-test: TLC reaches  *)
(* the Panic state).                                                       *)
(***************************************************************************)
EXTENDS LqRender, Json, TLC

CONSTANTS FlushPolicy
VARIABLES p, st
vars == <<p, st>>

T(s) == [t |-> "text", s |-> s]
Var(n) == [t |-> "var", name |-> n]
Lit(v) == [t |-> "lit", v |-> v]
Ob(e) == [t |-> "obj", e |-> e]
TL == [t |-> "trimL"]
TR == [t |-> "trimR"]
R13 == [t |-> "range", a |-> Lit(IntV(1)), b |-> Lit(IntV(3))]
X == <<120>>
AB == <<97, 98>>
INC == <<105, 46, 108, 105, 113>>       \* i.liq, registered in the engine's cache next to the template
IncBody == <<T(<<40, 32>>), TL, Ob(Var(X)), TR, T(<<32, 41>>)>>
TopPath == <<116, 46, 108, 105, 113>>
LongWord == [i \in 1..90 |-> 97 + (i % 26)]
Progs == <<
  (* 1 text only: the only write is the final flush *) <<T(AB)>>,
  (* 2 *) <<T(AB), Ob(Var(X)), T(<<99>>)>>,
  (* 3 left trim as first write *) <<T(<<97, 32>>), TL, Ob(Lit(IntV(1)))>>,
  (* 4 block flush *) <<T(<<97>>), [t |-> "if", branches |-> <<[c |-> Lit(Bool(TRUE)), body |-> <<T(<<98>>)>>]>>], T(<<99>>)>>,
  (* 5 loop *) <<[t |-> "for", tag |-> "for", var |-> X, coll |-> R13, body |-> <<Ob(Var(X)), T(<<44>>)>>]>>,
  (* 6 tablerow *) <<[t |-> "for", tag |-> "tablerow", var |-> X, coll |-> R13, cols |-> Lit(IntV(2)), body |-> <<Ob(Var(X))>>]>>,
  (* 7 cycle *) <<[t |-> "for", tag |-> "for", var |-> X, coll |-> R13, body |-> <<[t |-> "cycle", vals |-> <<<<112>>, <<113>>>>]>>]>>,
  (* 8 capture then print *) <<[t |-> "capture", name |-> <<99>>, body |-> <<T(AB), Ob(Var(X))>>], T(<<45>>), Ob(Var(<<99>>))>>,
  (* 9 array object: one write per element *) <<Ob(Var(<<108>>)), T(<<33>>)>>,
  (* 10 raw and trims around a block *) <<T(<<97, 32>>), TL, [t |-> "if", branches |-> <<[c |-> Lit(Bool(TRUE)), body |-> <<TR, T(<<32, 98, 32>>), TL>>]>>], TR, T(<<32, 99>>),
                                         [t |-> "raw", s |-> <<123, 123>>]>>,
  (* 11 nested loops with else *) <<[t |-> "for", tag |-> "for", var |-> X, coll |-> R13, lim |-> Lit(IntV(2)),
                                      body |-> <<[t |-> "for", tag |-> "for", var |-> <<121>>, coll |-> Var(<<101>>), body |-> <<T(<<33>>)>>, else |-> <<T(<<69>>)>>]>>]>>,
  (* 12 empty output *) <<[t |-> "assign", name |-> X, e |-> Lit(IntV(1))]>>,
  (* 13 a loop body left by break: its pending write is flushed later *)
  <<T(<<104, 32>>), [t |-> "for", tag |-> "for", var |-> X, coll |-> R13,
                     body |-> <<T(<<105>>), Ob(Var(X)), [t |-> "break"], T(<<110>>)>>], T(<<116>>)>>,
  (* 14 continue under a condition, loop last in the template *)
  <<[t |-> "for", tag |-> "for", var |-> X, coll |-> R13,
     body |-> <<Ob(Var(X)), [t |-> "if", branches |-> <<[c |-> [t |-> "cmp", op |-> "<", a |-> Var(X), b |-> Lit(IntV(3))], body |-> <<T(<<99>>), [t |-> "continue"]>>]>>], T(<<33>>)>>]>>,
  (* 15 tablerow left by continue *)
  <<[t |-> "for", tag |-> "tablerow", var |-> X, coll |-> R13, body |-> <<Ob(Var(X)), [t |-> "continue"], T(<<110>>)>>]>>,
  (* 16 include: the included text arrives in one write; hyphens inside the file *)
  <<T(<<97, 32>>), [t |-> "include", e |-> Lit(Str(INC))], T(<<32, 98>>), [t |-> "include", e |-> Lit(Str(INC))]>>,
  (* 17 case / when / else inside a loop *)
  <<[t |-> "for", tag |-> "for", var |-> X, coll |-> R13,
     body |-> <<[t |-> "case", e |-> Var(X), pre |-> <<>>, whens |-> <<[vals |-> <<Lit(IntV(1))>>, body |-> <<T(<<119>>)>>],
                                                                       [vals |-> <<Lit(IntV(2))>>, body |-> <<>>],
                                                                       [else |-> TRUE, vals |-> <<>>, body |-> <<Ob(Var(X))>>]>>]>>]>>,
  (* 18 unless / else, comment, hyphens on block tags *)
  <<T(<<97, 32>>), TL, [t |-> "if", neg |-> TRUE, branches |-> <<[c |-> Lit(Bool(FALSE)), body |-> <<T(<<32, 117>>)>>], [c |-> [t |-> "else"], body |-> <<T(<<101>>)>>]>>],
    [t |-> "comment", s |-> <<32, 122, 32>>], T(<<32, 99>>), TL, Ob(Var(X)), TR, T(<<32, 10>>)>>,
  (* 19 tablerow with hyphens in its body and an empty row *)
  <<[t |-> "for", tag |-> "tablerow", var |-> X, coll |-> R13, cols |-> Lit(IntV(1)), body |-> <<TR, T(<<32>>), Ob(Var(X)), T(<<32>>), TL>>],
    [t |-> "for", tag |-> "tablerow", var |-> X, coll |-> Var(<<101>>), body |-> <<Ob(Var(X))>>]>>,
  (* 20 a capture inside a loop, printed in the loop; an assign in between *)
  <<[t |-> "for", tag |-> "for", var |-> X, coll |-> R13,
     body |-> <<[t |-> "capture", name |-> <<99>>, body |-> <<T(<<91>>), Ob(Var(X)), T(<<93>>)>>],
                [t |-> "assign", name |-> <<100>>, e |-> Var(<<99>>)], Ob(Var(<<100>>))>>], T(<<10>>)>>,
  (* 21 a long text, then constructs whose own output is short (include, object, tablerow cell): a writer that
        accepts part of the long write reports a count larger than anything written next *)
  <<T(<<108, 111, 110, 103, 32, 116, 101, 120, 116, 32, 104, 101, 114, 101>>), [t |-> "include", e |-> Lit(Str(INC))],
    T(<<97, 110, 111, 116, 104, 101, 114, 32, 108, 111, 110, 103, 32, 111, 110, 101>>), Ob(Var(X)),
    T(<<121, 101, 116, 32, 97, 110, 111, 116, 104, 101, 114, 32, 111, 110, 101>>),
    [t |-> "for", tag |-> "tablerow", var |-> X, coll |-> R13, lim |-> Lit(IntV(1)), body |-> <<>>]>>,
  (* 22 long chunks of text without any white space (inline data), after an object, between tablerow cells, at the end *)
  <<Ob(Var(X)), T(LongWord), Ob(Var(X)),
    [t |-> "for", tag |-> "tablerow", var |-> X, coll |-> R13, cols |-> Lit(IntV(2)), body |-> <<T(LongWord), Ob(Var(X))>>], T(LongWord)>>,
  (* 23 constructs registered by the embedding program (a tag that writes, one that writes nothing, a block): their output
        goes through the same writer, and its failure is the render's *)
  <<T(<<104, 101, 108, 108, 111, 32>>), [t |-> "xargs", s |-> <<107>>], T(<<32, 119, 111, 114, 108, 100, 44, 32>>),
    [t |-> "xset", name |-> <<113>>, e |-> Lit(IntV(1))], T(<<97, 98>>),
    [t |-> "xblock", times |-> 2, body |-> <<Ob(Var(X)), T(<<45>>)>>], [t |-> "xargs", s |-> <<>>], T(<<33>>)>>,
  (* 24 an object whose value is an array of arrays (one write per innermost element), alone and inside a loop over it *)
  <<T(<<60>>), Ob(Var(<<116, 98>>)), T(<<62>>), [t |-> "for", tag |-> "for", var |-> X, coll |-> Var(<<116, 98>>), body |-> <<Ob(Var(X)), T(<<59>>)>>]>>
>>
Env2 == << <<<<116, 98>>, Arr(<<Arr(<<Str(<<97>>), Str(<<98>>)>>), Arr(<<Str(<<99>>), Arr(<<Str(<<100>>), Str(<<101>>)>>)>>)>>)>>, <<X, Str(<<88>>)>>, <<<<108>>, Arr(<<IntV(1), Str(<<50>>), Nil, IntV(3)>>)>>, <<<<101>>, Arr(<<>>)>> >>
Cx == [Cx0 EXCEPT !.pol = [Intended EXCEPT !.flushErr = FlushPolicy], !.path = TopPath, !.cache = << <<INC, IncBody>> >>]

Ref(i) == Render(Cx, Progs[i], EnvOf(Env2))
Calls(i) == Run(Cx, InitSt(Progs[i], EnvOf(Env2), Sink0, Cx)).sink.calls

Init == \E i \in 1..Len(Progs) : \E k \in 1..(Calls(i) + 1) : \E keep \in {0, 1, 100, 0 - 1} :
          /\ p = [i |-> i, k |-> k, keep |-> keep]
          /\ st = InitSt(Progs[i], EnvOf(Env2), [Sink0 EXCEPT !.failAt = k, !.keep = keep], Cx)
Next == st.status = "run" /\ st' = Step(Cx, st) /\ p' = p

\* ------------------------------------------------------------ invariants
NeverPanics == st.status # "panic"
AcceptedIsPrefix == IsPrefixOf(st.sink.acc, Ref(p.i).out)
NoSuccessAfterFault == st.sink.failed => st.status \in {"error", "panic"}
FaultReported == st.status = "error" => st.sink.failed /\ st.err.kind = "io"
NoFaultNoError == st.status = "ok" => ~st.sink.failed /\ st.sink.acc = Ref(p.i).out
\* the sink is never called again after it has failed
NoCallAfterFault == [][st.sink.failed => st'.sink = st.sink]_vars
Terminates == st.steps < 200

EmitCase == (st.status # "run" /\ p.k = 1 /\ p.keep = 0) =>
              PrintT(ToJson([id |-> "fault-" \o ToString(p.i), kind |-> "fault", prog |-> Progs[p.i], env |-> Env2,
                             path |-> TopPath, usedir |-> TRUE, cache |-> << <<INC, IncBody>> >>]))
=============================================================================
