package main

// Seeded random programs from the specification's grammar (abstract syntax
// of LqRender) with random binding environments.  Used beyond the exhaustive
// bounds of the TLC configurations; the trace specification decides.

import (
	"bytes"
	"encoding/json"
	"fmt"
	"math/rand"
	"strings"
)

func bs(s string) []any { return bytesJSON(s) }

func vNil() J                  { return J{"k": "nil"} }
func vBool(b bool) J           { return J{"k": "bool", "v": b} }
func vInt(n int) J             { return J{"k": "int", "v": n} }
func vFlt(n, d int) J          { return normFlt(n, d) }
func vStr(s string) J          { return J{"k": "str", "v": bs(s)} }
func vArr(xs ...any) J         { return J{"k": "arr", "v": append([]any{}, xs...)} }
func eLit(v J) J               { return J{"t": "lit", "v": v} }
func eVar(n string) J          { return J{"t": "var", "name": bs(n)} }
func eProp(e J, n string) J    { return J{"t": "prop", "e": e, "name": bs(n)} }
func eIdx(e, i J) J            { return J{"t": "idx", "e": e, "i": i} }
func eCmp(op string, a, b J) J { return J{"t": "cmp", "op": op, "a": a, "b": b} }
func eFilter(e J, name string, args ...any) J {
	return J{"t": "filter", "e": e, "name": name, "args": append([]any{}, args...)}
}
func nText(s string) J { return J{"t": "text", "s": bs(s)} }
func nObj(e J) J       { return J{"t": "obj", "e": e} }

func gcd(a, b int) int {
	if a < 0 {
		a = -a
	}
	if b < 0 {
		b = -b
	}
	for b != 0 {
		a, b = b, a%b
	}
	return a
}

func normFlt(n, d int) J {
	if d < 0 {
		n, d = -n, -d
	}
	g := gcd(n, d)
	if g == 0 {
		g = 1
	}
	return J{"k": "flt", "n": n / g, "d": d / g}
}

func vMap(pairs ...any) J {
	// pairs: key string, value J, ... ; keys must be given in ascending order
	out := []any{}
	for i := 0; i+1 < len(pairs); i += 2 {
		out = append(out, []any{bs(pairs[i].(string)), pairs[i+1]})
	}
	return J{"k": "map", "v": out}
}

type pgen struct {
	r          *rand.Rand
	trims      bool // sprinkle whitespace-control markers
	budget     int
	inLoop     int
	names      []string // scalar-ish variable names in scope
	arrays     []string
	maps       []string
	texts      []string
	noErr      bool // avoid constructs that may fail the render
	captures   int
	inRow      int  // directly inside a tablerow body
	rich       bool // use the extended filter pool
	flAssigned bool
	hasInc     bool // an includable file inc.liq exists
}

func pick[T any](r *rand.Rand, xs []T) T { return xs[r.Intn(len(xs))] }

// (also control characters that are no white space - ESC, NUL, BEL - next to blanks)
var genTexts = []string{"a", "b ", " c", "\n", "x y", "-", "", "  ", "é", "<p>", "q\n", " \x1b[1m\n ", "\x00 ", " \x07"}

func (g *pgen) scalar() J {
	switch g.r.Intn(10) {
	case 0:
		return vNil()
	case 1:
		return vBool(g.r.Intn(2) == 0)
	case 2, 3, 4:
		return vInt(g.r.Intn(9) - 2)
	case 5:
		return vFlt(g.r.Intn(21)-6, 4)
	case 6:
		return vStr("")
	default:
		return vStr(pick(g.r, []string{"a", "b", "ab", "B", "x y", " p ", "é", "10", "3"}))
	}
}

func (g *pgen) env() []any {
	env := []any{}
	add := func(n string, v J) { env = append(env, []any{bs(n), v}) }
	for _, n := range []string{"n", "m", "s", "t", "u"} {
		if g.r.Intn(6) != 0 {
			add(n, g.scalar())
		}
	}
	g.names = []string{"n", "m", "s", "t", "u", "zz"}
	mk := func() J {
		k := g.r.Intn(5)
		xs := []any{}
		kind := g.r.Intn(3)
		for i := 0; i < k; i++ {
			switch kind {
			case 0:
				xs = append(xs, vInt(g.r.Intn(7)-1))
			case 1:
				xs = append(xs, vStr(pick(g.r, []string{"a", "b", "c", "B"})))
			default:
				xs = append(xs, g.scalar())
			}
		}
		return vArr(xs...)
	}
	add("a", mk())
	add("b", mk())
	g.arrays = []string{"a", "b"}
	add("h", vMap("k", g.scalar(), "size", vInt(7)))
	add("g", vMap("j", vInt(1), "k", vStr("v")))
	g.maps = []string{"h", "g"}
	if !g.noErr && g.r.Intn(12) == 0 {
		return []any{} // no bindings at all (the caller passes nil): every name is undefined
	}
	return env
}

// expr of a scalar-ish value
func (g *pgen) expr(depth int) J {
	switch g.r.Intn(12) {
	case 0, 1:
		return eLit(g.scalar())
	case 2, 3, 4:
		return eVar(pick(g.r, g.names))
	case 5:
		return eProp(eVar(pick(g.r, g.arrays)), pick(g.r, []string{"size", "first", "last"}))
	case 6:
		return eIdx(eVar(pick(g.r, g.arrays)), eLit(vInt(g.r.Intn(7)-3)))
	case 7:
		return eProp(eVar(pick(g.r, g.maps)), pick(g.r, []string{"k", "j", "size", "nope"}))
	case 8:
		if g.inLoop > 0 {
			return eProp(eVar("forloop"), pick(g.r, []string{"index", "index0", "rindex", "rindex0", "length", "first", "last"}))
		}
		return eVar(pick(g.r, g.names))
	default:
		if depth <= 0 {
			return eVar(pick(g.r, g.names))
		}
		return g.filtered(depth - 1)
	}
}

func (g *pgen) filtered(depth int) J {
	recv := g.expr(depth)
	if g.rich && g.r.Intn(2) == 0 {
		return pick(g.r, moreFilters)(g, recv)
	}
	switch g.r.Intn(12) {
	case 0:
		return eFilter(recv, "upcase")
	case 1:
		return eFilter(recv, "append", eLit(vStr(pick(g.r, []string{"!", " ", "z"}))))
	case 2:
		return eFilter(recv, "size")
	case 3:
		return eFilter(recv, "default", eLit(vStr("d")))
	case 4:
		return eFilter(recv, "strip")
	case 5:
		return eFilter(eVar(pick(g.r, g.arrays)), "join", eLit(vStr(",")))
	case 6:
		return eFilter(eVar(pick(g.r, g.arrays)), pick(g.r, []string{"first", "last", "size"}))
	case 7:
		if g.noErr {
			return eFilter(recv, "prepend", eLit(vStr("p")))
		}
		return eFilter(recv, "plus", eLit(vInt(g.r.Intn(4))))
	case 8:
		if g.noErr {
			return eFilter(recv, "downcase")
		}
		return eFilter(recv, "times", eLit(vInt(g.r.Intn(4)-1)))
	case 9:
		return eFilter(recv, "replace", eLit(vStr("a")), eLit(vStr("o")))
	case 10:
		return eFilter(recv, "truncate", eLit(vInt(3+g.r.Intn(3))))
	default:
		return eFilter(recv, "capitalize")
	}
}

func (g *pgen) cond(depth int) J {
	switch g.r.Intn(8) {
	case 0, 1:
		return g.expr(1)
	case 2, 3, 4:
		return eCmp(pick(g.r, []string{"==", "!=", "<", ">", "<=", ">="}), g.operand(), g.operand())
	case 5:
		return eCmp("contains", eVar(pick(g.r, append(append([]string{}, g.arrays...), "s", "t"))), eLit(vStr(pick(g.r, []string{"a", "b", "x"}))))
	default:
		if depth <= 0 {
			return g.expr(0)
		}
		return J{"t": pick(g.r, []string{"and", "or"}), "a": g.cond(depth - 1), "b": g.cond(depth - 1)}
	}
}

func (g *pgen) operand() J {
	if g.r.Intn(2) == 0 {
		return eLit(g.scalar())
	}
	return g.expr(0)
}

func (g *pgen) text() J {
	if g.trims && g.r.Intn(30) == 0 {
		// a long run of white space (a hyphen removes all of it, however long), alone or next to other characters
		n := pick(g.r, []int{1023, 1024, 1025, 1500, 4096, 5000})
		ws := strings.Repeat(pick(g.r, []string{" ", "\n", " \t", "  \n "}), n)[:n]
		return nText(pick(g.r, []string{ws, "x" + ws, ws + "y", "x" + ws + "y" + ws, ws + "é" + ws}))
	}
	if g.r.Intn(40) == 0 {
		// a long chunk without any white space (inline data, a long URL, CJK text)
		return nText(strings.Repeat(pick(g.r, []string{"QUJDRA", "http://h/p?q=1&", "日本語", "<i>"}), 8+g.r.Intn(40)))
	}
	return nText(pick(g.r, genTexts))
}

// withTrims wraps a tag node with optional trim markers.
func (g *pgen) withTrims(n J) []any {
	out := []any{}
	if g.trims && g.r.Intn(4) == 0 {
		out = append(out, J{"t": "trimL"})
	}
	out = append(out, n)
	if g.trims && g.r.Intn(4) == 0 {
		out = append(out, J{"t": "trimR"})
	}
	return out
}

// innerTrims decorates a block body with the markers of its enclosing tags.
func (g *pgen) innerTrims(body []any) []any {
	if !g.trims {
		return body
	}
	if g.r.Intn(5) == 0 {
		body = append([]any{J{"t": "trimR"}}, body...)
	}
	if g.r.Intn(5) == 0 {
		body = append(body, J{"t": "trimL"})
	}
	return body
}

func (g *pgen) seq(depth int, maxLen int) []any {
	n := 1 + g.r.Intn(maxLen)
	out := []any{}
	lastText := false
	for i := 0; i < n && g.budget > 0; i++ {
		g.budget--
		k := g.r.Intn(20)
		if lastText && k < 6 {
			k = 6 + g.r.Intn(14) // the tokenizer would merge adjacent texts
		}
		lastText = false
		switch {
		case k < 6:
			t := g.text()
			if bytesOf(t["s"]) == "" {
				continue
			}
			out = append(out, t)
			lastText = true
		case k < 10:
			out = append(out, g.withTrims(nObj(g.expr(2)))...)
		case k < 12:
			name := pick(g.r, []string{"n", "m", "s", "zz", "w"})
			out = append(out, g.withTrims(J{"t": "assign", "name": bs(name), "e": g.expr(2)})...)
		case k < 14 && depth > 0:
			out = append(out, g.withTrims(g.ifNode(depth-1))...)
		case k < 16 && depth > 0:
			out = append(out, g.withTrims(g.forNode(depth-1))...)
		case k == 16 && depth > 0:
			name := pick(g.r, []string{"s", "t", "cap"})
			if g.trims {
				// (a captured text that lost white space to a hyphen must not feed a computation that depends on
				// white space - capitalize, size, split ...: with hyphens in play it is only ever printed)
				name = "cap"
			}
			g.captures++
			out = append(out, g.withTrims(J{"t": "capture", "name": bs(name), "body": g.innerTrims(g.body(depth-1, 3))})...)
			g.captures--
		case k == 17 && depth > 0:
			out = append(out, g.withTrims(g.caseNode(depth-1))...)
		case k == 18 && (g.inLoop > 0 || g.inRow > 0):
			// break / continue under a condition (directly inside a tablerow only continue: a break may leave a row open)
			sig := pick(g.r, []string{"break", "continue"})
			if g.inLoop == 0 {
				sig = "continue"
			}
			out = append(out, J{"t": "if", "branches": []any{J{"c": g.cond(1), "body": []any{J{"t": sig}}}}})
		case k == 19 && g.inLoop > 0 && g.captures == 0:
			// the value list is a function of the group (what two cycle tags of one group
			// with different lists do is left open by the statement)
			// (one position per loop and group; each tag emits the entry of its own list at that position)
			grp := pick(g.r, []string{"g1", "g2"})
			vals := []any{bs("p"), bs("q"), bs("r")}[:1+g.r.Intn(3)]
			out = append(out, g.withTrims(J{"t": "cycle", "group": bs(grp), "vals": vals})...)
		case g.rich && k == 13 && g.r.Intn(3) == 0:
			// opaque blocks: their bodies are complete tags / objects and plain text (never their own end tag)
			name := pick(g.r, []string{"raw", "comment"})
			out = append(out, g.withTrims(J{"t": name, "s": bs(blockBody(g.r))})...)
		case g.rich && k == 15 && g.inLoop > 0 && g.r.Intn(3) == 0:
			// the loop record used as a value
			out = append(out, J{"t": "assign", "name": bs("fl"), "e": eVar("forloop")})
			g.flAssigned = true
		case g.rich && k == 11 && g.hasInc && g.r.Intn(2) == 0:
			out = append(out, g.withTrims(J{"t": "include", "e": pick(g.r, []J{eLit(vStr("inc.liq")), eFilter(eLit(vStr("inc")), "append", eLit(vStr(".liq"))), eVar("incname")})})...)
		default:
			if g.trims && g.r.Intn(4) == 0 {
				out = append(out, g.withTrims(nObj(eVar("cap")))...)
			} else {
				out = append(out, g.withTrims(nObj(g.expr(1)))...)
			}
		}
	}
	if g.rich && g.flAssigned && g.inLoop == 0 && g.r.Intn(2) == 0 {
		out = append(out, nObj(eProp(eVar("fl"), pick(g.r, []string{"index", "last", "rindex0", "length"}))))
	}
	return out
}

// body is the body of a block or clause: now and then empty (the clause still takes part in the selection)
func (g *pgen) body(depth int, maxLen int) []any {
	if g.r.Intn(8) == 0 {
		return []any{}
	}
	if g.r.Intn(8) == 0 {
		// a body that only sets variables, laid out with line breaks and indentation: the white space is output as any text is
		out := []any{}
		ws := func() {
			if g.r.Intn(4) > 0 {
				out = append(out, nText(pick(g.r, []string{" ", "\n  ", "\n", "  ", "\t", "\n\n"})))
			}
		}
		for k := 1 + g.r.Intn(2); k > 0; k-- {
			ws()
			name := pick(g.r, []string{"n", "m", "s", "zz", "w"})
			if g.r.Intn(3) == 0 && !g.trims {
				out = append(out, J{"t": "capture", "name": bs(name), "body": []any{nText(pick(g.r, []string{" ", "c", "\n"}))}})
			} else {
				out = append(out, g.withTrims(J{"t": "assign", "name": bs(name), "e": g.expr(1)})...)
			}
		}
		ws()
		return out
	}
	return g.seq(depth, maxLen)
}

func (g *pgen) ifNode(depth int) J {
	n := 1 + g.r.Intn(3)
	brs := []any{}
	neg := g.r.Intn(4) == 0
	if neg {
		n = 1
	}
	for i := 0; i < n; i++ {
		brs = append(brs, J{"c": g.cond(1), "body": g.innerTrims(g.body(depth, 3))})
	}
	if g.r.Intn(2) == 0 {
		brs = append(brs, J{"c": J{"t": "else"}, "body": g.innerTrims(g.body(depth, 2))})
	}
	node := J{"t": "if", "branches": brs}
	if neg {
		node["neg"] = true
	}
	return node
}

func (g *pgen) caseNode(depth int) J {
	whens := []any{}
	for i := 0; i < 1+g.r.Intn(2); i++ {
		vals := []any{}
		for j := 0; j < 1+g.r.Intn(2); j++ {
			if g.r.Intn(3) == 0 {
				vals = append(vals, g.operand()) // a when-value may be any expression: evaluated each time the case is
			} else {
				vals = append(vals, eLit(g.scalar()))
			}
		}
		whens = append(whens, J{"vals": vals, "body": g.body(depth, 2)})
	}
	if g.r.Intn(2) == 0 {
		whens = append(whens, J{"else": true, "vals": []any{}, "body": g.body(depth, 2)})
	}
	return J{"t": "case", "e": g.expr(1), "pre": []any{}, "whens": whens}
}

func (g *pgen) forNode(depth int) J {
	v := pick(g.r, []string{"x", "y", "n"})
	var coll J
	num := func(n int) J { // a number as a literal or through an integer variable
		if g.rich && g.r.Intn(3) == 0 && n >= 0 && n <= 3 {
			return eVar([]string{"i0", "i1", "i2", "i3"}[n])
		}
		return eLit(vInt(n))
	}
	switch g.r.Intn(4) {
	case 0:
		coll = J{"t": "range", "a": num(g.r.Intn(3)), "b": num(g.r.Intn(5) - 1)}
	default:
		coll = eVar(pick(g.r, g.arrays))
	}
	tag := "for"
	if g.r.Intn(8) == 0 && g.captures >= 0 {
		tag = "tablerow"
	}
	node := J{"t": "for", "tag": tag, "var": bs(v), "coll": coll}
	if g.r.Intn(4) == 0 {
		node["rev"] = true
	}
	if g.r.Intn(4) == 0 {
		node["off"] = num(g.r.Intn(4) - 1)
	}
	if g.r.Intn(4) == 0 {
		node["lim"] = num(g.r.Intn(4) - 1)
	}
	saved := g.names
	g.names = append(append([]string{}, g.names...), v)
	if tag == "for" {
		g.inLoop++
	}
	save := g.inLoop
	saveRow := g.inRow
	if tag == "tablerow" {
		g.inRow = 1
		g.inLoop = 0 // no break / cycle directly inside tablerow (left open by the statement)
		if g.r.Intn(2) == 0 {
			node["cols"] = num(g.r.Intn(4))
		}
	}
	node["body"] = g.innerTrims(g.body(depth, 4))
	g.inLoop = save
	g.inRow = saveRow
	if tag == "for" {
		g.inLoop--
		if g.r.Intn(3) == 0 {
			node["else"] = g.innerTrims(g.body(depth, 2))
		}
	}
	g.names = saved
	return node
}

func genProg(kind string, trims, noErr bool) func(r *rand.Rand, i int) J {
	return func(r *rand.Rand, i int) J {
		g := &pgen{r: r, trims: trims, budget: 14 + r.Intn(20), noErr: noErr}
		env := g.env()
		prog := g.seq(3, 6)
		// a program must be printable: trim markers at the edges of the template need a tag
		pr := newPrinter(spellFromJSON(nil))
		if _, err := pr.Template(prog); err != nil {
			g.trims = false
			g.budget = 20
			prog = g.seq(3, 6)
			if _, err := pr.Template(prog); err != nil {
				panic(fmt.Sprintf("generator produced an unprintable program: %v", err))
			}
		}
		c := J{"kind": "render", "prog": prog, "env": env}
		if r.Intn(6) == 0 {
			c["strict"] = true
		}
		return c
	}
}

func init() {
	generators["prog"] = genProg("prog", false, false)
	generators["cond"] = genProg("cond", false, false)
	generators["progtrim"] = genProg("progtrim", true, false)
	generators["prognoerr"] = genProg("prognoerr", false, true)
}

// dropTrims returns the tree without its whitespace-control markers.
func dropTrims(nodes []any) []any {
	out := []any{}
	for _, x := range nodes {
		n := jobj(x)
		switch jstr(n, "t") {
		case "trimL", "trimR":
			continue
		}
		m := J{}
		for k, v := range n {
			m[k] = v
		}
		for _, f := range []string{"body", "else", "pre"} {
			if b, ok := m[f].([]any); ok {
				m[f] = dropTrims(b)
			}
		}
		for _, f := range []string{"branches", "whens"} {
			if bs, ok := m[f].([]any); ok {
				nb := make([]any, len(bs))
				for i, bx := range bs {
					b := J{}
					for k, v := range jobj(bx) {
						b[k] = v
					}
					if body, ok := b["body"].([]any); ok {
						b["body"] = dropTrims(body)
					}
					nb[i] = b
				}
				m[f] = nb
			}
		}
		out = append(out, m)
	}
	return out
}

func init() {
	base := genProg("progtrim", true, true)
	generators["progtrim"] = func(r *rand.Rand, i int) J {
		c := base(r, i)
		c["prog0"] = dropTrims(jarr(c, "prog"))
		delete(c, "strict")
		return c
	}
}

// ---------------------------------------------------------------------------------
// "omni": programs from the whole grammar over rich binding environments, realised in
// randomly chosen Go representations, spelled with random whitespace, with tags that
// span lines, each parsed once and rendered several times.  The reference semantics
// (TraceRender) decides; everything it does not decide is simply not counted.

func (g *pgen) richScalar() J {
	switch g.r.Intn(16) {
	case 0:
		return vStr(pick(g.r, []string{"010", "007", "-011", "3.50", " 3", "1e2"}))
	case 1:
		return vStr(pick(g.r, []string{"héllo", "à", "日本", " x\n", "a,b,c", "<b>&", "A b C"}))
	case 2:
		return J{"k": "big", "neg": g.r.Intn(2) == 0, "digits": bs(pick(g.r, []string{"9223372036854775807", "4294967296", "2147483648"}))}
	case 3:
		return vInt(pick(g.r, []int{100, 127, 255, 1000, -128}))
	default:
		return g.scalar()
	}
}

func (g *pgen) richEnv() ([]any, J) {
	env := []any{}
	repr := J{}
	add := func(n string, v J) { env = append(env, []any{bs(n), v}) }
	intWidths := []string{"", "", "int8", "int16", "int32", "int64", "uint", "uint8", "uint16", "uint32", "uint64", "float64"}
	for _, n := range []string{"n", "m", "s", "t", "u"} {
		if g.r.Intn(7) == 0 {
			continue
		}
		v := g.richScalar()
		add(n, v)
		switch jstr(v, "k") {
		case "int":
			h := pick(g.r, intWidths)
			x := jint(v, "v")
			if (x < 0 && len(h) > 0 && h[0] == 'u') || ((h == "int8") && (x > 127 || x < -128)) || (h == "uint8" && x > 255) {
				h = ""
			}
			if h != "" {
				repr[n] = h
			}
		case "flt":
			if g.r.Intn(3) == 0 {
				repr[n] = "float32"
			}
		case "str":
			if g.r.Intn(6) == 0 {
				repr[n] = pick(g.r, []string{"drop", "ptr"})
			}
		}
		if _, ok := repr[n]; !ok && g.r.Intn(8) == 0 {
			repr[n] = pick(g.r, []string{"drop", "ptr", "dropdrop"})
		}
	}
	g.names = []string{"n", "m", "s", "t", "u", "zz"}
	mk := func(name string) {
		k := g.r.Intn(5)
		xs := []any{}
		kind := g.r.Intn(5)
		for i := 0; i < k; i++ {
			switch kind {
			case 0:
				xs = append(xs, vInt(g.r.Intn(7)-1))
			case 1:
				xs = append(xs, vStr(pick(g.r, []string{"a", "b", "c", "B", "é"})))
			case 2:
				xs = append(xs, vMap("k", g.richScalar()))
			case 3:
				xs = append(xs, vArr(vInt(g.r.Intn(3)), vStr("x")))
			default:
				xs = append(xs, g.richScalar())
			}
		}
		add(name, vArr(xs...))
		switch {
		case kind == 0 && g.r.Intn(2) == 0:
			h := pick(g.r, []string{"ints", "int64s", "int8s", "float64s"})
			if k == 3 && g.r.Intn(2) == 0 {
				h = "array3"
			}
			repr[name] = h
		case kind == 1 && g.r.Intn(2) == 0:
			repr[name] = "strings"
		case g.r.Intn(6) == 0:
			repr[name] = pick(g.r, []string{"drop", "ptr"})
		case k > 0 && g.r.Intn(5) == 0:
			repr[name+"/"+fmt.Sprint(g.r.Intn(k))] = "drop"
		}
	}
	mk("a")
	mk("b")
	g.arrays = []string{"a", "b"}
	add("h", vMap("first", vNil(), "k", g.richScalar(), "size", pick(g.r, []J{vInt(7), vNil()})))
	add("g", vMap("j", vInt(1), "k", vStr("v")))
	if g.r.Intn(3) == 0 {
		repr["g"] = pick(g.r, []string{"drop", "ptr", "mapslice"})
	}
	add("o", J{"k": "map", "v": []any{[]any{bs("10"), g.richScalar()}}})
	if g.r.Intn(2) == 0 {
		repr["o"] = pick(g.r, []string{"intkeys", "anykeys"})
	}
	g.maps = []string{"h", "g"}
	g.arrays = append(g.arrays, "o") // a one-entry map can be looped over (order is not an issue)
	// small integers for loop modifiers and range endpoints (plain ints, sometimes behind a Drop)
	for i, n := range []string{"i0", "i1", "i2", "i3"} {
		add(n, vInt(i))
		if g.r.Intn(5) == 0 {
			repr[n] = "drop"
		}
	}
	if g.r.Intn(14) == 0 {
		return []any{}, J{} // no bindings at all (the caller passes nil): every name is undefined
	}
	return env, repr
}

var moreFilters = []func(g *pgen, recv J) J{
	// arguments that are pipelines themselves (in parentheses), after an earlier filter of the same expression
	func(g *pgen, r J) J {
		return eFilter(eFilter(r, "append", eLit(vStr("_"))), "append", eFilter(eFilter(eVar(pick(g.r, g.names)), "append", eLit(vStr("~"))), "upcase"))
	},
	func(g *pgen, r J) J {
		return eFilter(eFilter(r, "prepend", eVar(pick(g.r, g.names))), "append", J{"t": "idx", "e": eVar(pick(g.r, g.arrays)), "i": eFilter(eVar("i1"), "plus", eLit(vInt(g.r.Intn(2))))})
	},
	func(g *pgen, r J) J {
		return eFilter(eVar(pick(g.r, g.arrays)), pick(g.r, []string{"sort", "reverse", "uniq", "compact"}))
	},
	func(g *pgen, r J) J {
		return eFilter(eFilter(eVar(pick(g.r, g.arrays)), pick(g.r, []string{"sort", "reverse", "uniq", "compact"})), "join", eLit(vStr("+")))
	},
	func(g *pgen, r J) J {
		return eFilter(eFilter(eVar(pick(g.r, g.arrays)), "map", eLit(vStr("k"))), "join")
	},
	func(g *pgen, r J) J {
		return eFilter(eFilter(eVar(pick(g.r, g.arrays)), "concat", eVar(pick(g.r, g.arrays))), "size")
	},
	func(g *pgen, r J) J { return eFilter(r, "slice", eLit(vInt(g.r.Intn(5)-2)), eLit(vInt(g.r.Intn(3)))) },
	func(g *pgen, r J) J {
		return eFilter(eFilter(r, "split", eLit(vStr(pick(g.r, []string{",", " ", "b"})))), "join", eLit(vStr("/")))
	},
	func(g *pgen, r J) J {
		return eFilter(r, pick(g.r, []string{"lstrip", "rstrip", "escape", "url_encode", "downcase", "strip_newlines", "newline_to_br", "escape_once"}))
	},
	func(g *pgen, r J) J { return eFilter(r, pick(g.r, []string{"floor", "ceil", "round", "abs"})) },
	func(g *pgen, r J) J {
		return eFilter(r, pick(g.r, []string{"minus", "divided_by", "modulo", "plus", "times"}), eLit(pick(g.r, []J{vInt(2), vInt(0), vFlt(1, 2), vInt(-3)})))
	},
	func(g *pgen, r J) J { return eFilter(r, "truncatewords", eLit(vInt(1+g.r.Intn(2)))) },
	func(g *pgen, r J) J {
		return eFilter(r, pick(g.r, []string{"remove", "remove_first"}), eLit(vStr(pick(g.r, []string{"a", " ", "é"}))))
	},
	func(g *pgen, r J) J { return eFilter(r, "round", eLit(vInt(g.r.Intn(3)))) },
}

// sprinkle lines inside tags: a tag may span lines
func padTags(r *rand.Rand, nodes []any) {
	for _, x := range nodes {
		n := jobj(x)
		switch jstr(n, "t") {
		case "obj", "assign":
			if r.Intn(6) == 0 {
				n["padnl"] = 1 + r.Intn(2)
			}
		}
		for _, f := range []string{"body", "else"} {
			if b, ok := n[f].([]any); ok {
				padTags(r, b)
			}
		}
		for _, f := range []string{"branches", "whens"} {
			if bs_, ok := n[f].([]any); ok {
				for _, bx := range bs_ {
					if body, ok := jobj(bx)["body"].([]any); ok {
						padTags(r, body)
					}
				}
			}
		}
	}
}

// lastOmni: the case generated before this one.  Every fifth case is a near twin of its predecessor - the same program
// with the white space or the letter case inside its string literals and texts changed - so that sources which a
// careless cache key would conflate meet in one process, each with its own expected result.
var lastOmni J

func nearTwin(c J, r *rand.Rand) J {
	b, _ := json.Marshal(c)
	var twin J
	dec := json.NewDecoder(bytes.NewReader(b))
	dec.UseNumber()
	if dec.Decode(&twin) != nil {
		return nil
	}
	mode := r.Intn(4)
	change := func(s string) string {
		switch mode {
		case 0:
			return strings.ReplaceAll(s, " ", "  ")
		case 1:
			return strings.ReplaceAll(s, " ", "\t")
		case 2:
			return strings.Map(func(c rune) rune {
				switch {
				case c >= 'a' && c <= 'z':
					return c - 32
				case c >= 'A' && c <= 'Z':
					return c + 32
				}
				return c
			}, s)
		default:
			return s + " "
		}
	}
	changed := false
	var walk func(x any)
	walk = func(x any) {
		switch v := x.(type) {
		case []any:
			for _, e := range v {
				walk(e)
			}
		case map[string]any:
			if jstr(v, "t") == "lit" {
				if lv := jobj(v["v"]); jstr(lv, "k") == "str" {
					if s := bytesOf(lv["v"]); change(s) != s {
						lv["v"] = bs(change(s))
						changed = true
					}
				}
				return
			}
			if jstr(v, "t") == "text" {
				if s := bytesOf(v["s"]); change(s) != s && !strings.ContainsAny(s, "{}%") {
					v["s"] = bs(change(s))
					changed = true
				}
				return
			}
			for k, e := range v {
				if k != "env" && k != "repr" && k != "files" && k != "cache" {
					walk(e)
				}
			}
		}
	}
	walk(twin["prog"])
	if !changed {
		return nil
	}
	delete(twin, "id")
	return twin
}

func genOmni(r *rand.Rand, i int) J {
	if i%5 == 4 && lastOmni != nil {
		if twin := nearTwin(lastOmni, r); twin != nil {
			if _, err := newPrinter(spellFromJSON(twin["spell"])).Template(jarr(twin, "prog")); err == nil {
				return twin
			}
		}
	}
	c := genOmniFresh(r, i)
	lastOmni = c
	return c
}

func genOmniFresh(r *rand.Rand, i int) J {
	g := &pgen{r: r, trims: r.Intn(4) == 0, budget: 14 + r.Intn(22), rich: true, hasInc: r.Intn(4) == 0}
	env, repr := g.richEnv()
	if g.hasInc {
		env = append(env, []any{bs("incname"), vStr("inc.liq")})
	}
	prog := g.seq(3, 6)
	pr := newPrinter(spellFromJSON(nil))
	if _, err := pr.Template(prog); err != nil {
		g.trims = false
		g.budget = 20
		prog = g.seq(3, 6)
	}
	// now and then one statement stands in the program twice (the very same text at two places, possibly separated by
	// statements that change what it means): each occurrence is its own
	if r.Intn(5) == 0 && len(prog) > 1 && !g.trims {
		src := r.Intn(len(prog))
		if t := jstr(jobj(prog[src]), "t"); t != "text" && t != "trimL" && t != "trimR" && t != "break" && t != "continue" {
			var cp any
			b, _ := json.Marshal(prog[src])
			json.Unmarshal(b, &cp)
			at := r.Intn(len(prog) + 1)
			prog = append(prog[:at], append([]any{J{"t": "text", "s": bs("\n")}, cp}, prog[at:]...)...)
		}
	}
	padTags(r, prog)
	c := J{"kind": "render", "prog": prog, "env": env, "repeat": 2 + r.Intn(2)}
	if g.hasInc {
		// the included file sees the current variables; it lives next to the template, on disk or in the engine's cache
		inc := []any{nText("("), nObj(eVar(pick(r, []string{"s", "n", "w", "x"}))), nObj(eFilter(eVar("a"), "size")), nText(")")}
		c["path"] = bs("d/t.liq")
		c["usedir"] = true
		if r.Intn(2) == 0 {
			c["files"] = []any{[]any{bs("d/inc.liq"), inc}}
		} else {
			c["cache"] = []any{[]any{bs("d/inc.liq"), inc}}
		}
	}
	if len(repr) > 0 {
		c["repr"] = repr
	}
	if r.Intn(4) == 0 {
		c["spell"] = J{"sp": bs(pick(r, []string{"  ", "\n", "\t", " \n "})), "tight": r.Intn(3) == 0, "modorder": r.Intn(6)}
	} else if r.Intn(4) == 0 {
		c["spell"] = J{"modorder": 1 + r.Intn(5)}
	}
	if r.Intn(8) == 0 {
		c["strict"] = true
	}
	// now and then the whole program under custom delimiters (some positions left empty = default)
	if r.Intn(6) == 0 {
		d := pick(r, [][]string{{"<<", ">>", "<?", "?>"}, {"[[", "]]", "", ""}, {"", "", "<%", "%>"}, {"(((", ")))", "((%", "%))"}}) // (mutually non-prefixing, as C19 presupposes)
		sp := jobj(c["spell"])
		if sp == nil {
			sp = J{}
		}
		sp2 := J{}
		for k, v := range sp {
			sp2[k] = v
		}
		sp2["delims"] = []any{bs(d[0]), bs(d[1]), bs(d[2]), bs(d[3])}
		if _, err := newPrinter(spellFromJSON(sp2)).Template(prog); err == nil && !g.hasInc {
			c["spell"] = sp2
		}
	}
	return c
}

func init() { generators["omni"] = genOmni }

// "bigarrays": arrays longer than the small models reach (library sorts switch algorithm with length: insertion sort
// up to 12 elements), through every array filter and two-filter chains; the reference decides (rank-based sort).
func genBigArrays(r *rand.Rand, i int) J {
	n := 9 + r.Intn(40)
	if i%9 == 4 {
		n = pick(r, []int{63, 64, 65}) // (beyond the lengths at which library sorts change their method once more)
	}
	perm := r.Perm(n)
	var items []any
	kind := r.Intn(4)
	for k := 0; k < n; k++ {
		switch kind {
		case 0: // distinct integers
			items = append(items, vInt(perm[k]-n/2))
		case 1: // distinct strings
			items = append(items, vStr(fmt.Sprintf("s%03d", perm[k])))
		case 2: // maps with distinct keys, a few identical ones lacking the key
			if k%11 == 5 {
				items = append(items, vMap("j", vInt(1)))
			} else {
				items = append(items, vMap("k", vInt(perm[k])))
			}
		default: // integers with repetitions and nils (uniq, compact)
			if k%7 == 3 {
				items = append(items, vNil())
			} else {
				items = append(items, vInt(perm[k]%5))
			}
		}
	}
	a := eVar("a")
	var e J
	switch kind {
	case 2:
		e = pick(r, []J{
			eFilter(eFilter(eFilter(a, "sort", eLit(vStr("k"))), "map", eLit(vStr("k"))), "join", eLit(vStr(","))),
			eFilter(eFilter(eFilter(a, "reverse"), "map", eLit(vStr("k"))), "join", eLit(vStr(","))),
			eFilter(eFilter(eFilter(eFilter(a, "sort", eLit(vStr("k"))), "reverse"), "map", eLit(vStr("k"))), "join", eLit(vStr(","))),
			eFilter(eFilter(a, "map", eLit(vStr("j"))), "size"),
			eFilter(eFilter(a, "uniq"), "size"),
			eProp(eFilter(eFilter(a, "sort", eLit(vStr("k"))), "last"), "k"),
		})
	case 3:
		e = pick(r, []J{
			eFilter(eFilter(a, "uniq"), "join", eLit(vStr(","))),
			eFilter(eFilter(a, "compact"), "join", eLit(vStr(","))),
			eFilter(eFilter(eFilter(a, "compact"), "sort"), "join", eLit(vStr(","))),
			eFilter(eFilter(eFilter(a, "compact"), "uniq"), "size"),
			eFilter(a, "join", eLit(vStr("+"))),
			eFilter(eFilter(a, "concat", a), "size"),
		})
	default:
		e = pick(r, []J{
			eFilter(eFilter(a, "sort"), "join", eLit(vStr(","))),
			eFilter(eFilter(eFilter(a, "sort"), "reverse"), "join", eLit(vStr(","))),
			eFilter(eFilter(a, "reverse"), "join", eLit(vStr(","))),
			eFilter(eFilter(a, "sort"), "first"), eFilter(eFilter(a, "sort"), "last"),
			eFilter(eFilter(a, "uniq"), "size"), eFilter(eFilter(a, "sort_natural"), "first"),
			eFilter(eFilter(eFilter(a, "concat", a), "uniq"), "size"),
			eFilter(eFilter(eFilter(a, "reverse"), "sort"), "join", eLit(vStr(","))),
		})
	}
	// the input printed again afterwards: the filter left it as it was
	prog := []any{nObj(e), nText("#"), J{"t": "for", "tag": "for", "var": bs("x"), "coll": a, "lim": eLit(vInt(3)), "body": []any{nObj(eProp(eVar("x"), "k")), nObj(eProp(eVar("forloop"), "index"))}},
		nText("#"), nObj(eFilter(a, "size"))}
	if kind != 2 {
		prog = []any{nObj(e), nText("#"), nObj(eFilter(a, "join", eLit(vStr(","))))}
	}
	c := J{"kind": "render", "prog": prog, "env": []any{[]any{bs("a"), vArr(items...)}}}
	if kind == 0 && r.Intn(2) == 0 {
		c["repr"] = J{"a": pick(r, []string{"ints", "int64s", "float64s"})}
	} else if kind == 1 && r.Intn(2) == 0 {
		c["repr"] = J{"a": "strings"}
	} else if kind == 2 && r.Intn(2) == 0 {
		c["repr"] = J{"a": "maps"}
	}
	return c
}

func init() { generators["bigarrays"] = genBigArrays }
