package main

// Printer: abstract syntax (the trees of LqExpr / LqRender) -> template text.
// This is the refinement mapping from the specification's trees to source.
// It emits one known-good spelling per tree, varied by Spell (spacing, quote
// kind, delimiters); values that have no literal spelling are hoisted into
// fresh bindings.

import (
	"fmt"
	"regexp"
	"strings"
)

// Spell selects among equivalent spellings.
type Spell struct {
	Sp     string   // whitespace between the parts of a tag or object (default " ")
	Quote  byte     // preferred quote character (default ")
	Delims []string // objectLeft, objectRight, tagLeft, tagRight (default {{ }} {% %}), as spelled in the template
	Raw    []string // what is passed to Engine.Delims (an empty string selects the default), nil: not configured
	Tight  bool     // no whitespace just inside the delimiters
	// ModOrder rotates the order in which the loop modifiers (reversed, offset, limit, cols) are written: what a loop
	// selects does not depend on the order its modifiers are spelled in
	ModOrder int
}

func spellFromJSON(x any) Spell {
	s := Spell{Sp: " ", Quote: '"', Delims: []string{"{{", "}}", "{%", "%}"}}
	m := jobj(x)
	if m == nil {
		return s
	}
	if v, ok := m["sp"]; ok {
		s.Sp = bytesOf(v)
	}
	if q := jstr(m, "quote"); q == "'" {
		s.Quote = '\''
	}
	if d := jarr(m, "delims"); len(d) == 4 {
		s.Raw = []string{bytesOf(d[0]), bytesOf(d[1]), bytesOf(d[2]), bytesOf(d[3])}
		eff := []string{"{{", "}}", "{%", "%}"}
		for i, x := range s.Raw {
			if x != "" {
				eff[i] = x
			}
		}
		s.Delims = eff
	}
	s.Tight = jbool(m, "tight")
	s.ModOrder = jint(m, "modorder")
	return s
}

type printer struct {
	sp      Spell
	hoisted map[string]any // fresh binding name -> tagged JSON value
	n       int
}

func newPrinter(sp Spell) *printer {
	return &printer{sp: sp, hoisted: map[string]any{}}
}

var identRe = regexp.MustCompile(`^[A-Za-z_][A-Za-z0-9_-]*\??$`)

func (p *printer) hoist(v J) string {
	p.n++
	name := fmt.Sprintf("hv%d_", p.n)
	p.hoisted[name] = v
	return name
}

// literal returns the literal spelling of v, or "" when it has none.
func (p *printer) literal(v J) string {
	switch jstr(v, "k") {
	case "nil":
		return "nil"
	case "bool":
		if jbool(v, "v") {
			return "true"
		}
		return "false"
	case "int":
		return fmt.Sprint(jint(v, "v"))
	case "flt":
		return decimalOf(jint(v, "n"), jint(v, "d"))
	case "str":
		s := bytesOf(v["v"])
		for i := 0; i < len(s); i++ {
			c := s[i]
			if c < 32 || c == '{' || c == '}' || c == '%' || c == 127 {
				return ""
			}
		}
		for _, d := range p.sp.Delims {
			if strings.Contains(s, d) {
				return ""
			}
		}
		q := p.sp.Quote
		if strings.IndexByte(s, q) >= 0 {
			if q == '"' {
				q = '\''
			} else {
				q = '"'
			}
			if strings.IndexByte(s, q) >= 0 {
				return ""
			}
		}
		return string(q) + s + string(q)
	}
	return ""
}

// decimalOf spells n/d exactly as a decimal with at least one fractional
// digit, or "" when the expansion is not finite within 9 digits.
func decimalOf(n, d int) string {
	if d <= 0 {
		return ""
	}
	neg := n < 0
	if neg {
		n = -n
	}
	ip := n / d
	rem := n % d
	frac := ""
	for i := 0; i < 9 && rem != 0; i++ {
		rem *= 10
		frac += string(rune('0' + rem/d))
		rem %= d
	}
	if rem != 0 {
		return ""
	}
	if frac == "" {
		frac = "0"
	}
	s := fmt.Sprintf("%d.%s", ip, frac)
	if neg {
		s = "-" + s
	}
	return s
}

func isSimpleExpr(e J) bool {
	switch jstr(e, "t") {
	case "lit", "var", "prop", "idx", "range":
		return true
	}
	return false
}

// operand prints e in a position where the grammar wants an `expr`.
func (p *printer) operand(e J) (string, error) {
	s, err := p.expr(e)
	if err != nil {
		return "", err
	}
	if isSimpleExpr(e) {
		return s, nil
	}
	return "(" + s + ")", nil
}

// expr prints e in a position where the grammar wants a `cond`.
func (p *printer) expr(e J) (string, error) {
	sp := p.sp.Sp
	switch jstr(e, "t") {
	case "lit":
		v := jobj(e["v"])
		if s := p.literal(v); s != "" {
			return s, nil
		}
		return p.hoist(v), nil
	case "var":
		name := bytesOf(e["name"])
		if !identRe.MatchString(name) {
			return "", fmt.Errorf("unprintable variable name %q", name)
		}
		return name, nil
	case "prop":
		base, err := p.operand(jobj(e["e"]))
		if err != nil {
			return "", err
		}
		name := bytesOf(e["name"])
		if !identRe.MatchString(name) {
			return "", fmt.Errorf("unprintable property name %q", name)
		}
		return base + "." + name, nil
	case "idx":
		base, err := p.operand(jobj(e["e"]))
		if err != nil {
			return "", err
		}
		i, err := p.operand(jobj(e["i"]))
		if err != nil {
			return "", err
		}
		return base + "[" + i + "]", nil
	case "range":
		a, err := p.operand(jobj(e["a"]))
		if err != nil {
			return "", err
		}
		b, err := p.operand(jobj(e["b"]))
		if err != nil {
			return "", err
		}
		return "(" + a + ".." + b + ")", nil
	case "cmp":
		a, err := p.operand(jobj(e["a"]))
		if err != nil {
			return "", err
		}
		b, err := p.operand(jobj(e["b"]))
		if err != nil {
			return "", err
		}
		return a + sp + jstr(e, "op") + sp + b, nil
	case "and", "or":
		a, err := p.expr(jobj(e["a"]))
		if err != nil {
			return "", err
		}
		if t := jstr(jobj(e["a"]), "t"); t == "and" || t == "or" {
			a = "(" + a + ")"
		}
		b, err := p.expr(jobj(e["b"]))
		if err != nil {
			return "", err
		}
		if t := jstr(jobj(e["b"]), "t"); t == "and" || t == "or" {
			b = "(" + b + ")"
		}
		return a + sp + jstr(e, "t") + sp + b, nil
	case "xwhere": // recv | lqx_where: "name", "source of the condition"
		r, err := p.expr(jobj(e["e"]))
		if err != nil {
			return "", err
		}
		cnd, err := p.expr(jobj(e["c"]))
		if err != nil {
			return "", err
		}
		if strings.ContainsAny(cnd, "\"'") {
			return "", fmt.Errorf("xwhere: the condition %q holds a quote", cnd)
		}
		return r + sp + "|" + sp + "lqx_where:" + sp + p.literal(vStr(bytesOf(e["var"]))) + "," + sp + p.literal(vStr(cnd)), nil
	case "filter":
		recv := jobj(e["e"])
		r, err := p.expr(recv)
		if err != nil {
			return "", err
		}
		if t := jstr(recv, "t"); t == "cmp" || t == "and" || t == "or" {
			r = "(" + r + ")"
		}
		s := r + sp + "|" + sp + jstr(e, "name")
		args := jarr(e, "args")
		for i, a := range args {
			as, err := p.operand(jobj(a))
			if err != nil {
				return "", err
			}
			if i == 0 {
				s += ":" + sp + as
			} else {
				s += "," + sp + as
			}
		}
		return s, nil
	}
	return "", fmt.Errorf("unknown expression type %q", jstr(e, "t"))
}

// ---- nodes -----------------------------------------------------------------

type item struct {
	node J
	l, r bool // hyphen on the left of the (opening) tag / on the right of the (closing) tag
}

func isTrim(n J, dir string) bool { return jstr(n, "t") == dir }

func isTagNode(n J) bool {
	switch jstr(n, "t") {
	case "text", "trimL", "trimR":
		return false
	}
	return true
}

// layout assigns the trim markers of a sequence to the tags they belong to.
// It returns the items, whether the sequence starts with a trimR that belongs
// to the enclosing opening/clause tag, and whether it ends with a trimL that
// belongs to the enclosing next clause/end tag.
func layout(nodes []any) (items []*item, leadR, trailL bool, err error) {
	pendingL := false
	prevIdx := -2 // index in nodes of the most recent item
	for i, x := range nodes {
		n := jobj(x)
		switch {
		case isTrim(n, "trimL"):
			if pendingL {
				return nil, false, false, fmt.Errorf("two trimL markers in a row")
			}
			pendingL = true
		case isTrim(n, "trimR"):
			if pendingL {
				return nil, false, false, fmt.Errorf("trimR after trimL")
			}
			if len(items) == 0 {
				if i != 0 || leadR {
					return nil, false, false, fmt.Errorf("misplaced trimR")
				}
				leadR = true
				continue
			}
			last := items[len(items)-1]
			if !isTagNode(last.node) || last.r || prevIdx != i-1 {
				return nil, false, false, fmt.Errorf("trimR does not follow a tag")
			}
			last.r = true
		default:
			it := &item{node: n}
			if pendingL {
				if !isTagNode(n) {
					return nil, false, false, fmt.Errorf("trimL before text")
				}
				it.l = true
				pendingL = false
			}
			items = append(items, it)
			prevIdx = i
		}
	}
	return items, leadR, pendingL, nil
}

// (a tight spelling still needs a blank where the content itself starts or ends with a hyphen)
func (p *printer) tag(l bool, content string, r bool) string {
	s := p.sp.Delims[2]
	if l {
		s += "-"
	}
	if !p.sp.Tight || strings.HasPrefix(content, "-") {
		s += p.sp.Sp
	}
	s += content
	if !p.sp.Tight || strings.HasSuffix(content, "-") || runsInto(content, p.sp.Delims[3]) {
		s += p.sp.Sp
	}
	if r {
		s += "-"
	}
	return s + p.sp.Delims[3]
}

// runsInto: written without a space, the end of the content and the closing delimiter would read differently
// ("b[-2]" + "]]": the scanner takes the first "]]")
func runsInto(content, closer string) bool {
	return content != "" && closer != "" && content[len(content)-1] == closer[0]
}

func (p *printer) object(l bool, content string, r bool) string {
	s := p.sp.Delims[0]
	if l {
		s += "-"
	}
	if !p.sp.Tight || strings.HasPrefix(content, "-") {
		s += p.sp.Sp
	}
	s += content
	if !p.sp.Tight || strings.HasSuffix(content, "-") || runsInto(content, p.sp.Delims[1]) {
		s += p.sp.Sp
	}
	if r {
		s += "-"
	}
	return s + p.sp.Delims[1]
}

// body prints a block body and reports its leading-trimR / trailing-trimL.
func (p *printer) body(nodes []any) (s string, leadR, trailL bool, err error) {
	items, leadR, trailL, err := layout(nodes)
	if err != nil {
		return "", false, false, err
	}
	var sb strings.Builder
	for _, it := range items {
		t, err := p.node(it)
		if err != nil {
			return "", false, false, err
		}
		sb.WriteString(t)
	}
	return sb.String(), leadR, trailL, nil
}

// Template prints a whole template.
func (p *printer) Template(nodes []any) (string, error) {
	s, leadR, trailL, err := p.body(nodes)
	if err != nil {
		return "", err
	}
	if leadR || trailL {
		return "", fmt.Errorf("trim marker without a tag at the edge of the template")
	}
	return s, nil
}

func (p *printer) checkText(s string) error {
	for _, d := range []string{p.sp.Delims[0], p.sp.Delims[2]} {
		if strings.Contains(s, d) {
			return fmt.Errorf("text %q contains an opening delimiter", s)
		}
	}
	return nil
}

// node prints one node; a node carrying "padnl": k gets k newlines just inside its opening delimiter
func (p *printer) node(it *item) (string, error) {
	s, err := p.node1(it)
	if err != nil {
		return "", err
	}
	if k := jint(it.node, "padnl"); k > 0 {
		for _, open := range []string{p.sp.Delims[0], p.sp.Delims[2]} {
			if strings.HasPrefix(s, open) {
				at := len(open)
				if len(s) > at && s[at] == '-' {
					at++
				}
				return s[:at] + strings.Repeat("\n", k) + s[at:], nil
			}
		}
	}
	return s, nil
}

func (p *printer) node1(it *item) (string, error) {
	n := it.node
	sp := p.sp.Sp
	switch jstr(n, "t") {
	case "text":
		s := bytesOf(n["s"])
		if err := p.checkText(s); err != nil {
			return "", err
		}
		return s, nil
	case "obj":
		e, err := p.expr(jobj(n["e"]))
		if err != nil {
			return "", err
		}
		return p.object(it.l, e, it.r), nil
	case "assign":
		e, err := p.expr(jobj(n["e"]))
		if err != nil {
			return "", err
		}
		return p.tag(it.l, "assign"+sp+bytesOf(n["name"])+sp+"="+sp+e, it.r), nil
	case "snap": // the harness's own tag: renders nothing, records what the name is bound to
		return p.tag(it.l, "lqh_snap"+sp+bytesOf(n["name"])+sp+jstr(n, "label"), it.r), nil
	case "badobj": // an object that does not parse
		return p.object(it.l, "1 |", it.r), nil
	case "badtag": // a known tag whose arguments do not parse
		return p.tag(it.l, "assign", it.r), nil
	case "unknowntag":
		return p.tag(it.l, "nosuchtag 1", it.r), nil
	case "strayend": // an end tag that closes nothing
		return p.tag(it.l, "endfor", it.r), nil
	case "strayclause":
		return p.tag(it.l, "when 1", it.r), nil
	case "strayelse": // (only where no enclosing block takes an else clause)
		return p.tag(it.l, "else", it.r), nil
	case "openraw": // raw / comment blocks that are never closed (they swallow what follows)
		return p.tag(it.l, "raw", it.r), nil
	case "opencomment":
		return p.tag(it.l, "comment", it.r), nil
	case "openif": // a block that is never closed
		return p.tag(it.l, "if true", it.r), nil
	case "badif": // a block tag whose arguments do not parse
		return p.tag(it.l, "if", it.r) + "q" + p.tag(false, "endif", false), nil
	case "break", "continue":
		return p.tag(it.l, jstr(n, "t"), it.r), nil
	case "cycle":
		var parts []string
		for _, v := range jarr(n, "vals") {
			lit := p.literal(J{"k": "str", "v": v})
			if lit == "" {
				return "", fmt.Errorf("unprintable cycle value")
			}
			parts = append(parts, lit)
		}
		s := "cycle" + sp
		if g, ok := n["group"]; ok {
			lit := p.literal(J{"k": "str", "v": g})
			if lit == "" {
				return "", fmt.Errorf("unprintable cycle group")
			}
			s += lit + ":" + sp
		}
		return p.tag(it.l, s+strings.Join(parts, ","+sp), it.r), nil
	case "xargs":
		if a := bytesOf(n["s"]); a != "" {
			return p.tag(it.l, "lqx_args"+sp+a, it.r), nil
		}
		return p.tag(it.l, "lqx_args", it.r), nil
	case "xset":
		e, err := p.expr(jobj(n["e"]))
		if err != nil {
			return "", err
		}
		return p.tag(it.l, "lqx_set"+sp+bytesOf(n["name"])+sp+e, it.r), nil
	case "xshow":
		return p.tag(it.l, "lqx_show"+sp+bytesOf(n["name"]), it.r), nil
	case "xfail":
		return p.tag(it.l, "lqx_fail"+sp+"boom", it.r), nil
	case "xsub":
		return p.tag(it.l, "lqx_sub", it.r), nil
	case "xloopidx":
		return p.tag(it.l, "lqx_loopidx", it.r), nil
	case "xfile":
		return p.tag(it.l, "lqx_file"+sp+bytesOf(n["rel"]), it.r), nil
	case "xexpand":
		// the arguments are a little template of their own: texts and objects (the first and the last piece are
		// not white space: the arguments of a tag are trimmed)
		b, leadR, trailL, err := p.body(jarr(n, "body"))
		if err != nil {
			return "", err
		}
		if leadR || trailL || b != strings.TrimSpace(b) || b == "" {
			return "", fmt.Errorf("xexpand: arguments %q cannot be spelled", b)
		}
		return p.tag(it.l, "lqx_expand"+sp+b, it.r), nil
	case "xblock":
		name := xblockNames[jint(n, "times")]
		b, leadR, trailL, err := p.body(jarr(n, "body"))
		if err != nil {
			return "", err
		}
		return p.tag(it.l, name, leadR) + b + p.tag(trailL, "end"+name, it.r), nil
	case "include":
		e, err := p.expr(jobj(n["e"]))
		if err != nil {
			return "", err
		}
		return p.tag(it.l, "include"+sp+e, it.r), nil
	case "raw", "comment":
		name := jstr(n, "t")
		body, end := bytesOf(n["s"]), p.tag(false, "end"+name, it.r)
		// the end tag must still be found where it stands: no opening delimiter may straddle the end of the body
		// ("...<" + "<? endraw ?>" reads as "<<" with custom delimiters)
		for i, d := range []string{p.sp.Delims[0], p.sp.Delims[2]} {
			if p.sp.Raw == nil {
				break // (default delimiters: the generated bodies are known to be safe)
			}
			for k := 1; k < len(d); k++ {
				if strings.HasSuffix(body, d[:k]) && strings.HasPrefix(end, d[k:]) {
					return "", fmt.Errorf("body %q runs into its end tag", body)
				}
			}
			// (the generated bodies hold complete tags and objects in the default spelling only: an opening custom
			// delimiter in them could pair with a closing one further down and swallow the end tag)
			if d != []string{"{{", "{%"}[i] && strings.Contains(body, d) {
				return "", fmt.Errorf("body %q holds an opening delimiter", body)
			}
		}
		return p.tag(it.l, name, false) + body + end, nil
	case "capture":
		b, leadR, trailL, err := p.body(jarr(n, "body"))
		if err != nil {
			return "", err
		}
		return p.tag(it.l, "capture"+sp+bytesOf(n["name"]), leadR) + b + p.tag(trailL, "endcapture", it.r), nil
	case "if":
		name := "if"
		if jbool(n, "neg") {
			name = "unless"
		}
		var sb strings.Builder
		prevTrailL := it.l
		for i, bx := range jarr(n, "branches") {
			br := jobj(bx)
			c := jobj(br["c"])
			var head string
			switch {
			case i == 0:
				e, err := p.expr(c)
				if err != nil {
					return "", err
				}
				head = name + sp + e
			case jstr(c, "t") == "else":
				head = "else"
			default:
				e, err := p.expr(c)
				if err != nil {
					return "", err
				}
				head = "elsif" + sp + e
			}
			b, leadR, trailL, err := p.body(jarr(br, "body"))
			if err != nil {
				return "", err
			}
			sb.WriteString(p.tag(prevTrailL, head, leadR))
			sb.WriteString(b)
			prevTrailL = trailL
		}
		sb.WriteString(p.tag(prevTrailL, "end"+name, it.r))
		return sb.String(), nil
	case "case":
		e, err := p.expr(jobj(n["e"]))
		if err != nil {
			return "", err
		}
		var sb strings.Builder
		pre, leadR, trailL, err := p.body(jarr(n, "pre"))
		if err != nil {
			return "", err
		}
		sb.WriteString(p.tag(it.l, "case"+sp+e, leadR))
		sb.WriteString(pre)
		prevTrailL := trailL
		for _, wx := range jarr(n, "whens") {
			w := jobj(wx)
			head := "else"
			if !jbool(w, "else") {
				var vs []string
				for _, v := range jarr(w, "vals") {
					s, err := p.operand(jobj(v))
					if err != nil {
						return "", err
					}
					vs = append(vs, s)
				}
				head = "when" + sp + strings.Join(vs, ","+sp)
			}
			b, leadR, trailL, err := p.body(jarr(w, "body"))
			if err != nil {
				return "", err
			}
			sb.WriteString(p.tag(prevTrailL, head, leadR))
			sb.WriteString(b)
			prevTrailL = trailL
		}
		sb.WriteString(p.tag(prevTrailL, "endcase", it.r))
		return sb.String(), nil
	case "for":
		name := jstr(n, "tag")
		coll, err := p.expr(jobj(n["coll"]))
		if err != nil {
			return "", err
		}
		if t := jstr(jobj(n["coll"]), "t"); t == "cmp" || t == "and" || t == "or" {
			coll = "(" + coll + ")"
		}
		head := name + sp + bytesOf(n["var"]) + sp + "in" + sp + coll
		mods := []string{}
		if jbool(n, "rev") {
			mods = append(mods, "reversed")
		}
		for _, m := range [][2]string{{"off", "offset"}, {"lim", "limit"}, {"cols", "cols"}} {
			if ex, ok := n[m[0]]; ok {
				s, err := p.operand(jobj(ex))
				if err != nil {
					return "", err
				}
				mods = append(mods, m[1]+":"+s)
			}
		}
		if k := p.sp.ModOrder; k > 0 && len(mods) > 1 {
			// the k-th rotation, reversed for odd k
			r := k % len(mods)
			mods = append(append([]string{}, mods[r:]...), mods[:r]...)
			if k%2 == 1 {
				for i, j := 0, len(mods)-1; i < j; i, j = i+1, j-1 {
					mods[i], mods[j] = mods[j], mods[i]
				}
			}
		}
		for _, m := range mods {
			head += sp + m
		}
		var sb strings.Builder
		b, leadR, trailL, err := p.body(jarr(n, "body"))
		if err != nil {
			return "", err
		}
		sb.WriteString(p.tag(it.l, head, leadR))
		sb.WriteString(b)
		if ex, ok := n["else"]; ok {
			eb, eLeadR, eTrailL, err := p.body(ex.([]any))
			if err != nil {
				return "", err
			}
			sb.WriteString(p.tag(trailL, "else", eLeadR))
			sb.WriteString(eb)
			trailL = eTrailL
		}
		sb.WriteString(p.tag(trailL, "end"+name, it.r))
		return sb.String(), nil
	}
	return "", fmt.Errorf("unknown node type %q", jstr(n, "t"))
}
