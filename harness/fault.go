package main

// C20: render into a writer that fails at its k-th call, for every k, and
// log every Write call (DESIGN.md §6 C20).

import (
	"bytes"
	"errors"
	"fmt"
	"io"

	"github.com/osteele/liquid"
)

type writeEvent struct {
	b      []byte
	n      int
	failed bool
}

// faultWriter accepts everything until call number failAt, of which it
// accepts keep bytes and fails; afterwards every call fails (sticky).
type faultWriter struct {
	failAt, keep int
	err          error // what the failing calls return
	calls        int
	log          []writeEvent
	acc          bytes.Buffer
}

func (w *faultWriter) Write(b []byte) (int, error) {
	w.calls++
	cp := append([]byte{}, b...)
	if w.failAt > 0 && w.calls >= w.failAt {
		n := 0
		if w.calls == w.failAt {
			n = w.keep
			if n < 0 { // all but that many bytes
				n = len(b) + n
				if n < 0 {
					n = 0
				}
			}
			if n > len(b) {
				n = len(b)
			}
		}
		w.acc.Write(b[:n])
		w.log = append(w.log, writeEvent{cp, n, true})
		return n, w.err
	}
	w.acc.Write(b)
	w.log = append(w.log, writeEvent{cp, len(b), false})
	return len(b), nil
}

var _ io.Writer = (*faultWriter)(nil)

// the errors a failing writer hands out: the harness's own, and the ones the io package itself uses (a writer that
// accepted part of the data says io.ErrShortWrite - io.MultiWriter does; a closed pipe; an end of file)
var writerErrors = []error{errWriter, io.ErrShortWrite, io.ErrClosedPipe, io.EOF, errList{errors.New("first"), errors.New("second")}}

// errList: an error whose dynamic type cannot be a map key or be compared (a list of errors, as go/scanner.ErrorList)
type errList []error

func (l errList) Error() string { return fmt.Sprintf("%d errors", len(l)) }

func sameErr(e, want error) bool {
	if l, ok := want.(errList); ok { // (not comparable)
		g, ok := e.(errList)
		return ok && len(g) == len(l) && len(l) > 0 && g[0] == l[0]
	}
	if _, ok := e.(errList); ok {
		return false
	}
	return e == want || errors.Is(e, want)
}

func carries(err liquid.SourceError, want error) bool {
	var e error = err
	for i := 0; i < 20 && e != nil; i++ {
		if sameErr(e, want) {
			return true
		}
		c, ok := e.(interface{ Cause() error })
		if !ok {
			break
		}
		e = c.Cause()
	}
	return false
}

func runFault(c J) J {
	obs := cloneCase(c)
	rs, err := prepareRender(c)
	if err != nil {
		obs["outcome"] = "skip"
		obs["msg"] = err.Error()
		return obs
	}
	defer rs.cleanup()
	obs["text"] = rs.src
	one := func(entry string, failAt, keep int) (J, *faultWriter) {
		we := writerErrors[(failAt+keep%5+len(entry))%len(writerErrors)]
		w := &faultWriter{failAt: failAt, keep: keep, err: we}
		res := guard(func() result {
			var serr liquid.SourceError
			switch entry {
			case "ParseAndFRender":
				serr = rs.engine.ParseAndFRender(w, []byte(rs.src), rs.bindings)
			default:
				tpl, perr := parseScribbled(rs.engine, rs.src, rs.path, rs.line0)
				if perr != nil {
					return errResult("parse", perr, rs.root)
				}
				serr = tpl.FRender(w, rs.bindings)
			}
			if serr != nil {
				r := errResult("render", serr, rs.root)
				r.HasCause = carries(serr, we)
				return r
			}
			return result{Outcome: "ok"}
		})
		writes := []any{}
		for _, e := range w.log {
			writes = append(writes, J{"b": bytesJSON(string(e.b)), "n": e.n, "failed": e.failed})
		}
		run := J{"entry": entry, "k": failAt, "keep": keep, "writes": writes, "outcome": res.Outcome,
			"srcerr": res.IsSrcErr, "carries": res.HasCause, "msg": res.Msg, "panic": res.PanicVal, "panicat": res.PanicAt}
		return run, w
	}
	ref, w0 := one("FRender", 0, 0)
	obs["outcome"] = ref["outcome"]
	obs["ref"] = bytesJSON(w0.acc.String())
	runs := []any{ref}
	if ref["outcome"] == "ok" {
		n := w0.calls
		for k := 1; k <= n+1; k++ {
			for _, keep := range []int{0, 1, 1 << 20, -1} {
				for _, entry := range []string{"FRender", "ParseAndFRender"} {
					if entry == "ParseAndFRender" && (rs.path != "" || keep == 1 || keep == -1) {
						continue
					}
					r, _ := one(entry, k, keep)
					runs = append(runs, r)
				}
			}
		}
	}
	obs["runs"] = runs
	return obs
}

func init() { kinds["fault"] = runFault }
