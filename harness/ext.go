package main

// Constructs of an embedding program, registered through the public API (Engine.RegisterTag / RegisterBlock /
// RegisterFilter with render.Context).  The specification gives each of them a meaning (LqRender: xargs, xset,
// xshow, xexpand, xfail, xfile, xblock; LqFilters: lqx_rep) in terms of what the Context methods promise.

import (
	"fmt"
	"path/filepath"
	"strings"

	"github.com/osteele/liquid"
	"github.com/osteele/liquid/expressions"
	"github.com/osteele/liquid/render"
)

func registerExt(eng *liquid.Engine) {
	// TagName, TagArgs
	eng.RegisterTag("lqx_args", func(c render.Context) (string, error) {
		return "<" + c.TagName() + "|" + c.TagArgs() + ">", nil
	})
	// EvaluateString, Set
	eng.RegisterTag("lqx_set", func(c render.Context) (string, error) {
		args := strings.TrimSpace(c.TagArgs())
		i := strings.IndexAny(args, " \t\r\n")
		if i < 0 {
			return "", c.Errorf("lqx_set: syntax")
		}
		v, err := c.EvaluateString(strings.TrimSpace(args[i:]))
		if err != nil {
			return "", err
		}
		c.Set(args[:i], v)
		return "", nil
	})
	// Get
	eng.RegisterTag("lqx_show", func(c render.Context) (string, error) {
		return fmt.Sprintf("%v", c.Get(strings.TrimSpace(c.TagArgs()))), nil
	})
	// ExpandTagArg
	eng.RegisterTag("lqx_expand", func(c render.Context) (string, error) { return c.ExpandTagArg() })
	// a tag that renders another template of its own (as an "embed" tag of a site generator does) and hands back that
	// render's error, wrapped: the failure is this tag's, in this template
	eng.RegisterTag("lqx_sub", func(c render.Context) (string, error) {
		sub := liquid.NewEngine()
		out, err := sub.ParseTemplateLocation([]byte("a\n{{ 1 | no_such_filter }}"), "elsewhere/sub.liq", 40)
		if err != nil {
			return "", fmt.Errorf("lqx_sub: %w", err)
		}
		s, rerr := out.RenderString(nil)
		if rerr != nil {
			return "", fmt.Errorf("lqx_sub: %w", rerr)
		}
		return s, nil
	})
	// the loop state, read through the context and not through an expression
	eng.RegisterTag("lqx_loopidx", func(c render.Context) (string, error) {
		fl, ok := c.Get("forloop").(map[string]any)
		if !ok {
			return "-", nil
		}
		return fmt.Sprintf("%v/%v", fl["index"], fl["length"]), nil
	})
	// Errorf
	eng.RegisterTag("lqx_fail", func(c render.Context) (string, error) { return "", c.Errorf("lqx: %s", c.TagArgs()) })
	// SourceFile, RenderFile
	eng.RegisterTag("lqx_file", func(c render.Context) (string, error) {
		return c.RenderFile(filepath.Join(filepath.Dir(c.SourceFile()), strings.TrimSpace(c.TagArgs())), map[string]any{"p": 7})
	})
	// InnerString: never, once, twice
	eng.RegisterBlock("lqx_drop", func(c render.Context) (string, error) { return "", nil })
	eng.RegisterBlock("lqx_wrap", func(c render.Context) (string, error) {
		s, err := c.InnerString()
		if err != nil {
			return "", err
		}
		return "(" + s + ")", nil
	})
	eng.RegisterBlock("lqx_twice", func(c render.Context) (string, error) {
		s, err := c.InnerString()
		if err != nil {
			return "", err
		}
		t, err := c.InnerString()
		if err != nil {
			return "", err
		}
		return "(" + s + "|" + t + ")", nil
	})
	// a filter whose last parameter is a Closure: the argument is the source of an expression, evaluated per element
	// with the element bound to the given name (gojekyll's where_exp)
	eng.RegisterFilter("lqx_where", func(a []any, name string, cond expressions.Closure) ([]any, error) {
		out := []any{}
		for _, e := range a {
			v, err := cond.Bind(name, e).Evaluate()
			if err != nil {
				return nil, err
			}
			if v != nil && v != false {
				out = append(out, e)
			}
		}
		return out, nil
	})
	// a filter declared with a typed slice parameter
	eng.RegisterFilter("lqx_sum", func(a []int) int {
		n := 0
		for _, x := range a {
			n += x
		}
		return n
	})
	eng.RegisterFilter("lqx_rep", func(s string, n int) string {
		if n < 0 || n > 1000 {
			return ""
		}
		return strings.Repeat(s, n)
	})
}

var xblockNames = []string{"lqx_drop", "lqx_wrap", "lqx_twice"}
