package main

// Seeded drivers for C05: pass-through of raw / comment bodies and string
// values, and arbitrary sources for the tokenizer laws.

import (
	"math/rand"
	"strings"
)

func randBytes(r *rand.Rand, n int) string {
	b := make([]byte, n)
	for i := range b {
		b[i] = byte(r.Intn(256))
	}
	return string(b)
}

var utf8Pieces = []string{"a", "B", " ", "\n", "\t", "é", "ß", "日本", "😀", "<", ">", "&", "\"", "'", "%", "-", "|", ":", ".", "0", "\r\n", "\x00", "~"}

func randUTF8(r *rand.Rand, n int) string {
	var sb strings.Builder
	for i := 0; i < n; i++ {
		sb.WriteString(pick(r, utf8Pieces))
	}
	return sb.String()
}

// plain text without any delimiter character
func plainText(r *rand.Rand, n int) string {
	s := randUTF8(r, n)
	return strings.NewReplacer("{", "(", "}", ")", "%", "pc").Replace(s)
}

// tagLike returns a complete tag or object spelling that a raw or comment
// body may contain (never an end tag of the enclosing block).
func tagLike(r *rand.Rand) string {
	// (also quotes without a partner: what looks like the start of a string literal inside a raw or comment body is
	// just text, whatever quotes follow further down)
	inner := pick(r, []string{"x", " x | upcase ", "- y -", " 1 | nosuchfilter: 2 ", " a.b[0] ", "\"}\"x", " 'q' ", " don't show ", " say \"hi ", "'", " x | append: 'a ", "\""})
	switch r.Intn(6) {
	case 0:
		return "{{" + inner + "}}"
	case 1:
		return "{% if " + pick(r, []string{"a", "x == 1", "true"}) + " %}"
	case 2:
		return "{% " + pick(r, []string{"endif", "else", "endfor", "for i in (1..3)", "assign q = 5", "break", "unknowntag 1 2", "case x", "when 1", "include 'f'"}) + " %}"
	case 3:
		return "{%- " + pick(r, []string{"capture z", "endcapture", "cycle 'a','b'"}) + " -%}"
	case 4:
		return "{{- " + pick(r, []string{"x", "forloop.index", "'s'"}) + " -}}"
	default:
		return "{%" + pick(r, []string{"if", "endunless", "tablerow z in q"}) + "%}"
	}
}

func blockBody(r *rand.Rand) string {
	var sb strings.Builder
	for i, n := 0, r.Intn(6); i < n; i++ {
		if r.Intn(2) == 0 {
			sb.WriteString(plainText(r, 1+r.Intn(6)))
		} else {
			sb.WriteString(tagLike(r))
		}
	}
	return sb.String()
}

func genPassthrough(r *rand.Rand, i int) J {
	prog := []any{}
	env := []any{}
	lastText := false
	for k, n := 0, 1+r.Intn(6); k < n; k++ {
		switch c := r.Intn(4); {
		case c == 0 && !lastText:
			t := plainText(r, 1+r.Intn(10))
			if r.Intn(10) == 0 {
				t = plainText(r, 2000+r.Intn(3000))
			}
			if k == 0 && r.Intn(3) == 0 {
				t = pick(r, edgeSpecials) + t // (at the very start of the source)
			}
			prog = append(prog, nText(t))
			lastText = true
			continue
		case c == 1 && r.Intn(3) == 0:
			// a string literal is emitted exactly: letters, spaces and quote characters of the other kind, anywhere in it
			q := pick(r, []string{"'", "\""})
			var sb strings.Builder
			for m := r.Intn(6); m >= 0; m-- {
				sb.WriteString(pick(r, []string{q, q, "a", " ", "x y", "é", q + q}))
			}
			prog = append(prog, nObj(eLit(vStr(sb.String()))))
		case c == 1:
			prog = append(prog, J{"t": "raw", "s": bs(blockBody(r))})
		case c == 2:
			prog = append(prog, J{"t": "comment", "s": bs(blockBody(r))})
		default:
			name := pick(r, []string{"s", "t", "u"})
			var v string
			switch r.Intn(4) {
			case 0:
				v = randBytes(r, r.Intn(40))
			case 1:
				v = randUTF8(r, r.Intn(30))
			case 2:
				v = blockBody(r) // tag-like text inside a value is not re-interpreted
			default:
				v = randUTF8(r, 3000+r.Intn(60000))
			}
			found := false
			for _, p := range env {
				if bytesOf(p.([]any)[0]) == name {
					found = true
				}
			}
			if found {
				continue
			}
			if r.Intn(3) == 0 {
				v += pick(r, []string{" ", "\n", " \t ", "  "}) // a value that ends in white space keeps it
			}
			env = append(env, []any{bs(name), vStr(v)})
			prog = append(prog, nObj(eVar(name)))
		}
		lastText = false
		// blank text and then a tag with a left hyphen: the hyphen removes that blank text, not the end of the value
		// or of the raw body before it
		if r.Intn(3) == 0 {
			prog = append(prog, nText(pick(r, []string{" ", "\n", " \n ", "\t"})), J{"t": "trimL"}, J{"t": "assign", "name": bs("zq"), "e": eLit(vInt(1))})
		}
	}
	c := J{"kind": "render", "prog": prog, "env": env}
	if r.Intn(6) == 0 {
		// the same text reaches the output unchanged when it comes from an included file (on disk or registered with
		// the engine) - down to the line end the file finishes with
		body := append([]any{}, prog...)
		if r.Intn(2) == 0 {
			body = append(body, nText(pick(r, []string{"\n", "\r\n", "\n\n", " \n"})))
		}
		if _, err := newPrinter(spellFromJSON(nil)).Template(body); err == nil {
			c["prog"] = []any{J{"t": "include", "e": eLit(vStr("p.liq"))}}
			c["path"] = bs("d/t.liq")
			c["usedir"] = true
			if r.Intn(2) == 0 {
				c["files"] = []any{[]any{bs("d/p.liq"), body}}
			} else {
				c["cache"] = []any{[]any{bs("d/p.liq"), body}}
			}
		}
	}
	return c
}

func genScanBytes(r *rand.Rand, i int) J {
	var src string
	switch r.Intn(6) {
	case 0:
		src = randBytes(r, r.Intn(120))
	case 1:
		src = randUTF8(r, r.Intn(80))
	case 2:
		// delimiter soup
		var sb strings.Builder
		for k, n := 0, r.Intn(60); k < n; k++ {
			sb.WriteString(pick(r, []string{"{", "}", "%", "-", " ", "\n", "a", "{{", "}}", "{%", "%}", "\"", "if", "x"}))
		}
		src = sb.String()
	case 3:
		// well-formed: texts and complete tags / objects
		var sb strings.Builder
		for k, n := 0, r.Intn(12); k < n; k++ {
			if r.Intn(2) == 0 {
				sb.WriteString(plainText(r, 1+r.Intn(8)))
			} else {
				sb.WriteString(pick(r, []string{"{{ x }}", "{{- x -}}", "{% assign y = 1 %}", "{%- if true -%}", "{% endif %}", "{{x}}", "{%break%}", "{{ 'a' | upcase }}"}))
			}
		}
		src = sb.String()
	case 4:
		src = plainText(r, 100+r.Intn(60000))
	default:
		src = strings.Repeat(pick(r, []string{"{{", "{% ", "a\n", "{{x}}\n", "}}"}), 1+r.Intn(40))
	}
	// what a careless reader would strip or normalise at the edges of a source: byte order mark, zero-width and
	// no-break spaces, line and paragraph separators, CR, NUL, a "#!" line
	if r.Intn(4) == 0 {
		src = pick(r, edgeSpecials) + src
	}
	if r.Intn(6) == 0 {
		src += pick(r, edgeSpecials)
	}
	c := J{"kind": "scan", "src": bs(src)}
	if r.Intn(3) == 0 {
		c["line0"] = r.Intn(50)
	}
	return c
}

var edgeSpecials = []string{"\ufeff", "\ufeff\ufeff", "\u200b", "\u00a0", "\u2028", "\u2029", "\r", "\r\n", "\x00", "#!liquid\n", "\ufffe", "\xef\xbb", "\xff\xfe", "\t", "\v\f"}

func init() {
	generators["passthrough"] = genPassthrough
	generators["scanbytes"] = genScanBytes
}

// C06: deep well-nested templates and their one-edit neighbours, as
// token-class sequences.
// deepNesting: one chain of blocks nested d deep, through bodies or through clauses (the inner block sits in the
// else / when branch of the outer one) - however deep, a properly nested template is accepted
func deepNesting(r *rand.Rand) []any {
	d := pick(r, []int{45, 52, 70, 101, 130, 160, 255, 256, 257, 300, 600})
	kind := r.Intn(4)
	toks := []any{}
	ends := []string{}
	for k := 0; k < d; k++ {
		switch kind {
		case 0: // bodies
			b := pick(r, []string{"if", "unless", "for", "capture", "case"})
			toks = append(toks, b)
			if b == "case" {
				toks = append(toks, "when")
			}
			ends = append(ends, "end"+b)
		case 1: // else branches
			toks = append(toks, "if", "text", "else")
			ends = append(ends, "endif")
		case 2: // when branches
			toks = append(toks, "case", "when")
			ends = append(ends, "endcase")
		default: // for ... else, unless ... else alternating
			b := []string{"for", "unless"}[k%2]
			toks = append(toks, b, "else")
			ends = append(ends, "end"+b)
		}
	}
	toks = append(toks, "obj")
	for k := len(ends) - 1; k >= 0; k-- {
		toks = append(toks, ends[k])
	}
	return toks
}

func genNesting(r *rand.Rand, i int) J {
	if i%50 == 7 {
		// (the tree is not reported for these: the JSON reader of the trace checker stops at 255 levels)
		return J{"kind": "parse", "toks": deepNesting(r), "notree": true}
	}
	blocks := []string{"if", "unless", "case", "for", "tablerow", "capture", "comment", "raw"}
	var build func(depth int) []string
	build = func(depth int) []string {
		out := []string{}
		for k, n := 0, r.Intn(4); k < n; k++ {
			switch c := r.Intn(6); {
			case c < 2 && depth > 0:
				b := pick(r, blocks)
				out = append(out, b)
				if b == "comment" || b == "raw" {
					// opaque body: anything but the own end tag
					for m := r.Intn(4); m > 0; m-- {
						out = append(out, pick(r, []string{"text", "obj", "if", "endif", "else", "tag", "for", "endcase", "when", "badobj", "badobj"}))
					}
					if b == "comment" && r.Intn(3) == 0 {
						// the end tag of a block this engine does not have (other Liquids do): inside a comment, text like the rest
						out = append(out, "otherend")
					}
				} else {
					out = append(out, build(depth-1)...)
					adm := map[string][]string{"if": {"elsif", "else"}, "unless": {"else"}, "case": {"when", "else"}, "for": {"else"}}[b]
					seenElse := false
					for m := r.Intn(3); m > 0 && len(adm) > 0 && !seenElse; m-- {
						cl := pick(r, adm)
						if cl == "else" {
							seenElse = true
						}
						out = append(out, cl)
						out = append(out, build(depth-1)...)
					}
				}
				out = append(out, "end"+b)
			case c == 2:
				out = append(out, "obj")
			case c == 3:
				out = append(out, "tag")
			default:
				if len(out) == 0 || out[len(out)-1] != "text" {
					out = append(out, "text")
				}
			}
		}
		return out
	}
	toks := build(2 + r.Intn(5))
	// one edit: delete, duplicate, replace, swap or insert
	if r.Intn(2) == 0 && len(toks) > 0 {
		all := append(append([]string{}, blocks...), "endif", "endunless", "endcase", "endfor", "endtablerow", "endcapture", "endcomment", "endraw", "else", "elsif", "when", "tag", "obj")
		p := r.Intn(len(toks))
		switch r.Intn(4) {
		case 0:
			toks = append(toks[:p], toks[p+1:]...)
		case 1:
			toks[p] = pick(r, all)
		case 2:
			toks = append(toks[:p], append([]string{pick(r, all)}, toks[p:]...)...)
		default:
			q := r.Intn(len(toks))
			toks[p], toks[q] = toks[q], toks[p]
		}
	}
	// adjacent texts would be one token
	clean := []any{}
	for k, t := range toks {
		if t == "text" && k > 0 && toks[k-1] == "text" {
			continue
		}
		clean = append(clean, t)
	}
	if len(clean) > 60 {
		clean = clean[:60]
	}
	return J{"kind": "parse", "toks": clean}
}

func init() { generators["nesting"] = genNesting }
