package main

// Runner: executes cases against the real public API of /repo and records
// observations.  A case is a JSON object with a "kind"; the observation is
// the case itself plus what was observed.

import (
	"bytes"
	"encoding/json"
	"errors"
	"fmt"
	"github.com/osteele/liquid/render"
	"hash/fnv"
	"math/rand"
	"os"
	"path/filepath"
	"reflect"
	"regexp"
	"runtime"
	"sort"
	"strings"
	"sync"

	"github.com/osteele/liquid"
)

// outcome of one API interaction
type result struct {
	Outcome  string // ok | error | panic
	Out      []byte
	Stage    string // parse | render
	ErrLine  int
	ErrPath  string
	HasCause bool
	CauseKind string // conv | filter | other: what kind of error Cause returns
	Msg      string
	IsSrcErr bool
	PanicVal string
	PanicAt  string
}

func (r *result) put(obs J) {
	obs["outcome"] = r.Outcome
	obs["out"] = bytesJSON(string(r.Out))
	if r.Outcome == "error" {
		obs["stage"] = r.Stage
		obs["errline"] = r.ErrLine
		obs["errpath"] = bytesJSON(r.ErrPath)
		obs["hascause"] = r.HasCause
		obs["causekind"] = r.CauseKind
		obs["msg"] = r.Msg
		obs["srcerr"] = r.IsSrcErr
	}
	if r.Outcome == "unstable" || r.Outcome == "repdiff" || r.Outcome == "snapdiff" || r.Outcome == "addrleak" || r.Outcome == "pipediff" {
		obs["msg"] = r.Msg
	}
	if r.Outcome == "panic" {
		obs["panic"] = r.PanicVal
		obs["panicat"] = r.PanicAt
	}
}

// goAddr: how Go prints a heap address.  Output never depends on where a value lives (C02): none may show up in it.
var goAddr = regexp.MustCompile(`0xc[0-9a-f]{9}`)

// noAddress turns a successful result whose output holds a memory address (and whose source does not) into "addrleak".
func noAddress(src string, r result) result {
	if r.Outcome == "ok" {
		if a := goAddr.Find(r.Out); a != nil && !strings.Contains(src, string(a)) {
			return result{Outcome: "addrleak", Out: r.Out, Msg: "the output holds a memory address: " + string(a)}
		}
	}
	return r
}

// guard runs f, converting a panic into a result.
func guard(f func() result) (res result) {
	defer func() {
		if r := recover(); r != nil {
			res = result{Outcome: "panic", PanicVal: truncate(fmt.Sprint(r), 600), PanicAt: topRepoFrame()}
		}
	}()
	return f()
}

func truncate(s string, n int) string {
	if len(s) > n {
		return s[:n]
	}
	return s
}

func topRepoFrame() string {
	pcs := make([]uintptr, 64)
	n := runtime.Callers(3, pcs)
	frames := runtime.CallersFrames(pcs[:n])
	for {
		fr, more := frames.Next()
		if strings.Contains(fr.File, "/repo/") || strings.Contains(fr.Function, "osteele/liquid") {
			return fmt.Sprintf("%s:%d", strings.TrimPrefix(fr.File, "/repo/"), fr.Line)
		}
		if !more {
			break
		}
	}
	return ""
}

func errResult(stage string, err liquid.SourceError, root string) result {
	r := result{Outcome: "error", Stage: stage, IsSrcErr: true}
	r.ErrLine = err.LineNumber()
	p := err.Path()
	if root != "" && strings.HasPrefix(p, root+"/") {
		p = p[len(root)+1:]
	}
	r.ErrPath = p
	r.HasCause = err.Cause() != nil
	switch fmt.Sprintf("%T", err.Cause()) {
	case "values.TypeError":
		r.CauseKind = "conv"
	case "expressions.FilterError":
		r.CauseKind = "filter"
	default:
		r.CauseKind = "other"
	}
	r.Msg = truncate(err.Error(), 400)
	return r
}

// renderSetup is everything a render case needs, realised.
type renderSetup struct {
	src       string
	bindings  map[string]any
	engine    *liquid.Engine
	path      string // absolute (under root) or ""
	line0     int
	root      string // temp dir holding the case's files, or ""
	repeat    int    // how many times the parsed template is rendered (results must agree)
	snaps     *snapRecorder
	setupErr  liquid.SourceError // registering a cached source failed
	wantFinal bool
}

// snapRecorder collects what the harness's own tag {% lqh_snap name label %} sees: the Go value bound to the name at
// that point (render.Context.Bindings).  Snaps are placed in pairs around loops: what a loop variable (or forloop)
// is bound to after the loop must be the very value it was bound to before.
type snapRecorder struct {
	mu      sync.Mutex
	off     bool // (set before the concurrent renders: their snaps would interleave)
	byLabel map[string][]any
	final   []any // the bindings at {% lqh_env %}: [name, kind, text] for every name bound to something other than nil
	hasFin  bool
}

// envTag records, once, what is bound at the point where it stands (names bound to nil count as unbound).
func (sr *snapRecorder) envTag(c render.Context) (string, error) {
	sr.mu.Lock()
	defer sr.mu.Unlock()
	if sr.off || sr.hasFin {
		return "", nil
	}
	sr.hasFin = true
	b := c.Bindings()
	names := make([]string, 0, len(b))
	for k := range b {
		names = append(names, k)
	}
	sort.Strings(names)
	for _, k := range names {
		v := b[k]
		for i := 0; i < 4; i++ { // a Drop or a pointer stands for its value
			if d, ok := v.(liquid.Drop); ok {
				v = d.ToLiquid()
			} else if rv := reflect.ValueOf(v); v != nil && rv.Kind() == reflect.Ptr && !rv.IsNil() {
				v = rv.Elem().Interface()
			} else {
				break
			}
		}
		if v == nil || strings.HasPrefix(k, "hv") && strings.HasSuffix(k, "_") {
			continue
		}
		kind, text := "other", ""
		switch x := v.(type) {
		case string:
			kind, text = "str", x
		case bool:
			kind, text = "bool", fmt.Sprint(x)
		case int:
			kind, text = "int", fmt.Sprint(x)
		}
		if rv := reflect.ValueOf(v); rv.Kind() == reflect.Ptr && rv.IsNil() {
			continue
		}
		sr.final = append(sr.final, []any{bytesJSON(k), kind, bytesJSON(text)})
	}
	return "", nil
}

func (sr *snapRecorder) tag(c render.Context) (string, error) {
	f := strings.Fields(c.TagArgs())
	sr.mu.Lock()
	defer sr.mu.Unlock()
	if len(f) == 2 && !sr.off {
		sr.byLabel[f[1]] = append(sr.byLabel[f[1]], c.Bindings()[f[0]])
	}
	return "", nil
}

// firstDiff returns a description of the first before/after pair that is not the same Go value.
func (sr *snapRecorder) firstDiff() string {
	labels := make([]string, 0, len(sr.byLabel))
	for l := range sr.byLabel {
		labels = append(labels, l)
	}
	sort.Strings(labels)
	for _, l := range labels {
		vs := sr.byLabel[l]
		for i := 0; i+1 < len(vs); i += 2 {
			if !sameGo(vs[i], vs[i+1]) {
				return fmt.Sprintf("%s: before the loop %T(%v), after it %T(%v)", l, vs[i], vs[i], vs[i+1], vs[i+1])
			}
		}
	}
	return ""
}

func sameGo(a, b any) (same bool) {
	if a == nil || b == nil {
		return a == nil && b == nil
	}
	ta := reflect.TypeOf(a)
	if ta != reflect.TypeOf(b) {
		return false
	}
	va, vb := reflect.ValueOf(a), reflect.ValueOf(b)
	switch ta.Kind() {
	case reflect.Map, reflect.Ptr, reflect.Func, reflect.Chan, reflect.UnsafePointer:
		return va.Pointer() == vb.Pointer()
	case reflect.Slice:
		return va.Pointer() == vb.Pointer() && va.Len() == vb.Len()
	}
	defer func() {
		if recover() != nil {
			same = reflect.DeepEqual(a, b)
		}
	}()
	return a == b
}

// insertSnaps puts a pair of snap tags (for the loop variable and for forloop) around every for / tablerow node that
// has no trim marker next to it and no else branch.
func insertSnaps(nodes []any, counter *int) []any {
	out := []any{}
	for i, x := range nodes {
		n := jobj(x)
		if n == nil {
			out = append(out, x)
			continue
		}
		m := J{}
		for k, v := range n {
			m[k] = v
		}
		for _, f := range []string{"body", "else"} {
			if b, ok := m[f].([]any); ok {
				m[f] = insertSnaps(b, counter)
			}
		}
		for _, f := range []string{"branches", "whens"} {
			if bs, ok := m[f].([]any); ok {
				nb := make([]any, len(bs))
				for j, b := range bs {
					bm := J{}
					for k, v := range jobj(b) {
						bm[k] = v
					}
					if body, ok := bm["body"].([]any); ok {
						bm["body"] = insertSnaps(body, counter)
					}
					nb[j] = bm
				}
				m[f] = nb
			}
		}
		trimNext := func(j int) bool {
			if j < 0 || j >= len(nodes) {
				return false
			}
			t := jstr(jobj(nodes[j]), "t")
			return t == "trimL" || t == "trimR"
		}
		// (not with an else branch: what it assigns is assigned outside any iteration and stays)
		_, hasElse := m["else"]
		if jstr(m, "t") == "for" && !hasElse && !trimNext(i-1) && !trimNext(i+1) {
			*counter++
			v := bytesOf(m["var"])
			s1 := J{"t": "snap", "name": bs(v), "label": fmt.Sprintf("L%d.%s", *counter, v)}
			s2 := J{"t": "snap", "name": bs("forloop"), "label": fmt.Sprintf("L%d.forloop", *counter)}
			out = append(out, s1, s2, m, s1, s2)
			continue
		}
		out = append(out, m)
	}
	return out
}

func (rs *renderSetup) cleanup() {
	if rs.root != "" {
		os.RemoveAll(rs.root)
	}
}

// prepareRender prints the program, realises the environment, writes the
// files and configures an engine.
func prepareRender(c J) (*renderSetup, error) {
	sp := spellFromJSON(c["spell"])
	pr := newPrinter(sp)
	prog := jarr(c, "prog")
	// (only in programs without whitespace control: a tag between a hyphen and the text it faces is not transparent)
	if jbool(c, "snaploops") && !strings.Contains(fmt.Sprint(prog), "t:trim") {
		counter := 0
		prog = insertSnaps(prog, &counter)
	}
	src, err := pr.Template(prog)
	if err != nil {
		return nil, err
	}
	wantFinal := jbool(c, "finalenv") && c["prog"] != nil && !strings.Contains(fmt.Sprint(prog), "t:trim")
	if wantFinal {
		// the harness's own tag at the very end: what is bound when the render is over
		src += pr.tag(false, "lqh_env", false)
	}
	if raw, ok := c["src"]; ok && c["prog"] == nil {
		src = bytesOf(raw)
	}
	repr := reprFromJSON(c["repr"])
	env, err := realiseEnv(jarr(c, "env"), repr)
	if err != nil {
		return nil, err
	}
	if env == nil && (jbool(c, "weird") || jbool(c, "testenv")) {
		env = map[string]any{}
	}
	if jbool(c, "bigenv") {
		env = bigEnv()
	}
	if jbool(c, "weird") {
		for k, v := range weirdEnv() {
			if _, ok := env[k]; !ok {
				env[k] = v
			}
		}
	}
	if jbool(c, "testenv") {
		for k, v := range repoTestEnv() {
			if _, ok := env[k]; !ok {
				env[k] = v
			}
		}
	}
	rs := &renderSetup{bindings: env, line0: jint(c, "line0"), repeat: jint(c, "repeat")}
	files, cache := jarr(c, "files"), jarr(c, "cache")
	path := bytesOf(c["path"])
	if len(files) > 0 || len(cache) > 0 || jbool(c, "usedir") {
		root, err := os.MkdirTemp("", "lqh")
		if err != nil {
			return nil, err
		}
		rs.root = root
	}
	if path != "" {
		switch {
		case rs.root != "" && jbool(c, "rawpath"):
			rs.path = rs.root + "/" + path // exactly as spelled (./x, a//b): the path is reported as it was given
		case rs.root != "":
			rs.path = filepath.Join(rs.root, path)
		default:
			rs.path = path
		}
	}
	eng := liquid.NewEngine()
	rs.snaps = &snapRecorder{byLabel: map[string][]any{}}
	eng.RegisterTag("lqh_snap", rs.snaps.tag)
	eng.RegisterTag("lqh_env", rs.snaps.envTag)
	rs.wantFinal = wantFinal
	registerExt(eng)
	if jbool(c, "strict") {
		eng.StrictVariables()
	}
	if pre := jarr(c, "predelims"); len(pre) == 4 {
		// an earlier configuration of the same engine
		eng.Delims(bytesOf(pre[0]), bytesOf(pre[1]), bytesOf(pre[2]), bytesOf(pre[3]))
	}
	if sp.Raw != nil {
		eng.Delims(sp.Raw[0], sp.Raw[1], sp.Raw[2], sp.Raw[3])
	}
	for _, fx := range files {
		fa, _ := fx.([]any)
		if len(fa) < 2 {
			return nil, fmt.Errorf("bad file entry")
		}
		content, err := pr.fileSource(fa)
		if err != nil {
			return nil, err
		}
		full := filepath.Join(rs.root, bytesOf(fa[0]))
		if err := os.MkdirAll(filepath.Dir(full), 0o755); err != nil {
			return nil, err
		}
		if err := os.WriteFile(full, []byte(content), 0o644); err != nil {
			return nil, err
		}
	}
	for _, fx := range cache {
		fa, _ := fx.([]any)
		if len(fa) < 2 {
			return nil, fmt.Errorf("bad cache entry")
		}
		content, err := pr.fileSource(fa)
		if err != nil {
			return nil, err
		}
		full := filepath.Join(rs.root, bytesOf(fa[0]))
		if len(fa) == 3 {
			// an unparseable cached source cannot be registered through the API
			return nil, fmt.Errorf("cache entries must parse")
		}
		cbuf := []byte(content)
		_, serr := eng.ParseTemplateAndCache(cbuf, full, 1)
		scribble(cbuf)
		if serr != nil {
			// (a registered source that the specification takes for well-formed does not parse: that is a result,
			// not a case that cannot be run)
			if rs.setupErr == nil {
				rs.setupErr = serr
			}
		}
	}
	// hoisted literals become bindings
	for name, v := range pr.hoisted {
		gv, err := realise(jobj(v), repr, name)
		if err != nil {
			return nil, err
		}
		if rs.bindings == nil {
			rs.bindings = map[string]any{}
		}
		rs.bindings[name] = gv
	}
	rs.src = src
	rs.engine = eng
	return rs, nil
}

// fileSource prints the content of a file entry [path, nodes] or
// [path, nodes, "bad"] (a file that must not parse).
func (p *printer) fileSource(fa []any) (string, error) {
	nodes, _ := fa[1].([]any)
	s, err := p.Template(nodes)
	if err != nil {
		return "", err
	}
	if len(fa) == 3 {
		s += p.sp.Delims[2] + " if " + p.sp.Delims[3]
	}
	return s, nil
}

// The source passed to a parse call belongs to the caller, who may reuse the buffer as soon as the call has
// returned (a reader's buffer, say): every parse in the harness goes through a buffer that is overwritten afterwards.
func scribble(buf []byte) {
	for i := range buf {
		buf[i] = '#'
	}
}

func parseScribbled(eng *liquid.Engine, src, path string, line int) (*liquid.Template, liquid.SourceError) {
	buf := []byte(src)
	var tpl *liquid.Template
	var err liquid.SourceError
	if path == "" && line == 0 {
		tpl, err = eng.ParseTemplate(buf)
	} else {
		tpl, err = eng.ParseTemplateLocation(buf, path, line)
	}
	scribble(buf)
	return tpl, err
}

var errWriter = errors.New("harness: injected writer failure")

func doRender(rs *renderSetup, entry string) result {
	return guard(func() result {
		eng := rs.engine
		switch entry {
		case "", "Render":
			tpl, err := parseScribbled(eng, rs.src, rs.path, rs.line0)
			if err != nil {
				return errResult("parse", err, rs.root)
			}
			render := func() result {
				out, err := tpl.Render(rs.bindings)
				if err != nil {
					if out != nil {
						return result{Outcome: "error", Stage: "render-with-output", Msg: "output returned together with an error"}
					}
					return errResult("render", err, rs.root)
				}
				return result{Outcome: "ok", Out: out}
			}
			first := render()
			// the same parsed template rendered again with the same bindings must give the same result
			for i := 1; i < rs.repeat; i++ {
				again := render()
				if again.Outcome != first.Outcome || !bytes.Equal(again.Out, first.Out) {
					return result{Outcome: "unstable", Out: again.Out, Msg: fmt.Sprintf("render %d of the same template and bindings differs from the first: %q vs %q", i+1, truncate(string(again.Out), 120), truncate(string(first.Out), 120))}
				}
			}
			// ... and so must renders of it that run at the same time, sharing the bindings (what C04 promises; a
			// compiled node that keeps per-render state shows up here as text from another render)
			if rs.repeat > 1 {
				rs.snaps.mu.Lock()
				rs.snaps.off = true
				rs.snaps.mu.Unlock()
				const workers, rounds = 6, 3
				start := make(chan struct{})
				diffs := make(chan result, workers)
				var wg sync.WaitGroup
				for w := 0; w < workers; w++ {
					wg.Add(1)
					go func() {
						defer wg.Done()
						<-start
						for k := 0; k < rounds; k++ {
							again := guard(render)
							if again.Outcome != first.Outcome || !bytes.Equal(again.Out, first.Out) {
								diffs <- again
								return
							}
						}
					}()
				}
				close(start)
				wg.Wait()
				select {
				case again := <-diffs:
					return result{Outcome: "unstable", Out: again.Out, Msg: fmt.Sprintf("a render of the same template and bindings running concurrently with others differs from the render alone: %s %q vs %q", again.Outcome, truncate(string(again.Out), 120), truncate(string(first.Out), 120))}
				default:
				}
			}
			return first
		case "CacheRender":
			// through ParseTemplateAndCache: the same location rules as ParseTemplateLocation
			buf := []byte(rs.src)
			tpl, err := eng.ParseTemplateAndCache(buf, rs.path, rs.line0)
			scribble(buf)
			if err != nil {
				return errResult("parse", err, rs.root)
			}
			out, err := tpl.Render(rs.bindings)
			if err != nil {
				return errResult("render", err, rs.root)
			}
			return result{Outcome: "ok", Out: out}
		case "RenderString":
			tpl, err := parseScribbled(eng, rs.src, rs.path, rs.line0)
			if err != nil {
				return errResult("parse", err, rs.root)
			}
			out, err := tpl.RenderString(rs.bindings)
			if err != nil {
				return errResult("render", err, rs.root)
			}
			return result{Outcome: "ok", Out: []byte(out)}
		case "FRender":
			tpl, err := parseScribbled(eng, rs.src, rs.path, rs.line0)
			if err != nil {
				return errResult("parse", err, rs.root)
			}
			var buf bytes.Buffer
			if err := tpl.FRender(&buf, rs.bindings); err != nil {
				return errResult("render", err, rs.root)
			}
			return result{Outcome: "ok", Out: buf.Bytes()}
		case "ParseAndRender":
			out, err := eng.ParseAndRender([]byte(rs.src), rs.bindings)
			if err != nil {
				return errResult("render", err, rs.root)
			}
			return result{Outcome: "ok", Out: out}
		case "ParseAndRenderString":
			out, err := eng.ParseAndRenderString(rs.src, rs.bindings)
			if err != nil {
				return errResult("render", err, rs.root)
			}
			return result{Outcome: "ok", Out: []byte(out)}
		case "ParseAndFRender":
			var buf bytes.Buffer
			if err := eng.ParseAndFRender(&buf, []byte(rs.src), rs.bindings); err != nil {
				return errResult("render", err, rs.root)
			}
			return result{Outcome: "ok", Out: buf.Bytes()}
		}
		return result{Outcome: "error", Stage: "harness", Msg: "unknown entry " + entry}
	})
}

// runRender handles kind "render".
func runRender(c J) J {
	obs := cloneCase(c)
	rs, err := prepareRender(c)
	if err != nil {
		obs["outcome"] = "skip"
		obs["msg"] = err.Error()
		return obs
	}
	defer rs.cleanup()
	obs["src"] = bytesJSON(rs.src)
	obs["text"] = rs.src
	res := doRender(rs, jstr(c, "entry"))
	if rs.setupErr != nil {
		res = errResult("parse", rs.setupErr, rs.root)
	}
	// a second program that must render exactly as the first (a pipeline and its steps taken one at a time)
	if p2 := jarr(c, "prog2"); len(p2) > 0 {
		c2 := cloneCase(c)
		c2["prog"] = p2
		delete(c2, "prog2")
		delete(c2, "finalenv")
		if rs2, err := prepareRender(c2); err == nil {
			res2 := doRender(rs2, jstr(c, "entry"))
			rs2.cleanup()
			if res2.Outcome != res.Outcome || !bytes.Equal(res2.Out, res.Out) {
				res = result{Outcome: "pipediff", Out: res.Out, Msg: fmt.Sprintf("%q renders %s %q, but %q renders %s %q", rs.src, res.Outcome, truncate(string(res.Out), 80), rs2.src, res2.Outcome, truncate(string(res2.Out), 80))}
			}
		}
	}
	if !jbool(c, "weird") && !jbool(c, "testenv") {
		// (bindings built from the value universe of the specification: Go structs with pointer fields, which the
		// fuzzing environments hold, print their fields the way Go does)
		res = noAddress(rs.src, res)
	}
	if rs.wantFinal && rs.snaps.hasFin && res.Outcome == "ok" {
		if rs.snaps.final == nil {
			rs.snaps.final = []any{}
		}
		obs["finalbinds"] = rs.snaps.final
	}
	if d := rs.snaps.firstDiff(); d != "" && res.Outcome == "ok" {
		res = result{Outcome: "snapdiff", Out: res.Out, Msg: d}
	}
	res.put(obs)
	// the same source and path parsed again on the same engine, 17 lines further down: the location follows
	if jbool(c, "reline") && res.Outcome == "error" {
		rs.line0 += 17
		res2 := doRender(rs, jstr(c, "entry"))
		rs.line0 -= 17
		if res2.Outcome == "error" {
			obs["errline2"] = res2.ErrLine
		} else {
			obs["errline2"] = -99
		}
	}
	if m, ok := c["mention"].(string); ok && res.Outcome == "error" {
		obs["msgok"] = len(res.Msg) > 0 && strings.Contains(res.Msg, m)
	}
	// the same logical bindings in other Go representations (C18): the result must be the same
	if k := jint(c, "altreprs"); k > 0 && (res.Outcome == "ok" || res.Outcome == "error") {
		h := fnv.New64a()
		h.Write([]byte(fmt.Sprint(c["id"])))
		rnd := rand.New(rand.NewSource(int64(h.Sum64())))
		// the yardstick is the generic representation (the case's own may use representations C18 does not speak of)
		base := res
		if _, own := c["repr"]; own {
			c1 := cloneCase(c)
			delete(c1, "repr")
			if rs1, err := prepareRender(c1); err == nil {
				base = doRender(rs1, jstr(c, "entry"))
				rs1.cleanup()
			}
		}
		differs := func(r2 result) bool {
			return r2.Outcome != base.Outcome || (base.Outcome == "ok" && !bytes.Equal(base.Out, r2.Out))
		}
		// (the case's own representation is compared too when it stays within what C18 speaks of)
		if jbool(c, "cmpown") && differs(res) {
			rj, _ := json.Marshal(c["repr"])
			obs["outcome"] = "repdiff"
			obs["msg"] = fmt.Sprintf("with the representation %s the result is %s %q, with the generic one it is %s %q", rj, res.Outcome,
				truncate(string(res.Out)+res.Msg, 160), base.Outcome, truncate(string(base.Out)+base.Msg, 160))
			k = 0
		}
		for i := 0; i < k; i++ {
			c2 := cloneCase(c)
			rep := autoRepr(jarr(c, "env"), rnd)
			c2["repr"] = rep
			rs2, err := prepareRender(c2)
			if err != nil {
				continue
			}
			res2 := doRender(rs2, jstr(c, "entry"))
			rs2.cleanup()
			if differs(res2) {
				rj, _ := json.Marshal(rep)
				obs["outcome"] = "repdiff"
				obs["msg"] = fmt.Sprintf("with the representation %s the result is %s %q, with the generic one it is %s %q", rj, res2.Outcome,
					truncate(string(res2.Out)+res2.Msg, 160), base.Outcome, truncate(string(base.Out)+base.Msg, 160))
				break
			}
		}
	}
	// "then": the files under the template's directory change (edited, removed, created) and the same source is
	// parsed and rendered again on the same engine: what is included is what is there now
	if then := jobj(c["then"]); then != nil && rs.root != "" {
		pr := newPrinter(spellFromJSON(c["spell"]))
		ok := true
		if _, has := then["files"]; has {
			for _, fx := range jarr(c, "files") {
				if fa, _ := fx.([]any); len(fa) >= 2 {
					os.Remove(filepath.Join(rs.root, bytesOf(fa[0])))
				}
			}
			for _, fx := range jarr(then, "files") {
				fa, _ := fx.([]any)
				if len(fa) < 2 {
					continue
				}
				content, err := pr.fileSource(fa)
				full := filepath.Join(rs.root, bytesOf(fa[0]))
				if err != nil || os.MkdirAll(filepath.Dir(full), 0o755) != nil || os.WriteFile(full, []byte(content), 0o644) != nil {
					ok = false
				}
			}
		}
		// (or the same source is a template somewhere else: another path, the same engine)
		if p2, has := then["path"]; has {
			rs.path = filepath.Join(rs.root, bytesOf(p2))
		}
		if ok {
			obs2 := cloneCase(c)
			delete(obs2, "then")
			obs2["id"] = then["id"]
			if _, has := then["files"]; has {
				obs2["files"] = then["files"]
			}
			if p2, has := then["path"]; has {
				obs2["path"] = p2
			}
			obs2["src"] = bytesJSON(rs.src)
			obs2["text"] = rs.src
			res2 := doRender(rs, jstr(c, "entry"))
			res2.put(obs2)
			obs["extra"] = []any{obs2}
		}
	}
	// a second program to be rendered in the same setting (C13: the hyphen-free twin)
	if _, ok := c["prog0"]; ok {
		c0 := cloneCase(c)
		c0["prog"] = c["prog0"]
		rs0, err := prepareRender(c0)
		if err != nil {
			obs["outcome"] = "skip"
			obs["msg"] = "prog0: " + err.Error()
			return obs
		}
		defer rs0.cleanup()
		res0 := doRender(rs0, jstr(c, "entry"))
		obs["outcome0"] = res0.Outcome
		obs["out0"] = bytesJSON(string(res0.Out))
		obs["text0"] = rs0.src
	}
	return obs
}

func cloneCase(c J) J {
	obs := J{}
	for k, v := range c {
		obs[k] = v
	}
	return obs
}

// repoTestEnv resembles the bindings the repository's own tests render their templates with.
func repoTestEnv() map[string]any {
	return map[string]any{
		"x": 123, "a": []any{"first", "second", "third"}, "array": []any{"first", "second", "third"}, "ar": []string{"first", "second", "third"},
		"obj": map[string]any{"a": 1, "b": "c"}, "hash": map[string]any{"a": "first", "b": map[string]any{"c": "d"}, "c": []string{"r", "g", "b"}},
		"animals": []string{"zebra", "octopus", "giraffe", "Sally Snake"}, "page": map[string]any{"title": "Introduction", "keys": []string{"a"}},
		"pages":                []any{map[string]any{"category": "business", "name": "page 1"}, map[string]any{"name": "page 3"}, map[string]any{"category": "technology", "name": "page 2"}},
		"products":             []any{map[string]any{"title": "Vacuum", "type": "cleaning"}, map[string]any{"title": "Spatula", "type": "kitchen"}},
		"sort_prop":            []any{map[string]any{"weight": 1}, map[string]any{"weight": 5}, map[string]any{"weight": nil}, map[string]any{"weight": 3}},
		"string_with_newlines": "\nHello\nthere\n", "fruits": []string{"apples", "oranges", "peaches", "plums"}, "empty_list": []any{}, "empty_array": []any{},
		"article": map[string]any{"published_at": "2015-07-17T15:04:05Z"}, "dup_ints": []int{1, 2, 1, 3}, "mixed_case_array": []string{"c", "a", "B"},
		"safe": "a", "v": "v", "ints": []int{2, 1, 3}, "map": map[string]any{"a": 1}, "site": map[string]any{"pages": []any{}}, "title": "t",
	}
}
