package main

// C05/C19: the tokenizer observed through parser.Scan, plus the render of
// the same source.

import (
	"github.com/osteele/liquid"
	"github.com/osteele/liquid/parser"
)

func tokType(t parser.TokenType) string {
	switch t {
	case parser.TextTokenType:
		return "text"
	case parser.TagTokenType:
		return "tag"
	case parser.ObjTokenType:
		return "obj"
	case parser.TrimLeftTokenType:
		return "trimL"
	case parser.TrimRightTokenType:
		return "trimR"
	}
	return "?"
}

func runScan(c J) J {
	obs := cloneCase(c)
	src := bytesOf(c["src"])
	obs["text"] = src
	line0 := jint(c, "line0")
	var delims []string
	if d := jarr(c, "delims"); len(d) == 4 {
		delims = []string{bytesOf(d[0]), bytesOf(d[1]), bytesOf(d[2]), bytesOf(d[3])}
	}
	var toks []parser.Token
	res := guard(func() result {
		toks = parser.Scan(src, parser.SourceLoc{LineNo: line0}, delims)
		return result{Outcome: "ok"}
	})
	obs["scan"] = res.Outcome
	if res.Outcome == "panic" {
		obs["panic"] = res.PanicVal
		obs["panicat"] = res.PanicAt
	}
	tj := []any{}
	for _, t := range toks {
		tj = append(tj, J{"ty": tokType(t.Type), "src": bytesJSON(t.Source), "line": t.SourceLoc.LineNo})
	}
	obs["toks"] = tj
	r2 := guard(func() result {
		eng := liquid.NewEngine()
		if delims != nil {
			eng.Delims(delims[0], delims[1], delims[2], delims[3])
		}
		bind := map[string]any{}
		if jbool(c, "env1") {
			bind = map[string]any{"a": []any{1, 2, 3}, "v": "v", "n": 1}
		}
		out, err := eng.ParseAndRender([]byte(src), bind)
		if err != nil {
			return errResult("render", err, "")
		}
		return result{Outcome: "ok", Out: out}
	})
	r2.put(obs)
	return obs
}

func init() { kinds["scan"] = runScan }
