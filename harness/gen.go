package main

// Seeded drivers: inputs beyond the exhaustive bounds of the TLC
// configurations.  Drivers only produce cases; they never decide.

import (
	"encoding/json"
	"flag"
	"fmt"
	"math/rand"
	"os"
)

var generators = map[string]func(r *rand.Rand, i int) J{}

func cmdGen(args []string) int {
	fs := flag.NewFlagSet("gen", flag.ExitOnError)
	kind := fs.String("kind", "", "generator")
	seed := fs.Int64("seed", 1, "seed")
	n := fs.Int("n", 100, "number of cases")
	out := fs.String("out", "", "cases (ndjson)")
	fs.Parse(args)
	g, ok := generators[*kind]
	if !ok {
		fmt.Fprintln(os.Stderr, "lqh gen: unknown kind", *kind)
		return 2
	}
	f, err := os.Create(*out)
	if err != nil {
		fmt.Fprintln(os.Stderr, "lqh:", err)
		return 2
	}
	defer f.Close()
	r := rand.New(rand.NewSource(*seed))
	for i := 0; i < *n; i++ {
		c := g(r, i)
		if c == nil {
			continue
		}
		if _, ok := c["id"]; !ok {
			c["id"] = fmt.Sprintf("%s-%d-%d", *kind, *seed, i)
		}
		b, _ := json.Marshal(c)
		f.Write(append(b, '\n'))
	}
	return 0
}
