package main

// lqh — conformance harness binding the TLA+ specification in /verif/spec to
// the implementation in /repo (see /verif/DESIGN.md §4).
//
//	lqh run  -in cases.ndjson -out obs.ndjson [-workers N] [-deadline SEC]
//	lqh gen  -kind K -seed S -n N -out cases.ndjson
//	lqh show -in cases.ndjson      print the template text of each case

import (
	"bufio"
	"encoding/json"
	"flag"
	"fmt"
	"os"
	"sync"
	"time"
)

func readCases(path string) ([]J, error) {
	f, err := os.Open(path)
	if err != nil {
		return nil, err
	}
	defer f.Close()
	var cases []J
	sc := bufio.NewScanner(f)
	sc.Buffer(make([]byte, 1<<20), 1<<28)
	for sc.Scan() {
		line := sc.Bytes()
		if len(line) == 0 {
			continue
		}
		var c J
		if err := json.Unmarshal(line, &c); err != nil {
			return nil, fmt.Errorf("bad case line: %v", err)
		}
		cases = append(cases, c)
	}
	return cases, sc.Err()
}

func runCase(c J) J {
	switch jstr(c, "kind") {
	case "render", "":
		return runRender(c)
	}
	if f, ok := kinds[jstr(c, "kind")]; ok {
		return f(c)
	}
	obs := cloneCase(c)
	obs["outcome"] = "skip"
	obs["msg"] = "unknown kind"
	return obs
}

// kinds registers the property-specific case kinds.
var kinds = map[string]func(J) J{}

func cmdRun(args []string) int {
	fs := flag.NewFlagSet("run", flag.ExitOnError)
	in := fs.String("in", "", "cases (ndjson)")
	out := fs.String("out", "", "observations (ndjson)")
	workers := fs.Int("workers", 8, "parallel workers")
	deadline := fs.Float64("deadline", 20, "per-case deadline in seconds")
	fs.Parse(args)
	cases, err := readCases(*in)
	if err != nil {
		fmt.Fprintln(os.Stderr, "lqh:", err)
		return 2
	}
	of, err := os.OpenFile(*out, os.O_CREATE|os.O_WRONLY|os.O_APPEND, 0o644)
	if err != nil {
		fmt.Fprintln(os.Stderr, "lqh:", err)
		return 2
	}
	defer of.Close()
	var mu sync.Mutex
	var write func(obs J)
	write = func(obs J) {
		// a case may observe more than one step (the second render of a "then" case): one record each
		if extra, ok := obs["extra"].([]any); ok {
			delete(obs, "extra")
			defer func() {
				for _, e := range extra {
					write(e.(J))
				}
			}()
		}
		b, err := json.Marshal(obs)
		if err != nil {
			b, _ = json.Marshal(J{"id": obs["id"], "outcome": "skip", "msg": "unencodable observation: " + err.Error()})
		}
		mu.Lock()
		of.Write(append(b, '\n'))
		mu.Unlock()
	}
	jobs := make(chan J)
	var wg sync.WaitGroup
	for w := 0; w < *workers; w++ {
		wg.Add(1)
		go func() {
			defer wg.Done()
			for c := range jobs {
				done := make(chan J, 1)
				go func() { done <- runCase(c) }()
				select {
				case obs := <-done:
					write(obs)
				case <-time.After(time.Duration(*deadline * float64(time.Second))):
					obs := cloneCase(c)
					obs["outcome"] = "timeout"
					write(obs)
					of.Sync()
					// a runaway goroutine cannot be stopped: leave, the driver resumes after this case
					os.Exit(3)
				}
			}
		}()
	}
	for _, c := range cases {
		jobs <- c
	}
	close(jobs)
	wg.Wait()
	return 0
}

func cmdShow(args []string) int {
	fs := flag.NewFlagSet("show", flag.ExitOnError)
	in := fs.String("in", "", "cases (ndjson)")
	fs.Parse(args)
	cases, err := readCases(*in)
	if err != nil {
		fmt.Fprintln(os.Stderr, "lqh:", err)
		return 2
	}
	for _, c := range cases {
		pr := newPrinter(spellFromJSON(c["spell"]))
		s, err := pr.Template(jarr(c, "prog"))
		fmt.Printf("%v\t%q\t%v\n", c["id"], s, err)
	}
	return 0
}

func main() {
	if len(os.Args) < 2 {
		fmt.Fprintln(os.Stderr, "usage: lqh run|gen|show ...")
		os.Exit(2)
	}
	switch os.Args[1] {
	case "run":
		os.Exit(cmdRun(os.Args[2:]))
	case "show":
		os.Exit(cmdShow(os.Args[2:]))
	case "gen":
		os.Exit(cmdGen(os.Args[2:]))
	}
	fmt.Fprintln(os.Stderr, "unknown command", os.Args[1])
	os.Exit(2)
}
