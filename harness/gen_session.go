package main

// Seeded sessions for C02 / C03 / C04: pools of templates and binding
// environments and a history of renders over them.

import (
	"fmt"
	"math/rand"
	"sort"
	"strings"
)

var entries = []string{"Render", "RenderString", "FRender", "ParseAndRender", "ParseAndRenderString", "ParseAndFRender"}

// templates that are tempting to implement by mutating their input
func mutatorTemplates() [][]any {
	a := eVar("a")
	return [][]any{
		{J{"t": "assign", "name": bs("a"), "e": eFilter(a, "sort")}, nObj(eFilter(eVar("a"), "join", eLit(vStr(","))))},
		{nObj(eFilter(eFilter(a, "reverse"), "join")), nText("|"), nObj(eFilter(a, "join"))},
		{nObj(eFilter(eFilter(a, "uniq"), "size")), nObj(eFilter(eFilter(a, "compact"), "size")), nObj(eFilter(eFilter(a, "concat", eVar("b")), "size"))},
		{J{"t": "for", "tag": "for", "var": bs("x"), "coll": a, "body": []any{J{"t": "cycle", "group": bs("g1"), "vals": []any{bs("p"), bs("q")}}, J{"t": "assign", "name": bs("n"), "e": eVar("x")}}},
			nObj(eVar("n")), nObj(eVar("x"))},
		{J{"t": "capture", "name": bs("s"), "body": []any{nObj(eVar("s")), nText("+")}}, nObj(eVar("s"))},
		{nText("x"), nObj(eFilter(eLit(vInt(1)), "divided_by", eLit(vInt(0)))), nText("y")},
		{nObj(eFilter(eFilter(eVar("b"), "sort"), "first")), nObj(eFilter(eVar("b"), "first")), nObj(eFilter(eFilter(eVar("b"), "map", eLit(vStr("k"))), "join"))},
		{J{"t": "assign", "name": bs("h"), "e": eLit(vInt(1))}, nObj(eVar("h")), nObj(eProp(eVar("g"), "k"))},
		// a loop that keeps cycle state and may fail part-way (a zero among the elements)
		{J{"t": "for", "tag": "for", "var": bs("x"), "coll": eVar("q"), "body": []any{J{"t": "cycle", "group": bs("g2"), "vals": []any{bs("p"), bs("q"), bs("r")}},
			nObj(eFilter(eLit(vInt(60)), "divided_by", eVar("x"))), nText(";")}}},
		{J{"t": "for", "tag": "tablerow", "var": bs("x"), "coll": eVar("q"), "cols": eLit(vInt(2)), "body": []any{J{"t": "cycle", "group": bs("g1"), "vals": []any{bs("p"), bs("q")}}}}},
		// a template that ends in a right-trim marker, and templates whose output starts with white space
		{nText("end"), nObj(eVar("s")), J{"t": "trimR"}},
		{J{"t": "assign", "name": bs("w"), "e": eLit(vInt(1))}, J{"t": "trimR"}},
		{nText("  \n\tstart"), nObj(eVar("s"))},
		{nObj(eLit(vStr("  lead"))), nText(" x")},
	}
}

func mapLoop(name string) []any {
	return []any{J{"t": "for", "tag": "for", "var": bs("p"), "coll": eVar(name),
		"body": []any{nObj(eIdx(eVar("p"), eLit(vInt(0)))), nText("="), nObj(eIdx(eVar("p"), eLit(vInt(1)))), nText(";")}}}
}

// illFormedTemplates: sources that cannot parse (each kind of MC_C06 / MC_C07, at top level and inside blocks);
// parsing them again, on any engine, from any goroutine, reports the same error.
func illFormedTemplates() [][]any {
	out := [][]any{}
	for _, k := range []string{"badobj", "badtag", "unknowntag", "strayend", "strayclause", "badif", "openif", "openraw", "opencomment"} {
		out = append(out, []any{nText("a"), nObj(eVar("n")), J{"t": k}, nText("z")})
	}
	inFor := func(n J) []any {
		return []any{J{"t": "for", "tag": "for", "var": bs("x"), "coll": eVar("a"), "body": []any{nObj(eVar("x")), n}}, nText("z")}
	}
	inIf := func(n J) []any {
		return []any{nText("a\n"), J{"t": "if", "branches": []any{J{"c": eVar("n"), "body": []any{nText("b\n"), n}}, J{"c": J{"t": "else"}, "body": []any{nText("c")}}}}}
	}
	for _, k := range []string{"strayclause", "strayend", "unknowntag", "badobj"} {
		out = append(out, inFor(J{"t": k}), inIf(J{"t": k}))
	}
	out = append(out, []any{nText("a"), J{"t": "strayelse"}, nText("z")},
		[]any{J{"t": "capture", "name": bs("cap"), "body": []any{nText("b"), J{"t": "strayelse"}}}})
	return out
}

func genSession(r *rand.Rand, i int) J {
	g := &pgen{r: r, budget: 0, rich: true, trims: r.Intn(2) == 0}
	nenv := 2 + r.Intn(2)
	envs := []any{}
	reprs := []any{}
	for j := 0; j < nenv; j++ {
		e, rp := g.richEnv()
		delete(rp, "g") // (an ordered map is not equal to itself: keep g a plain map in histories)
		reprs = append(reprs, rp)
		// q: integers, in every other environment with a zero after a few elements (a render that fails inside a loop)
		q := []any{vInt(1), vInt(2), vInt(3), vInt(4), vInt(5)}[:3+r.Intn(3)]
		if j%2 == 1 {
			q[1+r.Intn(len(q)-1)] = vInt(0)
		}
		if len(e) > 0 { // (no bindings at all stays that way: the caller passes nil)
			e = append(e, []any{bs("q"), vArr(q...)})
		}
		envs = append(envs, e)
	}
	templates := []any{}
	muts := mutatorTemplates()
	for k := 0; k < 2+r.Intn(3); k++ {
		templates = append(templates, muts[r.Intn(len(muts))])
	}
	for k := 0; k < 2+r.Intn(3); k++ {
		g.budget = 10 + r.Intn(15)
		templates = append(templates, g.seq(3, 5))
	}
	// near twins of the session's own templates (white space / letter case inside literals and texts changed): parsed
	// and rendered on the same engine, each must give its own result
	for _, t := range append([]any{}, templates...) {
		if r.Intn(2) == 0 {
			if tw := nearTwin(J{"prog": t}, r); tw != nil {
				if _, err := newPrinter(spellFromJSON(nil)).Template(jarr(tw, "prog")); err == nil {
					templates = append(templates, tw["prog"])
				}
			}
		}
	}
	// in some sessions every environment binds the same record u, here as a Go struct value and there as a pointer to
	// one (the type has a method on the pointer only): what u answers is a matter of each render's own bindings,
	// whatever the engine has seen before.  (Structs are outside the reference's universe: judged on determinism,
	// independence and immutability.)
	withAcct := i%7 == 3
	acctAt := 0
	if withAcct {
		acctAt = len(templates)
		for j := range envs {
			e := envs[j].([]any)
			e = append(e, []any{bs("u"), vMap("n", vInt(3), "name", vStr("ann"))})
			envs[j] = e
			rp := reprs[j].(J)
			rp["u"] = []string{"acct", "acctptr"}[j%2]
		}
		templates = append(templates,
			[]any{nObj(eProp(eVar("u"), "Total")), nText("|"), nObj(eProp(eVar("u"), "Label")), nText("|"), nObj(eProp(eVar("u"), "name")), nText("|"), nObj(eProp(eVar("u"), "Name")), nText("|"), nObj(eProp(eVar("u"), "nosuch"))},
			[]any{J{"t": "if", "branches": []any{J{"c": eProp(eVar("u"), "Total"), "body": []any{nText("has total")}}, J{"c": J{"t": "else"}, "body": []any{nText("none")}}}}, nObj(eFilter(eProp(eVar("u"), "n"), "plus", eLit(vInt(1))))})
	}
	// loop modifiers given by a variable that differs between the environments (positive here, zero or negative there):
	// each render of the one parsed template goes by its own bindings
	for j := range envs {
		if e := envs[j].([]any); len(e) > 0 {
			envs[j] = append(e, []any{bs("k"), vInt([]int{2, 0, -1, 3}[(j+i)%4])})
		}
	}
	modTpl := func(tag, mod string) []any {
		return []any{J{"t": "for", "tag": tag, "var": bs("x"), "coll": eVar("q"), mod: eVar("k"), "body": []any{nObj(eVar("x"))}}, nText(";")}
	}
	modAt := len(templates)
	templates = append(templates, modTpl("tablerow", "cols"), modTpl("for", "lim"), modTpl("for", "off"))
	// records in an order no filter would leave them in, through every array filter with and without a key: the
	// caller's list stays as it was
	for j := range envs {
		if e := envs[j].([]any); len(e) > 0 {
			envs[j] = append(e, []any{bs("ppl"), vArr(vMap("name", vStr("bob")), vMap("name", vStr("Al")), vMap("name", vStr("cy")), vMap("name", vStr("abe")))})
		}
	}
	names := func(e J) []any { return []any{nObj(eFilter(eFilter(e, "map", eLit(vStr("name"))), "join", eLit(vStr(","))))} }
	templates = append(templates, names(eVar("ppl")),
		names(eFilter(eVar("ppl"), pick(r, []string{"sort_natural", "sort"}), eLit(vStr("name")))),
		names(eFilter(eVar("ppl"), pick(r, []string{"reverse", "uniq", "compact", "sort_natural", "sort"}))))
	// a filter that does not exist, its name the beginning of several that do: the same error every time
	templates = append(templates, []any{nText("a"), nObj(eFilter(eVar("s"), pick(r, []string{"s", "trunc", "url_", "strip_", "re", "sort_", "up", "r", "escape_"})))})
	ill := illFormedTemplates()
	templates = append(templates, ill[r.Intn(len(ill))])
	// an included file (registered in the engine's cache) that fails part-way for the environments whose q holds a
	// zero: later renders that include it, with the other environments, are not affected
	incTpl := []any{nText("("), J{"t": "include", "e": eLit(vStr("zz_inc_q.liq"))}, nText(")")}
	templates = append(templates, incTpl, []any{nObj(eVar("n")), J{"t": "include", "e": eFilter(eLit(vStr("zz_inc_q")), "append", eLit(vStr(".liq")))}})
	nops := 2 + r.Intn(10)
	if r.Intn(4) == 0 {
		nops = 12 + r.Intn(28)
	}
	if withAcct && nops < 16 {
		nops += 14
	}
	ops := []any{}
	for k := 0; k < nops; k++ {
		op := J{"t": r.Intn(len(templates)), "b": r.Intn(nenv), "entry": pick(r, entries)}
		switch r.Intn(5) {
		case 0:
			op["fresh"] = "parse"
		case 1:
			op["fresh"] = "engine"
		}
		if r.Intn(4) == 0 {
			op["shuffle"] = true
		} else if r.Intn(5) == 0 {
			op["morph"] = true // (the caller's one bindings object, edited in place since the last render)
		}
		if withAcct && k%2 == 0 {
			op["t"] = acctAt + r.Intn(2) // (the two templates about u)
		}
		if withAcct && k < 3 {
			// the pattern C03 names: these bindings, then other bindings, then these again
			op["t"] = acctAt + i%2
			op["b"] = []int{1, 0, 1}[k]
		}
		ops = append(ops, op)
	}
	// the pattern C03 names, for the templates whose loop modifier is the variable k: bindings where it is zero or
	// negative, then bindings where it is positive, then the first again
	{
		lo, hi := -1, -1
		for j := range envs {
			if len(envs[j].([]any)) == 0 {
				continue
			}
			if kv := []int{2, 0, -1, 3}[(j+i)%4]; kv <= 0 && lo < 0 {
				lo = j
			} else if kv > 0 && hi < 0 {
				hi = j
			}
		}
		if lo >= 0 && hi >= 0 {
			for t := modAt; t < modAt+3; t++ {
				for _, b := range []int{lo, hi, lo} {
					ops = append(ops, J{"t": t, "b": b, "entry": pick(r, entries)})
				}
			}
		}
	}
	incBody := []any{nText("["), J{"t": "for", "tag": "for", "var": bs("x"), "coll": eVar("q"), "body": []any{nObj(eFilter(eLit(vInt(6)), "divided_by", eVar("x"))), nText(",")}}, nText("]")}
	c := J{"kind": "session", "templates": templates, "envs": envs, "reprs": reprs, "ops": ops, "cache": []any{[]any{bs("zz_inc_q.liq"), incBody}}}
	if withAcct {
		c["noref"] = true
	}
	return c
}

// sessions that iterate maps: the order is not decided by C11 but must be the same every time (C02)
func genMapSession(r *rand.Rand, i int) J {
	n := 2 + r.Intn(11)
	pairs := []any{}
	for k := 0; k < n; k++ {
		pairs = append(pairs, []any{bs(string(rune('a' + k))), vInt(k)})
	}
	env := []any{[]any{bs("m"), J{"k": "map", "v": pairs}}, []any{bs("s"), vStr("v")}}
	templates := []any{
		mapLoop("m"),
		[]any{nObj(eFilter(eVar("m"), "first")), nText("|"), nObj(eFilter(eVar("m"), "last"))},
		[]any{nObj(eFilter(eVar("m"), "join", eLit(vStr(","))))},
		[]any{J{"t": "for", "tag": "tablerow", "var": bs("p"), "coll": eVar("m"), "cols": eLit(vInt(2)), "body": []any{nObj(eIdx(eVar("p"), eLit(vInt(0))))}}},
		[]any{nObj(eFilter(eFilter(eVar("m"), "sort"), "join"))},
		[]any{nObj(eFilter(eVar("m"), "size")), nObj(eProp(eVar("m"), "size")), nObj(eFilter(eFilter(eVar("m"), "reverse"), "first"))},
	}
	ops := []any{}
	for k := 0; k < 30; k++ {
		op := J{"t": k % len(templates), "b": 0, "entry": pick(r, entries)}
		if r.Intn(3) == 0 {
			op["fresh"] = pick(r, []string{"parse", "engine"})
		}
		if r.Intn(2) == 0 {
			op["shuffle"] = true
		}
		ops = append(ops, op)
	}
	c := J{"kind": "session", "templates": templates, "envs": []any{env}, "ops": ops}
	if n <= 3 {
		c["anyorder"] = n
	}
	if i%7 == 6 {
		// keys that spell numbers, some in several ways, some only at their beginning: the order of the loop is the same
		// every time, however the map was built
		ks := []string{"9", "10", "1st", "7", "07", "100", "2nd", "a", "-1", "1e1", "010", " 9"}
		pairsN := []any{}
		for k := 0; k < n && k < len(ks); k++ {
			pairsN = append(pairsN, []any{bs(ks[k]), vInt(k)})
		}
		sort.Slice(pairsN, func(a, b int) bool { return bytesOf(pairsN[a].([]any)[0]) < bytesOf(pairsN[b].([]any)[0]) })
		c["envs"] = []any{[]any{[]any{bs("m"), J{"k": "map", "v": pairsN}}, []any{bs("s"), vStr("v")}}}
		for _, ox := range ops {
			ox.(J)["shuffle"] = true
		}
		if len(pairsN) > 3 {
			delete(c, "anyorder")
		}
		return c
	}
	if i%6 == 2 {
		// a map whose keys are held indirectly (pointers to strings, Drops on a pointer type): turned into text, looped
		// over and joined it shows what the keys stand for - the same in every process, and never an address.
		// (What such a map answers to m.key is not the reference's business: judged on determinism.)
		c["reprs"] = []any{J{"m": pick(r, []string{"ptrkeys", "dropkeys"})}}
		c["noref"] = true
		c["addrcheck"] = true
		c["templates"] = []any{
			[]any{nObj(eVar("m"))},
			mapLoop("m"),
			[]any{nObj(eFilter(eVar("m"), "join", eLit(vStr(","))))},
			[]any{nObj(eFilter(eVar("m"), "append", eVar("s")))},
			[]any{J{"t": "for", "tag": "for", "var": bs("p"), "coll": eVar("m"), "body": []any{nObj(eVar("p")), nText(";")}}},
			[]any{nObj(eFilter(eFilter(eVar("m"), "reverse"), "first"))},
		}
		for k, ox := range ops {
			if k%2 == 1 {
				ox.(J)["shuffle"] = true // (shuffled() re-allocates the keys in another order)
			}
		}
		delete(c, "anyorder")
		return c
	}
	if i%6 == 3 {
		// a map[any]any (what a YAML decoder produces) whose keys are of several kinds, some of them the same number in
		// different Go types: whatever m[1], m[k], m contains 1 answer, they answer it every time, however the map was built
		ks := []string{"l:1", "f:1", "s:1", "u:2", "f:2", "b:true", "i:3", "f:3", "l:0", "f:0", "x", "u:1", "l:2"}
		pairsM := []any{}
		for k := 0; k < n+1 && k < len(ks); k++ {
			pairsM = append(pairsM, []any{bs(ks[k]), vStr(ks[k])})
		}
		sort.Slice(pairsM, func(a, b int) bool { return bytesOf(pairsM[a].([]any)[0]) < bytesOf(pairsM[b].([]any)[0]) })
		kv := pick(r, []J{vInt(1), vInt(2), vFlt(1, 1), vInt(0), vStr("1")})
		c["envs"] = []any{[]any{[]any{bs("k"), kv}, []any{bs("m"), J{"k": "map", "v": pairsM}}, []any{bs("s"), vStr("v")}}}
		c["reprs"] = []any{J{"m": "mixedkeys"}}
		c["noref"] = true
		idx := func(e J) []any { return []any{nText("["), nObj(eIdx(eVar("m"), e)), nText("]")} }
		c["templates"] = []any{
			append(append(idx(eLit(vInt(1))), idx(eLit(vInt(2)))...), idx(eLit(vInt(0)))...),
			idx(eVar("k")),
			append(idx(eLit(vFlt(1, 1))), idx(eLit(vFlt(3, 1)))...),
			[]any{J{"t": "if", "branches": []any{J{"c": eCmp("contains", eVar("m"), eVar("k")), "body": []any{nText("y")}}, J{"c": J{"t": "else"}, "body": []any{nText("n")}}}}},
			[]any{J{"t": "assign", "name": bs("z"), "e": eIdx(eVar("m"), eVar("k"))}, nObj(eFilter(eVar("z"), "append", eVar("s")))},
			idx(eLit(vStr("1"))),
		}
		for _, ox := range ops {
			ox.(J)["shuffle"] = true
		}
		delete(c, "anyorder")
		return c
	}
	if i%6 == 5 {
		// the caller keeps one bindings object and edits it between renders: the map loses some keys and gains as many
		// others, in place - what is rendered is what it holds now
		pairsB := []any{}
		for k := 0; k < n; k++ {
			key := string(rune('a' + k))
			if k%2 == 1 {
				key = string(rune('n' + k))
			}
			pairsB = append(pairsB, []any{bs(key), vInt(k)})
		}
		c["envs"] = []any{env, []any{[]any{bs("m"), J{"k": "map", "v": pairsB}}, []any{bs("s"), vStr("v")}}}
		for k, ox := range ops {
			op := ox.(J)
			op["b"] = (k / 2) % 2
			delete(op, "shuffle")
			if k%3 != 2 {
				op["morph"] = true
			}
		}
		return c
	}
	if i%5 == 4 {
		// pointers two and three levels down inside otherwise plain arrays and maps: whatever turns the map, its pairs or
		// its values into text shows what they point to - never an address (which a second process would print differently)
		pairs4 := []any{}
		rep := J{}
		for k := 0; k < n; k++ {
			key := string(rune('a' + k))
			switch k % 3 {
			case 0:
				pairs4 = append(pairs4, []any{bs(key), vArr(vInt(k), vArr(vStr("x"), vInt(7)))})
				rep["m/"+key+"/1/0"] = "ptr"
			case 1:
				pairs4 = append(pairs4, []any{bs(key), vMap("k", vArr(vInt(1), vStr("y")))})
				rep["m/"+key+"/k/1"] = "ptr"
			default:
				pairs4 = append(pairs4, []any{bs(key), vArr(vArr(vArr(vInt(k))))})
				rep["m/"+key+"/0/0/0"] = "ptr"
			}
		}
		c["envs"] = []any{[]any{[]any{bs("m"), J{"k": "map", "v": pairs4}}, []any{bs("s"), vStr("v")}}}
		c["reprs"] = []any{rep}
		c["templates"] = []any{
			[]any{nObj(eVar("m"))},
			mapLoop("m"),
			[]any{nObj(eFilter(eVar("m"), "join", eLit(vStr(","))))},
			[]any{nObj(eFilter(eVar("m"), "append", eVar("s")))},
			[]any{J{"t": "for", "tag": "for", "var": bs("p"), "coll": eVar("m"), "body": []any{nObj(eVar("p")), nText(";"), nObj(eFilter(eIdx(eVar("p"), eLit(vInt(1))), "join", eLit(vStr("+"))))}}},
			[]any{nObj(eFilter(eFilter(eVar("m"), "reverse"), "join", eLit(vStr("|"))))},
		}
		delete(c, "anyorder")
		return c
	}
	if i%4 == 3 {
		// a map whose values are arrays and maps, several of them equal - and, in the Go bindings, one shared value
		// ("@share"); the whole map, its pairs and its values are turned into text
		vals := []J{vArr(vInt(1), vInt(2)), vMap("k", vInt(1)), vArr(), vArr(vStr("x"))}
		pairs3 := []any{}
		for k := 0; k < n; k++ {
			pairs3 = append(pairs3, []any{bs(string(rune('a' + k))), vals[r.Intn(len(vals))]})
		}
		c["envs"] = []any{[]any{[]any{bs("m"), J{"k": "map", "v": pairs3}}, []any{bs("s"), vStr("v")}}}
		c["reprs"] = []any{J{"@share": "1"}}
		c["templates"] = []any{
			[]any{nObj(eVar("m"))},
			mapLoop("m"),
			[]any{nObj(eFilter(eVar("m"), "join", eLit(vStr(","))))},
			[]any{nObj(eFilter(eVar("m"), "append", eVar("s")))},
			[]any{J{"t": "for", "tag": "for", "var": bs("p"), "coll": eVar("m"), "body": []any{nObj(eVar("p")), nText(";")}}},
			[]any{nObj(eFilter(eFilter(eVar("m"), "reverse"), "join"))},
		}
		delete(c, "anyorder")
		return c
	}
	if i%3 != 0 {
		// the same session over a map with integer keys (map[int]any / map[any]any)
		pairs2 := []any{}
		for k := 0; k < n; k++ {
			pairs2 = append(pairs2, []any{bs(fmt.Sprint(10 + k)), vInt(k)})
		}
		c["envs"] = []any{[]any{[]any{bs("m"), J{"k": "map", "v": pairs2}}, []any{bs("s"), vStr("v")}}}
		c["reprs"] = []any{J{"m": pick(r, []string{"intkeys", "anykeys"})}}
	}
	return c
}

// sessions whose bindings are strings only, so the command-line tool can take part
// text that a careless output path would mangle: format verbs, escapes, shell and terminal specials, long lines
var cliTexts = []string{"50% off %d %s %v %%", "100%", "a\\nb\\t\\x41", "$HOME ${X} `id` $(id)", "-n -e --help", "\r\n\r\n", "\ttab\there", "é😀 \u00a0", "'single' \"double\"",
	"<&>", "a=b=c", "=lead", "\x1b[31mred\x1b[0m", "%", "%%", "% d", "%!s(MISSING)", "{ } { %", "~!@#^&*()=+[]|;:,.?/"}

func genCLISession(r *rand.Rand, i int) J {
	env := []any{[]any{bs("S"), vStr(pick(r, append([]string{"a", "x y", "é", ""}, cliTexts...)))}, []any{bs("T"), vStr(pick(r, append([]string{"b", "10", " p "}, cliTexts...)))}}
	// (a value with equals signs in it: the part of NAME=VALUE after the first one is the value, whole)
	env = append(env, []any{bs("E"), vStr([]string{"aGVsbG8gd29ybGQ=", "k=v&x=y", "==", "a=b=c", "=lead", "trail="}[i%6])})
	long := strings.Repeat(pick(r, cliTexts)+" ", 3000) // more than a pipe buffer holds
	templates := []any{
		[]any{nObj(eVar("S")), nText("-"), nObj(eFilter(eVar("T"), "upcase")), nText("\n")},
		[]any{J{"t": "if", "branches": []any{J{"c": eCmp("==", eVar("S"), eLit(vStr("a"))), "body": []any{nText("A")}}, J{"c": J{"t": "else"}, "body": []any{nObj(eFilter(eVar("S"), "size"))}}}}},
		[]any{J{"t": "for", "tag": "for", "var": bs("i"), "coll": J{"t": "range", "a": eLit(vInt(1)), "b": eLit(vInt(3))}, "body": []any{nObj(eVar("i")), nObj(eVar("T"))}}},
		[]any{nText(pick(r, cliTexts)), nObj(eVar("S")), nText(pick(r, cliTexts))},
		[]any{nObj(eFilter(eVar("T"), "url_encode")), nText("|"), nObj(eFilter(eVar("S"), "escape")), nText("|"), nObj(eFilter(eVar("S"), "append", eVar("T")))},
		[]any{nText(long), nObj(eVar("T"))},
		[]any{J{"t": "raw", "s": bs(pick(r, cliTexts))}, nText(pick(r, cliTexts))},
		[]any{nText("["), nObj(eVar("nosuchvariable")), nText("]")},
		[]any{nText("<"), nObj(eVar("E")), nText(">"), nObj(eFilter(eVar("E"), "size"))},
	}
	ops := []any{}
	for k := 0; k < 2*len(templates)+2; k++ {
		e := "CLI"
		if k%3 == 0 {
			e = pick(r, entries)
		}
		ops = append(ops, J{"t": k % len(templates), "b": 0, "entry": e})
	}
	c := J{"kind": "session", "templates": templates, "envs": []any{env}, "ops": ops, "cli": true}
	if i%3 == 0 {
		c["strict"] = true // (--strict on the command line, StrictVariables on the engine)
	}
	return c
}

func init() {
	generators["session"] = genSession
	generators["mapsession"] = genMapSession
	generators["clisession"] = genCLISession
}

// a template exercising every standard tag, and templates exercising every standard filter
func coverageTemplates() [][]any {
	allTags := []any{
		J{"t": "assign", "name": bs("q"), "e": eLit(vInt(2))},
		J{"t": "capture", "name": bs("cap"), "body": []any{nText("c"), nObj(eVar("q"))}},
		J{"t": "if", "branches": []any{J{"c": eCmp("==", eVar("q"), eLit(vInt(2))), "body": []any{nText("i")}}, J{"c": eVar("n"), "body": []any{nText("e")}}, J{"c": J{"t": "else"}, "body": []any{nText("o")}}}},
		J{"t": "if", "neg": true, "branches": []any{J{"c": eVar("zz"), "body": []any{nText("u")}}}},
		J{"t": "case", "e": eVar("q"), "pre": []any{}, "whens": []any{J{"vals": []any{eLit(vInt(1)), eLit(vInt(2))}, "body": []any{nText("w")}}, J{"else": true, "vals": []any{}, "body": []any{nText("x")}}}},
		J{"t": "for", "tag": "for", "var": bs("x"), "coll": eVar("a"), "rev": true, "lim": eLit(vInt(3)), "off": eLit(vInt(0)),
			"body": []any{J{"t": "cycle", "group": bs("g1"), "vals": []any{bs("p"), bs("q")}}, nObj(eProp(eVar("forloop"), "index")),
				J{"t": "if", "branches": []any{J{"c": eCmp("==", eProp(eVar("forloop"), "index"), eLit(vInt(2))), "body": []any{J{"t": "continue"}}}}},
				J{"t": "if", "branches": []any{J{"c": eCmp("==", eProp(eVar("forloop"), "index"), eLit(vInt(5))), "body": []any{J{"t": "break"}}}}}, nObj(eVar("x"))},
			"else": []any{nText("E")}},
		J{"t": "for", "tag": "tablerow", "var": bs("y"), "coll": J{"t": "range", "a": eLit(vInt(1)), "b": eLit(vInt(3))}, "cols": eLit(vInt(2)), "body": []any{nObj(eVar("y"))}},
		J{"t": "comment", "s": bs(" {{ nothing }} ")},
		J{"t": "raw", "s": bs(" {{ raw }} ")},
		nObj(eVar("cap")),
	}
	s := eLit(vStr(" Ab,c d "))
	filters1 := []any{}
	for _, f := range []string{"upcase", "downcase", "capitalize", "strip", "lstrip", "rstrip", "strip_newlines", "newline_to_br", "escape", "escape_once", "url_encode", "url_decode", "size", "strip_html"} {
		filters1 = append(filters1, nObj(eFilter(s, f)), nText("|"))
	}
	filters1 = append(filters1,
		nObj(eFilter(s, "append", eLit(vStr("!")))), nObj(eFilter(s, "prepend", eLit(vStr("!")))), nObj(eFilter(s, "remove", eLit(vStr("b")))),
		nObj(eFilter(s, "remove_first", eLit(vStr(" ")))), nObj(eFilter(s, "replace", eLit(vStr("c")), eLit(vStr("C")))), nObj(eFilter(s, "replace_first", eLit(vStr(" ")), eLit(vStr("_")))),
		nObj(eFilter(s, "slice", eLit(vInt(1)), eLit(vInt(3)))), nObj(eFilter(s, "truncate", eLit(vInt(5)))), nObj(eFilter(s, "truncatewords", eLit(vInt(1)))),
		nObj(eFilter(eFilter(s, "split", eLit(vStr(","))), "join", eLit(vStr("+")))), nObj(eFilter(eVar("zz"), "default", eLit(vStr("d")))))
	arr := eVar("a")
	filters2 := []any{
		nObj(eFilter(eFilter(arr, "sort"), "join")), nObj(eFilter(eFilter(arr, "reverse"), "join")), nObj(eFilter(eFilter(arr, "uniq"), "join")),
		nObj(eFilter(eFilter(arr, "compact"), "join")), nObj(eFilter(eFilter(arr, "concat", eVar("b")), "size")), nObj(eFilter(arr, "first")), nObj(eFilter(arr, "last")),
		nObj(eFilter(eFilter(arr, "map", eLit(vStr("k"))), "size")), nObj(eFilter(eFilter(arr, "sort_natural"), "size")),
		nObj(eFilter(eLit(vInt(7)), "plus", eLit(vInt(2)))), nObj(eFilter(eLit(vInt(7)), "minus", eLit(vInt(2)))), nObj(eFilter(eLit(vInt(7)), "times", eLit(vInt(2)))),
		nObj(eFilter(eLit(vInt(7)), "divided_by", eLit(vInt(2)))), nObj(eFilter(eLit(vInt(7)), "modulo", eLit(vInt(2)))), nObj(eFilter(eLit(vFlt(-7, 2)), "abs")),
		nObj(eFilter(eLit(vFlt(7, 2)), "ceil")), nObj(eFilter(eLit(vFlt(7, 2)), "floor")), nObj(eFilter(eLit(vFlt(7, 2)), "round")),
		nObj(eFilter(eVar("h"), "json")), nObj(eFilter(eVar("a"), "inspect")), nObj(eFilter(eLit(vInt(1)), "type")),
		nObj(eFilter(eLit(vStr("2020-01-02")), "date", eLit(vStr("%Y")))),
	}
	// dates written in several of the formats the library recognises (it tries its layouts in turn)
	dates := []any{}
	for _, d := range []string{"2020-01-02", "02 Jan 2020", "02 January 2020", "2020-01-02T03:04:05Z", "20200102T030405Z", "2021-12-28", "28 Dec 2021"} {
		dates = append(dates, nObj(eFilter(eLit(vStr(d)), "date", eLit(vStr("%Y-%m-%d")))), nText("|"))
	}
	return [][]any{allTags, filters1, filters2, dates}
}

func genConSession(r *rand.Rand, i int) J {
	c := genSession(r, i)
	templates := jarr(c, "templates")
	for _, t := range coverageTemplates() {
		templates = append(templates, t)
	}
	for _, t := range mutatorTemplates() {
		templates = append(templates, t)
	}
	for _, t := range illFormedTemplates() {
		templates = append(templates, t)
	}
	c["templates"] = templates
	nenv := len(jarr(c, "envs"))
	ops := []any{}
	for k := 0; k < 96; k++ {
		op := J{"t": r.Intn(len(templates)), "b": r.Intn(nenv), "entry": pick(r, entries)}
		if r.Intn(3) == 0 {
			op["fresh"] = "parse"
		}
		ops = append(ops, op)
	}
	c["ops"] = ops
	// an include served from the engine's cache, while other goroutines add to the cache
	// (the cached source includes another cached source, and that one a third)
	c["cache"] = []any{
		[]any{bs("zz_cached_inc.liq"), []any{nText("[inc:"), nObj(eVar("s")), J{"t": "include", "e": eLit(vStr("zz_cached_inc2.liq"))}, nText("]")}},
		[]any{bs("zz_cached_inc2.liq"), []any{nText("="), J{"t": "include", "e": eLit(vStr("zz_cached_inc3.liq"))}, nObj(eVar("n")), nText(";")}},
		[]any{bs("zz_cached_inc3.liq"), []any{nText("3"), nObj(eFilter(eVar("s"), "size"))}},
	}
	templates = append(templates, []any{nText("("), J{"t": "include", "e": eLit(vStr("zz_cached_inc.liq"))}, nText(")")})
	// constructs of the embedding program (RegisterTag / RegisterBlock / RegisterFilter: harness/ext.go), several
	// goroutines at a time: a filter with a Closure parameter (conditions not seen before), a block, a tag that sets
	xw := func(cond J) J { return J{"t": "xwhere", "e": eVar("q"), "var": bs("x"), "c": cond} }
	nExt := 0
	for _, cond := range []J{eVar("x"), J{"t": "cmp", "op": ">", "a": eVar("x"), "b": eLit(vInt(1 + i%3))}, J{"t": "cmp", "op": "!=", "a": eVar("x"), "b": eVar("n")},
		J{"t": "cmp", "op": "<", "a": eVar("x"), "b": eLit(vInt(2 + i%4))}} {
		templates = append(templates, []any{nObj(eFilter(xw(cond), "join", eLit(vStr("+")))), nText("/"), nObj(eVar("x"))})
		nExt++
	}
	templates = append(templates, []any{J{"t": "xblock", "times": 2, "body": []any{nObj(eVar("s")), J{"t": "xset", "name": bs("zq"), "e": eVar("n")}}}, nObj(eVar("zq")), J{"t": "xargs", "s": bs("k l")}})
	nExt++
	// a template whose output runs to several thousand bytes (whatever a render sizes by what came out before is shared
	// by the goroutines that render it)
	templates = append(templates, []any{J{"t": "for", "tag": "for", "var": bs("x"), "coll": J{"t": "range", "a": eLit(vInt(1)), "b": eLit(vInt(700 + 100*(i%4)))},
		"body": []any{nObj(eVar("x")), nText("-"), nObj(eVar("s")), nText(";")}}})
	nExt++
	c["noreft"] = []any{len(templates) - 1} // (judged on determinism and independence only: too long a loop for the reference to re-run per event)
	c["templates"] = templates
	for k := 0; k < 12; k++ {
		ops = append(ops, J{"t": len(templates) - 1 - nExt, "b": r.Intn(nenv), "entry": pick(r, entries)})
	}
	for k := 0; k < 10; k++ {
		ops = append(ops, J{"t": len(templates) - 1, "b": r.Intn(nenv), "entry": pick(r, []string{"Render", "RenderString", "FRender", "Render"})})
	}
	for k := 0; k < 24; k++ {
		ops = append(ops, J{"t": len(templates) - 1 - r.Intn(nExt), "b": r.Intn(nenv), "entry": pick(r, entries), "fresh": pick(r, []string{"", "", "parse"})})
	}
	c["ops"] = ops
	c["cachewriters"] = 2
	// in some sessions the maps g and h are Go structs (fields tagged with the keys), shared by all goroutines; what a
	// struct answers where a map would (size, iteration) is not the reference's business: these sessions are judged
	// on determinism, independence and immutability only
	if i%3 == 0 {
		for _, rp := range jarr(c, "reprs") {
			if m := jobj(rp); m != nil {
				m["g"] = "struct"
				m["h"] = "structptr"
			}
		}
		c["noref"] = true
	}
	// some engines are configured with custom delimiters, some positions left empty (= default)
	switch i % 4 {
	case 1:
		c["spell"] = J{"delims": []any{bs(""), bs(""), bs("<%"), bs("%>")}}
	case 2:
		c["spell"] = J{"delims": []any{bs("[["), bs("]]"), bs(""), bs("")}}
	case 3:
		c["spell"] = J{"delims": []any{bs("<<"), bs(">>"), bs("<?"), bs("?>")}}
	}
	return c
}

func init() { generators["consession"] = genConSession }
