package main

// C06: token-class sequences through ParseTemplate and GetRoot.

import (
	"fmt"
	"reflect"
	"strings"

	"github.com/osteele/liquid"
	"github.com/osteele/liquid/render"
)

func classSpelling(c string, i int) string {
	switch c {
	case "if", "unless", "case":
		return "{% " + c + " c %}"
	case "for", "tablerow":
		return "{% " + c + " i in a %}"
	case "capture":
		return "{% capture v %}"
	case "comment", "raw", "else", "lqx_wrap":
		return "{% " + c + " %}"
	case "elsif":
		return "{% elsif c %}"
	case "when":
		return "{% when 1 %}"
	case "tag":
		return "{% assign z = 1 %}"
	case "obj":
		return "{{ c }}"
	case "otherend": // end tags of blocks that other Liquid dialects have
		return "{% end" + []string{"doc", "style", "schema", "javascript", "form", "paginate", "stylesheet", "section"}[i%8] + " %}"
	case "badobj": // no valid expression: meaningful only as the content of a comment or raw block
		return "{{ p * 2 }}"
	case "text":
		return fmt.Sprintf("t%d;", i)
	}
	if strings.HasPrefix(c, "end") {
		return "{% " + c + " %}"
	}
	return "?"
}

// restyle rewrites the canonical spelling "{% x %}" / "{{ x }}" of one token.
func restyle(s string, style int) string {
	if style == 0 || len(s) < 6 || s[0] != '{' {
		return s
	}
	open, close, inner := s[:2], s[len(s)-2:], s[3:len(s)-3]
	switch style {
	case 1:
		return open + inner + close
	case 2:
		return open + "- " + inner + " -" + close
	case 3:
		return open + "-" + inner + "-" + close
	case 4:
		return open + " " + inner + "-" + close
	case 5:
		return open + "-" + inner + " " + close
	case 6:
		return open + "\n" + inner + "\n" + close
	case 8: // a tag spread over lines: every space inside it is a newline
		return open + " " + strings.ReplaceAll(inner, " ", "\n") + " " + close
	case 9:
		return open + "\t" + strings.ReplaceAll(inner, " ", " \n\t") + "\n" + close
	default:
		return open + "  " + inner + "\t" + close
	}
}

// treeOf projects the render tree; pos maps a node's source text to the
// position of its token (spellings of leaves are made unique for text; obj
// and tag leaves are matched in document order).
type treeWalker struct {
	toks []string
	next int   // next token position to match leaves against (1-based)
	raws []any // bodies of the raw nodes, in document order
}

func (w *treeWalker) leafPos(kind string) int {
	for w.next <= len(w.toks) {
		p := w.next
		w.next++
		if w.toks[p-1] == kind {
			return p
		}
	}
	return 0
}

func (w *treeWalker) nodes(ns []render.Node) []any {
	out := []any{}
	for _, n := range ns {
		switch n := n.(type) {
		case *render.TextNode:
			var p int
			fmt.Sscanf(n.Source, "t%d;", &p)
			out = append(out, J{"t": "text", "i": p})
		case *render.ObjectNode:
			out = append(out, J{"t": "obj", "i": -1, "line": n.SourceLoc.LineNo})
		case *render.TagNode:
			out = append(out, J{"t": "tag", "i": -1})
		case *render.RawNode:
			out = append(out, J{"t": "raw"})
			// the body is an unexported []string: read it through reflection
			body := ""
			if f := reflect.ValueOf(n).Elem().FieldByName("slices"); f.IsValid() && f.Kind() == reflect.Slice {
				for i := 0; i < f.Len(); i++ {
					body += f.Index(i).String()
				}
			}
			w.raws = append(w.raws, bytesJSON(body))
		case *render.BlockNode:
			body := w.nodes(n.Body) // document order: the body, then the clauses
			cl := []any{}
			for _, c := range n.Clauses {
				cl = append(cl, J{"name": c.Name, "body": w.nodes(c.Body)})
			}
			out = append(out, J{"t": "block", "name": n.Name, "body": body, "clauses": cl})
		case *render.SeqNode:
			out = append(out, w.nodes(n.Children)...)
		}
	}
	return out
}

// number obj/tag leaves in document order with the positions of the obj/tag
// tokens that are not inside comment or raw
func numberLeaves(tree []any, positions map[string][]int) {
	for _, x := range tree {
		n := x.(J)
		switch n["t"] {
		case "obj", "tag":
			k := n["t"].(string)
			if len(positions[k]) > 0 {
				n["i"] = positions[k][0]
				positions[k] = positions[k][1:]
			}
		case "block":
			// document order: body, then clauses in order
			numberLeaves(n["body"].([]any), positions)
			for _, c := range n["clauses"].([]any) {
				numberLeaves(c.(J)["body"].([]any), positions)
			}
		}
	}
}

func runParse(c J) J {
	obs := cloneCase(c)
	var toks []string
	for _, t := range jarr(c, "toks") {
		toks = append(toks, t.(string))
	}
	// style: how the delimiters, the hyphens and the spacing of every tag and object outside raw / comment are
	// written (the nesting is the same under every spelling)
	style := jint(c, "style")
	var sb strings.Builder
	smode := ""
	for i, t := range toks {
		sp := classSpelling(t, i+1)
		switch {
		case smode == "raw" || smode == "comment":
			if t == "end"+smode {
				smode = ""
				sp = restyle(sp, style)
			}
		default:
			if t == "raw" || t == "comment" {
				smode = t
			}
			sp = restyle(sp, style)
		}
		sb.WriteString(sp)
	}
	src := sb.String()
	obs["text"] = src
	res := guard(func() result {
		eng := liquid.NewEngine()
		registerExt(eng)
		tpl, err := parseScribbled(eng, src, "", 0)
		if err != nil {
			return errResult("parse", err, "")
		}
		w := &treeWalker{toks: toks, next: 1}
		tree := w.nodes([]render.Node{tpl.GetRoot()})
		// positions of live obj/tag tokens (outside comment/raw), in order
		pos := map[string][]int{}
		mode := ""
		for i, t := range toks {
			switch {
			case mode == "comment":
				if t == "endcomment" {
					mode = ""
				}
			case mode == "raw":
				if t == "endraw" {
					mode = ""
				}
			case t == "comment" || t == "raw":
				mode = t
			case t == "obj" || t == "tag":
				pos[t] = append(pos[t], i+1)
			}
		}
		numberLeaves(tree, pos)
		obs["tree"] = tree
		if jbool(c, "notree") {
			obs["tree"] = []any{}
		}
		if w.raws == nil {
			w.raws = []any{}
		}
		obs["raws"] = w.raws
		return result{Outcome: "ok"}
	})
	obs["accepted"] = res.Outcome == "ok"
	obs["srcerr"] = res.IsSrcErr
	res.put(obs)
	if _, ok := obs["tree"]; !ok {
		obs["tree"] = []any{}
		obs["raws"] = []any{}
	}
	return obs
}

func init() { kinds["parse"] = runParse }
