package main

// Seeded drivers for C01: template text over a syntax-rich vocabulary with a
// binding environment built from every kind of plain data the statement
// lists, and mutants of the templates found in the repository's own tests.

import (
	"fmt"
	"github.com/osteele/liquid/values"
	"math/rand"
	"os"
	"path/filepath"
	"reflect"
	"regexp"
	"sort"
	"strconv"
	"strings"
	"time"

	yaml "gopkg.in/yaml.v2"
)

type namedKey string
type namedInt int
type namedBool bool
type namedFloat float64
type namedSlice []any
type namedMap map[string]any
type namedStr string
type embInner struct{ X int }
type embOuter struct {
	*embInner
	Y int
}

// structs that embed something other than a struct: a named slice, map, string, number, a pointer to one, an interface
type embSlice struct {
	namedSlice
	T string `liquid:"title"`
}
type embMap struct {
	namedMap
	T string `liquid:"title"`
}
type embStr struct {
	namedStr
	N int
}
type embPtrInt struct {
	*namedInt
	T string `liquid:"title"`
}
type embIface struct {
	fmt.Stringer
	T string `liquid:"title"`
}
type embDeep struct {
	embSlice
	embStr
}

type plainStruct struct {
	A    int
	B    string
	C    []int
	D    map[string]any
	E    *plainStruct
	F    float32
	Name string `liquid:"nm"`
	priv int
}

func (p plainStruct) Method() string { return "m" }

// methods of every shape: only the first kind (and a value with a nil error) is a property
func (p plainStruct) Pair() (string, int)       { return "p", 1 }
func (p plainStruct) Checked() (string, error)  { return "c", nil }
func (p plainStruct) Nothing()                  {}
func (p plainStruct) WithArg(i int) string      { return "a" }
func (p plainStruct) Triple() (int, int, error) { return 1, 2, nil }
func (p *plainStruct) OnPointer() []int         { return p.C }
func (p plainStruct) Self() plainStruct         { return p }
func (p plainStruct) NilMap() map[string]any    { return nil }
func (p plainStruct) Func() func() int          { return func() int { return 1 } }

// weirdEnv builds bindings of every representation named in C01.
func weirdEnv() map[string]any {
	n := 7
	s := "ptr"
	var nilp *int
	var nils *plainStruct
	st := plainStruct{A: 1, B: "b", C: []int{3, 1, 2}, D: map[string]any{"k": 1}, F: 2.5, Name: "n"}
	st2 := st
	st.E = &st2
	return map[string]any{
		"st": st, "pst": &st, "nilp": nilp, "nils": nils, "pn": &n, "ps": &s,
		"tm": time.Date(2020, 1, 2, 3, 4, 5, 0, time.UTC), "by": []byte("bytes é"), "ms": yaml.MapSlice{{Key: "k", Value: 1}, {Key: 2, Value: "two"}, {Key: nil, Value: nil}},
		"mik": map[int]string{1: "one", 2: "two"}, "mif": map[any]any{"a": 1, 2: "b", 2.5: nil}, "af": [2]float32{1.5, 2.5}, "u8": uint8(200), "i64": int64(1) << 62, "u64": ^uint64(0),
		"f32": float32(0.1), "big": 1e300, "neg0": -0.0, "dr": testDrop{st}, "drnil": testDrop{nil}, "drdr": testDrop{testDrop{[]any{1, "a"}}},
		"arr": []any{1, "a", nil, 2.5, []any{1}, map[string]any{"k": "v"}, true}, "strs": []string{"b", "a"}, "ints": []int{3, 1, 2}, "m": map[string]any{"a": 1, "size": "S", "first": nil},
		"e": "", "s": "a b c", "u": "é😀", "n": 3, "z": 0, "f": 2.5, "t": true, "nl": nil, "long": strings.Repeat("ab ", 4000),
		"forloop": 5, "nested": map[string]any{"a": map[string]any{"b": []any{map[string]any{"c": 1}}}},
		// collections that hold pointers, some of them nil
		"ptrs": []*int{&n, nilp, &n}, "pstrs": []*string{&s, nil}, "pstructs": []*plainStruct{&st, nils}, "anyptrs": []any{&n, nilp, nils, []*int{nilp}},
		"mptr": map[string]*int{"a": &n, "z": nil}, "parr": &[]any{1, nil}, "pmap": &map[string]any{"k": nilp},
		// maps keyed by a named string type; an ordered map with keys that == cannot compare
		"mnk": map[namedKey]any{"k": 1, "size": 2}, "amnk": []any{map[namedKey]any{"k": 2}, map[namedKey]any{"k": 1}, map[namedKey]int{"k": 0}},
		// a named string type; a struct whose embedded pointer is nil; named numeric and boolean types
		"nstr": namedStr("a b c"), "emb": embOuter{Y: 1}, "pemb": &embOuter{Y: 2}, "nint": namedInt(7), "nbool": namedBool(true), "nflt": namedFloat(2.5),
		"nslice": namedSlice{1, "a"}, "nmap": namedMap{"k": 1},
		"esl": embSlice{namedSlice{1, 2}, "t"}, "pesl": &embSlice{nil, "t"}, "emp": embMap{namedMap{"k": 1}, "t"}, "estr": embStr{"s", 1}, "pestr": &embStr{"s", 1},
		"epi": embPtrInt{nil, "t"}, "eif": embIface{time.Unix(86400, 0).UTC(), "t"}, // (an embedded interface that holds nothing would make the struct's own promoted methods panic: not plain data) "peif": &embIface{time.Unix(0, 0).UTC(), "t"}, "edeep": embDeep{embSlice{namedSlice{1}, "t"}, embStr{"s", 2}},
		"msw": yaml.MapSlice{{Key: []any{1}, Value: "v"}, {Key: map[string]any{"k": 1}, Value: 2}, {Key: "k", Value: 3}}, "one": []any{1},
	}
}

var fuzzNames = []string{"ptrs", "pstrs", "pstructs", "anyptrs", "mptr", "parr", "pmap", "ptrs | reverse", "anyptrs[3]", "mptr.z", "pmap.k", "st", "pst", "nilp", "nils", "pn", "ps", "tm", "by", "ms", "mik", "mif", "af", "u8", "i64", "u64", "f32", "big", "neg0", "dr", "drnil", "drdr",
	"arr", "strs", "ints", "m", "e", "s", "u", "n", "z", "f", "t", "nl", "long", "nested", "undefined", "forloop", "st.A", "st.C", "pst.D.k", "st.E.B", "st.nm", "st.Method",
	"st.priv", "ms.k", "ms[2]", "mik[1]", "arr[4][0]", "arr[-1]", "arr[99]", "nested.a.b[0].c", "m.size", "m.first", "arr.first", "arr.last.x", "s.size", "n.size", "by.size",
	"tm.Year", "dr.A", "drdr.first", "u64", "pn", "mnk", "mnk.k", "mnk['k']", "amnk", "amnk | sort: 'k'", "amnk | map: 'k'", "msw", "msw[one]", "msw[m]", "msw.k", "one", "nstr", "nstr.size", "nstr | size", "emb.X", "pemb.X", "emb.Y", "nint", "nbool", "nflt", "nslice", "nslice.first", "nmap", "nmap.k",
	"(9223372036854775806..9223372036854775807)", "(1..n)", "(n..1)", "(1..3)", "(f..t)", "(1..100000)"}
var fuzzLits = []string{"'k'", "1", "-1", "0", "2.5", "99999999999999999999", "1.5e3", "'a'", "\"b\"", "''", "nil", "true", "false", "empty", "blank", "-0", "00012", "1..2", "'%Y'", "'$1'", "100000", "-99999999999"}
var fuzzFilterNames = []string{"compact", "reverse", "first", "last", "uniq", "abs", "ceil", "floor", "size", "escape", "newline_to_br", "strip_html", "strip_newlines",
	"strip", "lstrip", "rstrip", "url_encode", "url_decode", "json", "inspect", "type", "default", "concat", "join", "map", "sort", "sort_natural", "modulo", "minus",
	"plus", "times", "divided_by", "round", "append", "prepend", "remove", "remove_first", "split", "date", "upcase", "downcase", "capitalize", "escape_once", "replace",
	"replace_first", "slice", "truncate", "truncatewords", "nosuch"}

// every exported method and field of the struct-like bindings (structs, pointers to structs, times), as a property
func init() {
	env := weirdEnv()
	names := make([]string, 0, len(env))
	for k := range env {
		names = append(names, k)
	}
	sort.Strings(names)
	for _, k := range names {
		v := env[k]
		if v == nil {
			continue
		}
		t := reflect.TypeOf(v)
		st := t
		if st.Kind() == reflect.Ptr {
			st = st.Elem()
		}
		if st.Kind() != reflect.Struct {
			continue
		}
		for i := 0; i < t.NumMethod(); i++ {
			fuzzNames = append(fuzzNames, k+"."+t.Method(i).Name)
		}
		for i := 0; i < st.NumField(); i++ {
			if st.Field(i).IsExported() {
				fuzzNames = append(fuzzNames, k+"."+st.Field(i).Name)
			}
		}
	}
}

// every literal spelling the expression lexer of the tree under test knows (expressions/scanner.rl: "..." => ...),
// among them the internal statement selectors the tags prepend to their arguments: anywhere an operand can stand
var lexerWordList []string

var rlWord = regexp.MustCompile(`"((?:[^"\\]|\\.)+)"`)

func lexerWords() []string {
	if lexerWordList != nil {
		return lexerWordList
	}
	root := os.Getenv("VERIF_REPO")
	if root == "" {
		root = "/repo"
	}
	words := []string{"%assign ", "{%cycle ", "%loop ", "{%when ", "in", "..", "reversed", "limit:", "cols:", ";"}
	if data, err := os.ReadFile(filepath.Join(root, "expressions", "scanner.rl")); err == nil {
		for _, line := range strings.Split(string(data), "\n") {
			if !strings.Contains(line, "=>") {
				continue
			}
			for _, m := range rlWord.FindAllStringSubmatch(line[:strings.Index(line, "=>")], -1) {
				words = append(words, m[1])
			}
		}
	}
	lexerWordList = words
	return words
}

// the values the library itself makes (a range) have Go methods too: as properties of a small and of a huge range
func init() {
	t := reflect.TypeOf(values.NewRange(1, 2))
	for i := 0; i < t.NumMethod(); i++ {
		for _, rg := range []string{"(1..3)", "(0..9223372036854775807)", "(-9223372036854775808..9223372036854775807)"} {
			fuzzNames = append(fuzzNames, rg+"."+t.Method(i).Name)
		}
	}
}

func fuzzOperand(r *rand.Rand) string {
	if r.Intn(14) == 0 {
		w := pick(r, lexerWords())
		if r.Intn(2) == 0 {
			w += pick(r, []string{"x = 1", "i in arr", "'a', 'b'", "1", ""})
		}
		return w
	}
	if r.Intn(3) == 0 {
		return pick(r, fuzzLits)
	}
	return pick(r, fuzzNames)
}

func fuzzExpr(r *rand.Rand) string {
	e := fuzzOperand(r)
	for k := r.Intn(4); k > 0; k-- {
		e += " | " + pick(r, fuzzFilterNames)
		na := r.Intn(4)
		for i := 0; i < na; i++ {
			if i == 0 {
				e += ": "
			} else {
				e += ", "
			}
			e += fuzzOperand(r)
		}
	}
	return e
}

func fuzzCond(r *rand.Rand) string {
	c := fuzzOperand(r)
	if r.Intn(3) > 0 {
		c += " " + pick(r, []string{"==", "!=", "<", ">", "<=", ">=", "contains", "and", "or"}) + " " + fuzzOperand(r)
	}
	if r.Intn(4) == 0 {
		c += " " + pick(r, []string{"and", "or"}) + " " + fuzzOperand(r)
	}
	return c
}

func fuzzTemplate(r *rand.Rand, depth int) string {
	var sb strings.Builder
	for k, n := 0, 1+r.Intn(5); k < n; k++ {
		switch r.Intn(14) {
		case 0, 1:
			sb.WriteString(pick(r, []string{"x", " ", "\n", "a b", "é"}))
		case 2, 3, 4:
			sb.WriteString("{{ " + fuzzExpr(r) + " }}")
		case 5:
			sb.WriteString("{% assign " + pick(r, []string{"v", "n", "forloop", "arr"}) + " = " + fuzzExpr(r) + " %}")
		case 6:
			if depth > 0 {
				sb.WriteString("{% if " + fuzzCond(r) + " %}" + fuzzTemplate(r, depth-1) + "{% elsif " + fuzzCond(r) + " %}" + fuzzTemplate(r, depth-1) + "{% else %}e{% endif %}")
			}
		case 7:
			if depth > 0 {
				mods := ""
				for _, m := range []string{" reversed", " limit:" + fuzzOperand(r), " offset:" + fuzzOperand(r)} {
					if r.Intn(3) == 0 {
						mods += m
					}
				}
				sb.WriteString("{% for i in " + fuzzOperand(r) + mods + " %}" + fuzzTemplate(r, depth-1) + pick(r, []string{"", "{% break %}", "{% continue %}", "{% cycle 'a', 'b' %}", "{{ forloop.index }}"}) + "{% else %}E{% endfor %}")
			}
		case 8:
			if depth > 0 {
				sb.WriteString("{% tablerow i in " + fuzzOperand(r) + " cols:" + fuzzOperand(r) + " %}" + fuzzTemplate(r, depth-1) + "{% endtablerow %}")
			}
		case 9:
			sb.WriteString("{% case " + fuzzOperand(r) + " %}{% when " + fuzzOperand(r) + ", " + fuzzOperand(r) + " %}w{% else %}o{% endcase %}")
		case 10:
			sb.WriteString("{% capture " + pick(r, []string{"c", "forloop", "st"}) + " %}" + fuzzTemplate(r, 0) + "{% endcapture %}")
		case 11:
			sb.WriteString(pick(r, []string{"{% cycle 'a', 'b' %}", "{% break %}", "{% continue %}", "{% include 'nofile' %}", "{% include nl %}", "{% unless " + fuzzCond(r) + " %}u{% endunless %}", "{% cycle n %}", "{% include st %}"}))
		case 12:
			sb.WriteString("{{- " + fuzzExpr(r) + " -}}")
		default:
			sb.WriteString("{{ " + fuzzOperand(r) + "[" + fuzzOperand(r) + "]." + pick(r, []string{"size", "first", "k", "A"}) + " }}")
		}
	}
	return sb.String()
}

func genFuzzText(r *rand.Rand, i int) J {
	return J{"kind": "render", "src": bs(fuzzTemplate(r, 2)), "env": []any{}, "weird": true, "nospec": true, "tm": "TraceC01", "strict": r.Intn(5) == 0}
}

// ---- mutants of the repository's own test templates -----------------------------

var harvested []string

var strLit = regexp.MustCompile("`[^`]*`|\"(?:[^\"\\\\\n]|\\\\.)*\"")

func harvest() []string {
	if harvested != nil {
		return harvested
	}
	root := os.Getenv("VERIF_REPO")
	if root == "" {
		root = "/repo"
	}
	seen := map[string]bool{}
	filepath.Walk(root, func(path string, info os.FileInfo, err error) error {
		if err != nil || info.IsDir() || !strings.HasSuffix(path, "_test.go") {
			return nil
		}
		data, err := os.ReadFile(path)
		if err != nil {
			return nil
		}
		for _, m := range strLit.FindAllString(string(data), -1) {
			var s string
			if m[0] == '`' {
				s = m[1 : len(m)-1]
			} else if u, err := strconv.Unquote(m); err == nil {
				s = u
			} else {
				continue
			}
			if (strings.Contains(s, "{{") || strings.Contains(s, "{%")) && len(s) < 600 && !seen[s] {
				seen[s] = true
				harvested = append(harvested, s)
			}
		}
		return nil
	})
	if len(harvested) == 0 {
		harvested = []string{"{{ x }}"}
	}
	return harvested
}

var tokenRe = regexp.MustCompile(`\{\{.*?\}\}|\{%.*?%\}|[^{]+|\{`)

func genMutant(r *rand.Rand, i int) J {
	src := pick(r, harvest())
	if i%4 != 0 {
		toks := tokenRe.FindAllString(src, -1)
		for k := 1 + r.Intn(2); k > 0 && len(toks) > 0; k-- {
			p := r.Intn(len(toks))
			switch r.Intn(7) {
			case 0:
				toks = append(toks[:p], toks[p+1:]...)
			case 1:
				toks = append(toks[:p], append([]string{toks[p]}, toks[p:]...)...)
			case 2:
				q := r.Intn(len(toks))
				toks[p], toks[q] = toks[q], toks[p]
			case 3:
				t := []byte(toks[p])
				if len(t) > 0 {
					const repl = "{}%-|:.,'\"[]()= 019"
					t[r.Intn(len(t))] = repl[r.Intn(len(repl))]
				}
				toks[p] = string(t)
			case 4:
				toks[p] = toks[p][:r.Intn(len(toks[p])+1)]
			case 5:
				toks[p] = strings.Replace(toks[p], " ", pick(r, []string{"", "\n", "  ", "-"}), 1)
			default:
				toks[p] = pick(r, []string{"{% endif %}", "{% else %}", "{% endfor %}", "{{", "%}", "{% raw %}", "{% comment %}", "{% if true %}", "{% for a in a %}"}) + toks[p]
			}
		}
		src = strings.Join(toks, "")
		if r.Intn(6) == 0 {
			src = src[:r.Intn(len(src)+1)]
		}
	}
	return J{"kind": "render", "src": bs(src), "env": []any{}, "weird": true, "testenv": true, "nospec": true, "tm": "TraceC01"}
}

func init() {
	generators["fuzztext"] = genFuzzText
	generators["mutants"] = genMutant
}

// weirdpairs enumerates (not samples) every ordered pair of the binding names under every binary construct.
var pairForms = []string{
	"{%% if %s contains %s %%}y{%% endif %%}", "{%% if %s == %s %%}y{%% endif %%}", "{%% if %s < %s %%}y{%% endif %%}", "{{ %s[%s] }}",
	"{{ %s | concat: %s | size }}", "{{ %s | default: %s }}", "{%% case %s %%}{%% when %s %%}w{%% endcase %%}", "{{ %s | append: %s }}",
	"{{ %s | plus: %s }}", "{{ %s | join: %s }}", "{{ %s | map: %s }}", "{{ %s | sort: %s }}", "{%% for i in %s limit: %s %%}{{ i }}{%% endfor %%}",
	"{{ %s | split: %s }}", "{{ %s | slice: %s }}", "{{ %s | truncate: %s }}", "{{ %s | divided_by: %s }}", "{{ %s | date: %s }}", "{{ %s | replace: %s, %[1]s }}",
	"{%% assign v = %s | uniq %%}{{ v | sort_natural: %s }}", "{%% tablerow i in %s cols: %s %%}{{ i }}{%% endtablerow %%}", "{{ (%s..%s) | first }}",
}

var pairNames = []string{"st", "pst", "nilp", "nils", "pn", "ps", "tm", "by", "ms", "mik", "mif", "af", "u8", "i64", "u64", "f32", "big", "neg0", "dr", "drnil", "drdr",
	"arr", "strs", "ints", "m", "e", "s", "u", "n", "z", "f", "t", "nl", "nested", "ptrs", "pstrs", "pstructs", "anyptrs", "mptr", "parr", "pmap", "st.C", "st.D", "arr[4]", "nested.a",
	"nstr", "emb", "nint", "nbool", "nslice", "nmap", "amnk", "msw"}

func genWeirdPairs(r *rand.Rand, i int) J {
	n := len(pairNames)
	total := n * n * len(pairForms)
	if i >= total {
		return nil
	}
	f := pairForms[i%len(pairForms)]
	a := pairNames[(i/len(pairForms))%n]
	b := pairNames[i/len(pairForms)/n]
	if strings.Contains(f, "..") && (a == "i64" || b == "i64" || a == "u64" || b == "u64" || a == "big" || b == "big") {
		return nil // a range the size of the 64-bit integers is allowed to take for ever
	}
	return J{"kind": "render", "src": bs(fmt.Sprintf(f, a, b)), "env": []any{}, "weird": true, "nospec": true, "tm": "TraceC01"}
}

func init() { generators["weirdpairs"] = genWeirdPairs }

// "weirdprops": every binding of the environment asked for a property - one it has, one it lacks, the Go name of a
// tagged field, the names the arrays and maps answer to - by dot, by subscript and through contains
var weirdPropNames = []string{"nosuch", "title", "T", "size", "first", "last", "X", "Y", "N", "k", "A", "Name", "Len", "String", "namedSlice", "embStr"}
var weirdPropForms = []string{"{{ %s.%s }}", "{{ %s[\"%s\"] }}", "{%% if %s contains \"%s\" %%}y{%% else %%}n{%% endif %%}", "{%% assign v = %s %%}{{ v.%s | default: 'd' }}"}
var weirdBindingNames []string

func genWeirdProps(r *rand.Rand, i int) J {
	if weirdBindingNames == nil {
		for k := range weirdEnv() {
			weirdBindingNames = append(weirdBindingNames, k)
		}
		sort.Strings(weirdBindingNames)
	}
	total := len(weirdBindingNames) * len(weirdPropNames) * len(weirdPropForms)
	if i >= total {
		return nil
	}
	f := weirdPropForms[i%len(weirdPropForms)]
	p := weirdPropNames[(i/len(weirdPropForms))%len(weirdPropNames)]
	a := weirdBindingNames[i/len(weirdPropForms)/len(weirdPropNames)]
	return J{"kind": "render", "src": bs(fmt.Sprintf(f, a, p)), "env": []any{}, "weird": true, "nospec": true, "tm": "TraceC01"}
}

func init() { generators["weirdprops"] = genWeirdProps }

// "scaling": every filter applied to something big - a range of 100000 integers, bound arrays of 100000 integers
// (distinct / all equal / strings), a text of 300 kB - alone and in two-filter chains.  The render has to come back
// within the deadline: time is proportional to what the template spells out, not to its square.
func genScaling(r *rand.Rand, i int) J {
	recvs := []string{"(1..100000)", "bigints", "bigsame", "bigstrs", "bigtext", "bigmaps"}
	filters := fuzzFilterNames
	n := len(recvs) * len(filters)
	// ranges too long ever to be walked: whatever takes a few items of them, or none, still comes back (walking them
	// whole is allowed to take its time: that is "proportional to the ranges the template spells out")
	huge := []string{
		"{{ (0..9223372036854775807) | first }}", "{{ (0..9223372036854775807) | size }}", "{{ (0..9223372036854775807) | last }}", "{{ (0..9223372036854775807) | join }}",
		"{{ (-9223372036854775807..9223372036854775807) | size }}", "{{ (-9223372036854775807..9223372036854775807) | reverse | first }}",
		"{% for i in (0..9223372036854775807) limit:2 %}{{ i }}{% endfor %}", "{% for i in (0..9223372036854775807) offset:5 limit:2 %}{{ i }}{% endfor %}",
		"{% for i in (0..9223372036854775807) reversed limit:2 %}{{ i }}{% endfor %}", "{% for i in (-9223372036854775807..9223372036854775807) limit:1 %}{{ forloop.length }}{% endfor %}",
		"{% tablerow i in (0..9223372036854775807) limit:3 cols:2 %}{{ i }}{% endtablerow %}", "{% for i in (0..9223372036854775807) %}{% break %}{% endfor %}",
		"{% assign r = (0..9223372036854775807) %}{{ r.first }}{{ r.size }}{{ r[5] }}", "{% if (0..9223372036854775807) contains 7 %}y{% endif %}",
		"{{ (0..9223372036854775807) }}X", "{% assign r = (0..9223372036854775807) %}{% if r == r %}eq{% endif %}",
	}
	if i >= 3*n {
		return J{"kind": "render", "src": bs(huge[(i-3*n)%len(huge)]), "env": []any{}, "nospec": true, "tm": "TraceC01"}
	}
	var src string
	switch {
	case i < n:
		src = fmt.Sprintf("{{ %s | %s | size }}", recvs[i%len(recvs)], filters[i/len(recvs)])
	case i < 2*n:
		j := i - n
		src = fmt.Sprintf("{{ %s | %s: 'k' | size }}", recvs[j%len(recvs)], filters[j/len(recvs)])
	default:
		j := i - 2*n
		src = fmt.Sprintf("{{ %s | %s | %s | size }}", recvs[j%len(recvs)], filters[(j/len(recvs))%len(filters)], filters[(j/7)%len(filters)])
	}
	return J{"kind": "render", "src": bs(src), "env": []any{}, "bigenv": true, "nospec": true, "tm": "TraceC01"}
}

func bigEnv() map[string]any {
	const n = 100000
	ints, same, strs, maps := make([]any, n), make([]any, n), make([]any, n), make([]any, n)
	for k := 0; k < n; k++ {
		ints[k], same[k], strs[k] = (k*7919)%n, 7, fmt.Sprintf("s%d", (k*7919)%n)
		maps[k] = map[string]any{"k": (k * 7919) % n}
	}
	// (maps and arrays have no hash: telling 100000 of them apart pairwise is not what the statement excludes)
	maps = maps[:3000]
	return map[string]any{"bigints": ints, "bigsame": same, "bigstrs": strs, "bigmaps": maps, "bigtext": strings.Repeat("lorem ipsum <b>dolor</b> & ", 12000)}
}

func init() { generators["scaling"] = genScaling }

// "deepexpr": (also lookup chains, below) one operator nested many levels deep - (((n op 1) op 1) ... op 1).  Evaluating it takes time proportional
// to its length, whatever the operator: each operand is evaluated once.
func genDeepExpr(r *rand.Rand, i int) J {
	ops := []string{"==", "!=", "<", ">", "<=", ">=", "and", "or", "contains"}
	depths := []int{12, 30, 48}
	if base := len(ops) * len(depths) * 2; i >= base {
		// a chain of property and index lookups many links long, from an undefined name, nil, and every binding of the
		// fuzzing environment (structs, typed maps, Drops, ordered maps ...): one lookup per link
		if weirdBindingNames == nil {
			for k := range weirdEnv() {
				weirdBindingNames = append(weirdBindingNames, k)
			}
			sort.Strings(weirdBindingNames)
		}
		recvs := append([]string{"nosuch", "nil"}, weirdBindingNames...)
		j := i - base
		if j >= len(recvs)*2*3 {
			return nil
		}
		recv, d, style := recvs[j%len(recvs)], []int{30, 48}[(j/len(recvs))%2], j/len(recvs)/2
		links := []string{".p", "[0]", ".first", "['k']", ".X", ".size", ".Next", ".Self", "[n]"}
		e := recv
		for k := 0; k < d; k++ {
			switch style {
			case 0:
				e += ".p"
			case 1:
				e += pick(r, links)
			default:
				e += pick(r, []string{".Next", ".Self", ".M", "[0]", ".k"})
			}
		}
		src := "{{ " + e + " }}{% if " + e + " %}y{% endif %}"
		return J{"kind": "render", "src": bs(src), "env": []any{}, "weird": true, "nospec": true, "tm": "TraceC01"}
	}
	op, d, form := ops[i%len(ops)], depths[(i/len(ops))%len(depths)], i/len(ops)/len(depths)
	e := pick(r, []string{"n", "5", "'a'", "nil"})
	for k := 0; k < d; k++ {
		e = "(" + e + " " + op + " " + pick(r, []string{"1", "n", "true", "'a'"}) + ")"
	}
	src := "{% if " + e + " %}y{% else %}n{% endif %}"
	if form == 1 {
		src = "{{ " + e + " }}{% assign v = " + e + " %}"
	}
	return J{"kind": "render", "src": bs(src), "env": []any{}, "weird": true, "nospec": true, "tm": "TraceC01"}
}

func init() { generators["deepexpr"] = genDeepExpr }
