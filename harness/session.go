package main

// Engine-level sessions for C02 (determinism), C03 (bindings and templates
// are not modified, renders are independent) and C04 (concurrency).

import (
	"bytes"
	"fmt"
	"github.com/osteele/liquid/render"
	"hash/fnv"
	"os"
	"os/exec"
	"reflect"
	"runtime"
	"sort"
	"strings"
	"sync"

	"github.com/osteele/liquid"
	yaml "gopkg.in/yaml.v2"
)

// snapshot converts any binding value to the abstract tagged form, looking
// through pointers, Drops and typed containers.
func snapshot(x any) J {
	if x == nil {
		return J{"k": "nil"}
	}
	switch v := x.(type) {
	case testDrop:
		return snapshot(v.v)
	case yaml.MapSlice:
		out := []any{}
		for _, it := range v {
			out = append(out, []any{bytesJSON(fmt.Sprint(it.Key)), snapshot(it.Value)})
		}
		return J{"k": "map", "v": out}
	case []byte:
		return J{"k": "str", "v": bytesJSON(string(v))}
	}
	rv := reflect.ValueOf(x)
	switch rv.Kind() {
	case reflect.Ptr, reflect.Interface:
		if rv.IsNil() {
			return J{"k": "nil"}
		}
		return snapshot(rv.Elem().Interface())
	case reflect.Bool:
		return J{"k": "bool", "v": rv.Bool()}
	case reflect.Int, reflect.Int8, reflect.Int16, reflect.Int32, reflect.Int64:
		if n := rv.Int(); n > 1<<31-1 || n < -(1<<31-1) {
			neg := n < 0
			return J{"k": "big", "neg": neg, "digits": bytesJSON(strings.TrimPrefix(fmt.Sprint(n), "-"))}
		}
		return J{"k": "int", "v": int(rv.Int())}
	case reflect.Uint, reflect.Uint8, reflect.Uint16, reflect.Uint32, reflect.Uint64:
		if n := rv.Uint(); n > 1<<31-1 {
			return J{"k": "big", "neg": false, "digits": bytesJSON(fmt.Sprint(n))}
		}
		return J{"k": "int", "v": int(rv.Uint())}
	case reflect.Float32, reflect.Float64:
		n, d := dyadic(rv.Float())
		return normFlt(n, d)
	case reflect.String:
		return J{"k": "str", "v": bytesJSON(rv.String())}
	case reflect.Slice, reflect.Array:
		out := make([]any, rv.Len())
		for i := range out {
			out[i] = snapshot(rv.Index(i).Interface())
		}
		return J{"k": "arr", "v": out}
	case reflect.Map:
		keys := []string{}
		vals := map[string]any{}
		seen := map[string]int{}
		for _, k := range rv.MapKeys() {
			seen[fmt.Sprint(k.Interface())]++
		}
		for _, k := range rv.MapKeys() {
			ks := fmt.Sprint(k.Interface())
			if seen[ks] > 1 { // 1, int64(1), 1.0 and "1" as keys of one map[any]any: told apart by their types
				ks += fmt.Sprintf("/%T", k.Interface())
			}
			keys = append(keys, ks)
			vals[ks] = rv.MapIndex(k).Interface()
		}
		sort.Strings(keys)
		out := []any{}
		for _, k := range keys {
			out = append(out, []any{bytesJSON(k), snapshot(vals[k])})
		}
		return J{"k": "map", "v": out}
	}
	return J{"k": "str", "v": bytesJSON(fmt.Sprintf("<%T>", x))}
}

// goSig is a fingerprint of a binding as a Go value: the types at every node (a Drop is not its value, a typed
// slice is not a generic one), every scalar, and for slices also what lies between their length and their capacity.
func goSig(x any, depth int) string {
	if x == nil {
		return "nil"
	}
	if depth > 12 {
		return "..."
	}
	if d, ok := x.(testDrop); ok {
		return "drop<" + goSig(d.v, depth+1) + ">"
	}
	rv := reflect.ValueOf(x)
	t := rv.Type().String()
	switch rv.Kind() {
	case reflect.Ptr:
		if rv.IsNil() {
			return t + "(nil)"
		}
		return "*" + goSig(rv.Elem().Interface(), depth+1)
	case reflect.Slice:
		if rv.IsNil() {
			return t + "(nil)"
		}
		full := rv.Slice(0, rv.Cap())
		parts := make([]string, full.Len())
		for i := range parts {
			parts[i] = goSig(full.Index(i).Interface(), depth+1)
		}
		return fmt.Sprintf("%s[%d/%d](%s)", t, rv.Len(), rv.Cap(), strings.Join(parts, ","))
	case reflect.Array:
		parts := make([]string, rv.Len())
		for i := range parts {
			parts[i] = goSig(rv.Index(i).Interface(), depth+1)
		}
		return t + "(" + strings.Join(parts, ",") + ")"
	case reflect.Map:
		if rv.IsNil() {
			return t + "(nil)"
		}
		parts := []string{}
		for _, k := range rv.MapKeys() {
			parts = append(parts, fmt.Sprintf("%v:%s", k.Interface(), goSig(rv.MapIndex(k).Interface(), depth+1)))
		}
		sort.Strings(parts)
		return t + "{" + strings.Join(parts, ",") + "}"
	case reflect.Struct:
		parts := []string{}
		for i := 0; i < rv.NumField(); i++ {
			if rv.Type().Field(i).IsExported() {
				parts = append(parts, rv.Type().Field(i).Name+":"+goSig(rv.Field(i).Interface(), depth+1))
			}
		}
		return t + "{" + strings.Join(parts, ",") + "}"
	case reflect.Func, reflect.Chan, reflect.UnsafePointer:
		return t
	}
	return fmt.Sprintf("%s=%v", t, x)
}

func envSig(m map[string]any) string {
	h := fnv.New64a()
	h.Write([]byte(goSig(m, 0)))
	return fmt.Sprintf("%016x", h.Sum64())
}

func snapshotEnv(m map[string]any) []any {
	keys := make([]string, 0, len(m))
	for k := range m {
		keys = append(keys, k)
	}
	sort.Strings(keys)
	out := []any{}
	for _, k := range keys {
		out = append(out, []any{bytesJSON(k), snapshot(m[k])})
	}
	return out
}

// morphInto edits dst in place until it holds what src holds, the way a caller reuses its bindings between renders:
// a map bound to the same name keeps its identity (emptied and refilled), so does a slice of the same length.
func morphInto(dst, src map[string]any) {
	for k := range dst {
		if _, ok := src[k]; !ok {
			delete(dst, k)
		}
	}
	for k, v := range src {
		switch sv := v.(type) {
		case map[string]any:
			dm, ok := dst[k].(map[string]any)
			if !ok {
				dm = map[string]any{}
				dst[k] = dm
			}
			for kk := range dm {
				delete(dm, kk)
			}
			for kk, vv := range sv {
				dm[kk] = vv
			}
		case []any:
			ds, ok := dst[k].([]any)
			if !ok || len(ds) != len(sv) {
				ds = make([]any, len(sv))
				dst[k] = ds
			}
			copy(ds, sv)
		default:
			dst[k] = v
		}
	}
}

// shuffled returns an equal map built in a different insertion order (and rebuilds nested non-string-keyed maps, with new key objects where the keys are pointers).
func shuffled(m map[string]any, salt int) map[string]any {
	m2 := map[string]any{}
	for k, v := range m {
		switch t := v.(type) {
		case map[int]any:
			c := make(map[int]any, len(t)+salt%7)
			for kk, vv := range t {
				c[kk] = vv
			}
			v = c
		case map[*string]any:
			// keys held by pointers: equal keys at new addresses, allocated in another order
			type ent struct {
				k string
				v any
			}
			es := []ent{}
			for kk, vv := range t {
				es = append(es, ent{*kk, vv})
			}
			sort.Slice(es, func(a, b int) bool { return es[a].k < es[b].k })
			c := make(map[*string]any, len(t))
			for _, i := range allocOrder(len(es)) {
				kk := es[i].k
				c[&kk] = es[i].v
			}
			v = c
		case map[any]any:
			c := make(map[any]any, len(t)+salt%7)
			type ent struct {
				k string
				v any
			}
			es := []ent{}
			for kk, vv := range t {
				if d, ok := kk.(*ptrDrop); ok {
					if ks, ok := d.v.(string); ok {
						es = append(es, ent{ks, vv})
						continue
					}
				}
				c[kk] = vv
			}
			sort.Slice(es, func(a, b int) bool { return es[a].k < es[b].k })
			for _, i := range allocOrder(len(es)) {
				c[&ptrDrop{es[i].k}] = es[i].v
			}
			v = c
		}
		m2[k] = v
	}
	m = m2
	keys := make([]string, 0, len(m))
	for k := range m {
		keys = append(keys, k)
	}
	sort.Strings(keys)
	out := make(map[string]any, len(m)+salt%5)
	for i := range keys {
		k := keys[(i*7+salt)%len(keys)]
		out[k] = m[k]
	}
	for _, k := range keys {
		out[k] = m[k]
	}
	return out
}

func runSession(c J) J {
	obs := cloneCase(c)
	progs := jarr(c, "templates")
	envsJ := jarr(c, "envs")
	reprs := jarr(c, "reprs")
	srcs := make([]string, len(progs))
	hoisted := map[string]any{}
	spell := spellFromJSON(c["spell"])
	pr := newPrinter(spell)
	// sources registered through ParseTemplateAndCache (no file of that name exists) - on every engine of the session
	type cachedSrc struct{ name, content string }
	var cacheSrcs []cachedSrc
	for _, fx := range jarr(c, "cache") {
		fa, _ := fx.([]any)
		if len(fa) != 2 {
			continue
		}
		content, err := pr.fileSource(fa)
		if err != nil {
			obs["outcome"] = "skip"
			obs["msg"] = err.Error()
			return obs
		}
		cacheSrcs = append(cacheSrcs, cachedSrc{bytesOf(fa[0]), content})
	}
	var cacheErr error
	newEngine := func() *liquid.Engine {
		e := liquid.NewEngine()
		registerExt(e)
		if spell.Raw != nil {
			e.Delims(spell.Raw[0], spell.Raw[1], spell.Raw[2], spell.Raw[3])
		}
		if jbool(c, "strict") {
			e.StrictVariables()
		}
		for _, cs := range cacheSrcs {
			cbuf := []byte(cs.content)
			_, err := e.ParseTemplateAndCache(cbuf, cs.name, 1)
			scribble(cbuf)
			if err != nil && cacheErr == nil {
				cacheErr = err
			}
		}
		return e
	}
	for i, p := range progs {
		s, err := pr.Template(p.([]any))
		if err != nil {
			obs["outcome"] = "skip"
			obs["msg"] = err.Error()
			return obs
		}
		srcs[i] = s
	}
	for name, v := range pr.hoisted {
		gv, err := realise(jobj(v), nil, name)
		if err != nil {
			obs["outcome"] = "skip"
			obs["msg"] = err.Error()
			return obs
		}
		hoisted[name] = gv
	}
	envs := make([]map[string]any, len(envsJ))
	envAbs := make([][]any, len(envsJ))
	for j, e := range envsJ {
		var r *Repr
		if j < len(reprs) {
			r = reprFromJSON(reprs[j])
		}
		m, err := realiseEnv(e.([]any), r)
		if err != nil {
			obs["outcome"] = "skip"
			obs["msg"] = err.Error()
			return obs
		}
		if m == nil && len(hoisted) > 0 {
			m = map[string]any{}
		}
		for k, v := range hoisted {
			m[k] = v
		}
		envs[j] = m
		envAbs[j] = snapshotEnv(m)
	}
	obs["texts"] = srcs
	eng := newEngine()
	if cacheErr != nil {
		obs["outcome"] = "skip"
		obs["msg"] = "cache entry does not parse: " + cacheErr.Error()
		return obs
	}
	tpls := make([]*liquid.Template, len(srcs))
	parseErr := make([]liquid.SourceError, len(srcs))
	for i, s := range srcs {
		if i%2 == 0 {
			tpls[i], parseErr[i] = parseScribbled(eng, s, "", 0)
		} else {
			tpls[i], parseErr[i] = eng.ParseString(s)
		}
	}
	ops := jarr(c, "ops")
	events := make([]any, len(ops))
	scratch := map[string]any{}
	runOp := func(i int, snap bool) {
		op := jobj(ops[i])
		t, b := jint(op, "t"), jint(op, "b")
		entry := jstr(op, "entry")
		bind := envs[b]
		if jbool(op, "shuffle") {
			bind = shuffled(bind, i)
		}
		if jbool(op, "morph") && envs[b] != nil {
			// the caller's own bindings object, edited in place since the last render
			morphInto(scratch, envs[b])
			bind = scratch
		}
		watched := envs[b]
		if jbool(op, "morph") && envs[b] != nil {
			watched = scratch
		}
		ev := J{"t": t, "b": b, "entry": entry, "i": i}
		if snap && i%5 == 0 {
			otherEngineNoise()
		}
		if snap {
			ev["before"] = snapshotEnv(watched)
			ev["beforesig"] = envSig(watched)
		}
		res := guard(func() result {
			e := eng
			if jstr(op, "fresh") == "engine" {
				e = newEngine()
			}
			tpl, perr := tpls[t], parseErr[t]
			if jstr(op, "fresh") != "" {
				if i%2 == 0 {
					tpl, perr = parseScribbled(e, srcs[t], "", 0)
				} else {
					tpl, perr = e.ParseString(srcs[t])
				}
			}
			switch entry {
			case "Render", "RenderString", "FRender":
				if perr != nil {
					return errResult("parse", perr, "")
				}
			}
			switch entry {
			case "Render":
				out, err := tpl.Render(bind)
				if err != nil {
					return errResult("render", err, "")
				}
				return result{Outcome: "ok", Out: out}
			case "RenderString":
				out, err := tpl.RenderString(bind)
				if err != nil {
					return errResult("render", err, "")
				}
				return result{Outcome: "ok", Out: []byte(out)}
			case "FRender":
				var buf bytes.Buffer
				if err := tpl.FRender(&buf, bind); err != nil {
					return errResult("render", err, "")
				}
				return result{Outcome: "ok", Out: buf.Bytes()}
			case "ParseAndRender":
				out, err := e.ParseAndRender([]byte(srcs[t]), bind)
				if err != nil {
					return errResult("render", err, "")
				}
				return result{Outcome: "ok", Out: out}
			case "ParseAndRenderString":
				out, err := e.ParseAndRenderString(srcs[t], bind)
				if err != nil {
					return errResult("render", err, "")
				}
				return result{Outcome: "ok", Out: []byte(out)}
			case "ParseAndFRender":
				var buf bytes.Buffer
				if err := e.ParseAndFRender(&buf, []byte(srcs[t]), bind); err != nil {
					return errResult("render", err, "")
				}
				return result{Outcome: "ok", Out: buf.Bytes()}
			case "CLI":
				return runCLI(srcs[t], bind, jbool(c, "strict"), i%2 == 1)
			}
			return result{Outcome: "error", Stage: "harness", Msg: "unknown entry " + entry}
		})
		if !jbool(c, "noref") || jbool(c, "addrcheck") {
			res = noAddress(srcs[t], res)
		}
		res.put(ev)
		if snap {
			ev["after"] = snapshotEnv(watched)
			ev["aftersig"] = envSig(watched)
		}
		events[i] = ev
	}
	n := jint(c, "concurrent")
	if n <= 1 {
		for i := range ops {
			runOp(i, true)
		}
	} else {
		if p := jint(c, "gomaxprocs"); p > 0 {
			defer runtime.GOMAXPROCS(runtime.GOMAXPROCS(p))
		}
		before := make([][]any, len(envs))
		beforeSig := make([]string, len(envs))
		for j := range envs {
			before[j] = snapshotEnv(envs[j])
			beforeSig[j] = envSig(envs[j])
		}
		var wg sync.WaitGroup
		start := make(chan struct{})
		// meanwhile other goroutines keep caching further templates on the same engine
		for w := 0; w < jint(c, "cachewriters"); w++ {
			wg.Add(1)
			go func(w int) {
				defer wg.Done()
				<-start
				for i := 0; i < 40; i++ {
					eng.ParseTemplateAndCache([]byte("cached"), fmt.Sprintf("zz_cache_%d_%d.liq", w, i), 1)
					// ... and register again, with the same text, the sources that the renders are including meanwhile
					for _, cs := range cacheSrcs {
						eng.ParseTemplateAndCache([]byte(cs.content), cs.name, 1)
					}
				}
			}(w)
		}
		cold := newEngine() // a configured engine that has not parsed anything yet: its first parses happen concurrently
		var coldMu sync.Mutex
		coldDiffs := []any{}
		for g := 0; g < n; g++ {
			wg.Add(1)
			go func(g int) {
				defer wg.Done()
				<-start
				// every goroutine parses every template of the pool on the cold engine (each starting somewhere else):
				// whatever a parse computes lazily is computed for the first time under contention.  A concurrent
				// parse must report what the same parse reported alone (on the session's engine, before the start).
				for k := range srcs {
					i := (g*7 + k) % len(srcs)
					func() {
						defer func() {
							if r := recover(); r != nil {
								coldMu.Lock()
								coldDiffs = append(coldDiffs, fmt.Sprintf("template %d: parse panicked: %v", i, r))
								coldMu.Unlock()
							}
						}()
						tpl, err := cold.ParseString(srcs[i])
						seqMsg, conMsg := "", ""
						if parseErr[i] != nil {
							seqMsg = parseErr[i].Error()
						}
						if err != nil {
							conMsg = err.Error()
						}
						if seqMsg != conMsg {
							coldMu.Lock()
							coldDiffs = append(coldDiffs, fmt.Sprintf("template %d: alone %q, concurrently %q", i, seqMsg, conMsg))
							coldMu.Unlock()
						}
						if err == nil && k == 0 {
							tpl.RenderString(envs[g%len(envs)])
						}
					}()
				}
				for i := g; i < len(ops); i += n {
					runOp(i, false)
				}
			}(g)
		}
		close(start)
		wg.Wait()
		obs["colddiffs"] = coldDiffs
		for i := range ops {
			ev := events[i].(J)
			b := ev["b"].(int)
			ev["before"] = before[b]
			ev["after"] = snapshotEnv(envs[b])
			ev["beforesig"] = beforeSig[b]
			ev["aftersig"] = envSig(envs[b])
		}
	}
	obs["events"] = events
	obs["envabs"] = func() []any {
		out := make([]any, len(envAbs))
		for i, e := range envAbs {
			out[i] = e
		}
		return out
	}()
	obs["outcome"] = "ok"
	return obs
}

// otherEngineNoise configures and uses another engine of the process: its filters, tags, blocks, delimiters and
// strictness are its own - nothing of it may show in what the session's engine renders.
func otherEngineNoise() {
	o := liquid.NewEngine()
	o.RegisterFilter("upcase", func(s string) string { return "<" + s + ">" })
	o.RegisterFilter("size", func(v any) int { return -1 })
	o.RegisterFilter("join", func(a []any, sep func(string) string) string { return "J" })
	o.RegisterFilter("plus", func(a, b int) int { return 0 })
	o.RegisterFilter("lqh_other", func(s string) string { return s })
	o.RegisterTag("assign", func(c render.Context) (string, error) { return "ASSIGN", nil })
	o.RegisterTag("lqh_other_tag", func(c render.Context) (string, error) { return "T", nil })
	o.RegisterBlock("lqh_other_block", func(c render.Context) (string, error) { return c.InnerString() })
	o.Delims("<<", ">>", "<%", "%>")
	o.StrictVariables()
	func() {
		defer func() { recover() }()
		o.ParseAndRenderString(`<< "x" | upcase >><% assign q = 1 %><% lqh_other_block %>b<% endlqh_other_block %><< undefined >>`, map[string]any{})
	}()
}

// runCLI renders through the command-line tool (string bindings only, via --env).
// The template arrives on standard input or, every other time, as the FILE argument.
func runCLI(src string, bind map[string]any, strict, asFile bool) result {
	cli := os.Getenv("LQ_CLI")
	if cli == "" {
		return result{Outcome: "error", Stage: "harness", Msg: "LQ_CLI not set"}
	}
	args := []string{"--env"}
	if strict {
		args = append(args, "--strict")
	}
	if asFile {
		f, err := os.CreateTemp("", "lqhcli*.liquid")
		if err != nil {
			return result{Outcome: "error", Stage: "harness", Msg: err.Error()}
		}
		defer os.Remove(f.Name())
		f.WriteString(src)
		f.Close()
		args = append(args, f.Name())
	}
	cmd := exec.Command(cli, args...)
	cmd.Env = []string{}
	for k, v := range bind {
		s, ok := v.(string)
		if !ok || strings.ContainsAny(k, "=\x00") || strings.Contains(s, "\x00") {
			return result{Outcome: "error", Stage: "harness", Msg: "binding not expressible as an environment variable"}
		}
		cmd.Env = append(cmd.Env, k+"="+s)
	}
	if !asFile {
		cmd.Stdin = strings.NewReader(src)
	}
	var out, errb bytes.Buffer
	cmd.Stdout, cmd.Stderr = &out, &errb
	if err := cmd.Run(); err != nil {
		if strings.Contains(errb.String(), "panic") || strings.Contains(errb.String(), "goroutine ") {
			return result{Outcome: "panic", PanicVal: truncate(errb.String(), 300)}
		}
		return result{Outcome: "error", Stage: "render", IsSrcErr: true, Msg: truncate(strings.TrimSuffix(errb.String(), "\n"), 300)}
	}
	return result{Outcome: "ok", Out: out.Bytes()}
}

func init() { kinds["session"] = runSession }
