package main

// Wire codec: the tagged JSON values of the specification (DESIGN.md §3.3)
// <-> Go values, in a chosen Go representation (the "realiser" of C18).

import (
	"encoding/json"
	"fmt"
	"math"
	"math/big"
	"math/rand"
	"reflect"
	"sort"
	"strconv"
	"strings"
	"sync/atomic"

	"github.com/osteele/liquid"
	"github.com/osteele/liquid/values"
	yaml "gopkg.in/yaml.v2"
)

// J is a decoded JSON object.
type J = map[string]any

func jstr(m J, k string) string {
	if v, ok := m[k].(string); ok {
		return v
	}
	return ""
}

func jbool(m J, k string) bool {
	v, _ := m[k].(bool)
	return v
}

func jint(m J, k string) int {
	switch v := m[k].(type) {
	case int:
		return v
	case float64:
		return int(v)
	case json.Number:
		n, _ := v.Int64()
		return int(n)
	}
	return 0
}

func jarr(m J, k string) []any {
	v, _ := m[k].([]any)
	return v
}

func jobj(x any) J {
	m, _ := x.(J)
	return m
}

func toInt(x any) int {
	switch v := x.(type) {
	case float64:
		return int(v)
	case json.Number:
		n, _ := v.Int64()
		return int(n)
	case int:
		return v
	}
	return 0
}

// bytesOf converts a JSON array of byte values to a string.
func bytesOf(x any) string {
	a, _ := x.([]any)
	b := make([]byte, len(a))
	for i, e := range a {
		b[i] = byte(toInt(e))
	}
	return string(b)
}

func bytesJSON(s string) []any {
	out := make([]any, len(s))
	for i := 0; i < len(s); i++ {
		out[i] = int(s[i])
	}
	return out
}

// ---- representations -------------------------------------------------------

// Repr selects how an abstract value is realised as a Go value.  The zero
// Repr is the generic representation (int, float64, string, []any,
// map[string]any).  Hints are looked up by the value's path from the binding
// name, e.g. "a", "a/0", "a/k".
type Repr struct {
	hints map[string]string
	// with the hint "@share", equal arrays and maps of one environment are one Go value, reachable along several paths
	// (bindings are graphs, not trees: a page object listed in two collections)
	shared map[string]any
	// arrays made under @share, for the ones that begin like them
	sharedArrs []sharedArr
}

func (r *Repr) hint(path string) string {
	if r == nil || r.hints == nil {
		return ""
	}
	return r.hints[path]
}

func reprFromJSON(x any) *Repr {
	m := jobj(x)
	if m == nil {
		return nil
	}
	r := &Repr{hints: map[string]string{}}
	for k, v := range m {
		if s, ok := v.(string); ok {
			r.hints[k] = s
		}
	}
	return r
}

// testDrop is a Drop yielding a fixed value.
// lqAcct: a record as an embedding program holds it - tagged fields, one method on the value, one on the pointer
// (the latter exists only when the binding is a pointer)
type lqAcct struct {
	Name string `liquid:"name"`
	N    int    `liquid:"n"`
}

func (a lqAcct) Label() string { return "L:" + a.Name }
func (a *lqAcct) Total() int   { return 2 * a.N }

type sharedArr struct {
	elems []string
	slice []any
}

var indirectBuilds atomic.Int64

// allocOrder: the indices 0..n-1, rotated and (every other time) reversed by a count of the calls
func allocOrder(n int) []int {
	b := int(indirectBuilds.Add(1))
	order := make([]int, n)
	if n == 0 {
		return order
	}
	for i := range order {
		j := (i + b) % n
		if b%2 == 1 {
			j = n - 1 - j
		}
		order[i] = j
	}
	return order
}

// ptrDrop: a Drop implemented on a pointer type (usable as a map key by identity)
type ptrDrop struct{ v any }

func (d *ptrDrop) ToLiquid() any { return d.v }

type testDrop struct{ v any }

func (d testDrop) ToLiquid() any { return d.v }

var _ liquid.Drop = testDrop{}

// realise builds the Go value for the tagged JSON value v.
func realise(v J, r *Repr, path string) (any, error) {
	h := r.hint(path)
	if k := jstr(v, "k"); r != nil && r.hints["@share"] != "" && (k == "arr" || k == "map") {
		if r.shared == nil {
			r.shared = map[string]any{}
		}
		key, _ := json.Marshal(v)
		if x, ok := r.shared[string(key)]; ok {
			return x, nil
		}
		// an array that is the beginning of one already made is a slice of it: same storage, shorter length (a list
		// and its first page)
		if k == "arr" {
			elems := jarr(v, "v")
			for _, prev := range r.sharedArrs {
				if len(elems) < len(prev.elems) && len(elems) > 0 {
					same := true
					for i := range elems {
						a, _ := json.Marshal(elems[i])
						if string(a) != prev.elems[i] {
							same = false
							break
						}
					}
					if same {
						x := prev.slice[:len(elems)]
						r.shared[string(key)] = x
						return x, nil
					}
				}
			}
		}
		x, err := realiseBase(v, r, path, "")
		if err != nil {
			return nil, err
		}
		if s, ok := x.([]any); ok && len(s) == 0 {
			x = []any{} // (all empty slices made this way have one and the same address)
		}
		if s, ok := x.([]any); ok && len(s) > 0 {
			es := make([]string, len(s))
			for i, e := range jarr(v, "v") {
				b, _ := json.Marshal(e)
				es[i] = string(b)
			}
			r.sharedArrs = append(r.sharedArrs, sharedArr{elems: es, slice: s})
		}
		r.shared[string(key)] = x
		return x, nil
	}
	base, err := realiseBase(v, r, path, h)
	if err != nil {
		return nil, err
	}
	switch h {
	case "drop":
		return testDrop{base}, nil
	case "dropdrop":
		return testDrop{testDrop{base}}, nil
	case "ptrptr": // a pointer to a pointer to the value
		switch b := base.(type) {
		case int:
			p := &b
			return &p, nil
		case string:
			p := &b
			return &p, nil
		case []any:
			p := &b
			return &p, nil
		case map[string]any:
			p := &b
			return &p, nil
		}
		return base, nil
	case "ptrmapslice": // a pointer to an ordered map (realiseBase has built the MapSlice)
		if ms, ok := base.(yaml.MapSlice); ok {
			return &ms, nil
		}
		return base, nil
	case "ptr":
		switch b := base.(type) {
		case int:
			return &b, nil
		case string:
			return &b, nil
		case float64:
			return &b, nil
		case bool:
			return &b, nil
		case []any:
			return &b, nil
		case map[string]any:
			return &b, nil
		}
		return base, nil
	}
	return base, nil
}

func realiseBase(v J, r *Repr, path, h string) (any, error) {
	switch jstr(v, "k") {
	case "nil":
		if h == "nilptr" {
			var p *int
			return p, nil
		}
		return nil, nil
	case "bool":
		return jbool(v, "v"), nil
	case "int":
		n := jint(v, "v")
		switch h {
		case "int8":
			return int8(n), nil
		case "int16":
			return int16(n), nil
		case "int32":
			return int32(n), nil
		case "int64":
			return int64(n), nil
		case "uint":
			return uint(n), nil
		case "uint8":
			return uint8(n), nil
		case "uint16":
			return uint16(n), nil
		case "uint32":
			return uint32(n), nil
		case "uint64":
			return uint64(n), nil
		case "float64":
			return float64(n), nil
		case "float32":
			return float32(n), nil
		}
		return n, nil
	case "big":
		// an integer beyond 32 bits: the narrowest 64-bit Go type that holds it
		digits := bytesOf(v["digits"])
		if h == "float64" || h == "float32" {
			// (only where the float is exactly that whole number)
			sign := ""
			if jbool(v, "neg") {
				sign = "-"
			}
			bf, _, err := big.ParseFloat(sign+digits, 10, 200, big.ToNearestEven)
			if err != nil {
				return nil, err
			}
			if h == "float32" {
				f, acc := bf.Float32()
				if acc != big.Exact {
					return nil, fmt.Errorf("%s is not exactly a float32", digits)
				}
				return f, nil
			}
			f, acc := bf.Float64()
			if acc != big.Exact {
				return nil, fmt.Errorf("%s is not exactly a float64", digits)
			}
			return f, nil
		}
		if jbool(v, "neg") {
			n, err := strconv.ParseInt("-"+digits, 10, 64)
			if err != nil {
				return nil, err
			}
			return n, nil
		}
		if n, err := strconv.ParseInt(digits, 10, 64); err == nil && h != "uint64" {
			return n, nil
		}
		n, err := strconv.ParseUint(digits, 10, 64)
		if err != nil {
			return nil, err
		}
		return n, nil
	case "flt":
		f := float64(jint(v, "n")) / float64(jint(v, "d"))
		if h == "float32" {
			return float32(f), nil
		}
		return f, nil
	case "str":
		s := bytesOf(v["v"])
		if h == "bytes" {
			return []byte(s), nil
		}
		return s, nil
	case "arr":
		items := jarr(v, "v")
		// spare capacity, as a slice grown by append has: a filter that appends in place would write into it
		out := make([]any, len(items), len(items)+3)
		for i, it := range items {
			e, err := realise(jobj(it), r, path+"/"+strconv.Itoa(i))
			if err != nil {
				return nil, err
			}
			out[i] = e
		}
		switch h {
		case "nilslice":
			if len(out) == 0 {
				return []any(nil), nil
			}
		case "range": // consecutive integers as a range value; no integers: a range whose end lies well below its start
			if len(out) == 0 {
				return values.NewRange(5, 1), nil
			}
			for i, e := range out {
				n, ok := e.(int)
				if !ok || n != out[0].(int)+i {
					return nil, fmt.Errorf("repr range: element %d is %v", i, e)
				}
			}
			return values.NewRange(out[0].(int), out[len(out)-1].(int)), nil
		case "ints":
			t := make([]int, len(out))
			for i, e := range out {
				n, ok := e.(int)
				if !ok {
					return nil, fmt.Errorf("repr ints: element %d is %T", i, e)
				}
				t[i] = n
			}
			return t, nil
		case "int16s", "int32s", "uints", "uint16s", "uint32s", "uint64s", "float32s":
			// typed slices of the remaining widths (never []uint8, which is []byte: text, not an array)
			elem := map[string]reflect.Type{"int16s": reflect.TypeOf(int16(0)), "int32s": reflect.TypeOf(int32(0)), "uints": reflect.TypeOf(uint(0)),
				"uint16s": reflect.TypeOf(uint16(0)), "uint32s": reflect.TypeOf(uint32(0)), "uint64s": reflect.TypeOf(uint64(0)), "float32s": reflect.TypeOf(float32(0))}[h]
			t := reflect.MakeSlice(reflect.SliceOf(elem), len(out), len(out)+2)
			for i, e := range out {
				n, ok := e.(int)
				if !ok || (n < 0 && h[0] == 'u') || n > 32767 || n < -32768 {
					return nil, fmt.Errorf("repr %s: element %d is %v", h, i, e)
				}
				t.Index(i).Set(reflect.ValueOf(n).Convert(elem))
			}
			return t.Interface(), nil
		case "int64s", "int8s", "float64s":
			i64, i8, f64 := make([]int64, len(out)), make([]int8, len(out)), make([]float64, len(out))
			for i, e := range out {
				n, ok := e.(int)
				if !ok {
					return nil, fmt.Errorf("repr %s: element %d is %T", h, i, e)
				}
				i64[i], i8[i], f64[i] = int64(n), int8(n), float64(n)
			}
			switch h {
			case "int64s":
				return i64, nil
			case "int8s":
				return i8, nil
			}
			return f64, nil
		case "strings":
			t := make([]string, len(out))
			for i, e := range out {
				s, ok := e.(string)
				if !ok {
					return nil, fmt.Errorf("repr strings: element %d is %T", i, e)
				}
				t[i] = s
			}
			return t, nil
		case "floats":
			t := make([]float64, len(out))
			for i, e := range out {
				switch n := e.(type) {
				case float64:
					t[i] = n
				default:
					return nil, fmt.Errorf("repr floats: element %d is %T", i, e)
				}
			}
			return t, nil
		case "array": // a fixed-size Go array of that many elements
			av := reflect.New(reflect.ArrayOf(len(out), reflect.TypeOf((*any)(nil)).Elem())).Elem()
			for i, e := range out {
				if e != nil {
					av.Index(i).Set(reflect.ValueOf(e))
				}
			}
			return av.Interface(), nil
		case "array3":
			if len(out) != 3 {
				return nil, fmt.Errorf("repr array3: length %d", len(out))
			}
			return [3]any{out[0], out[1], out[2]}, nil
		case "array2":
			if len(out) != 2 {
				return nil, fmt.Errorf("repr array2: length %d", len(out))
			}
			return [2]any{out[0], out[1]}, nil
		case "msvalues", "mssize":
			// an ordered map whose values, in order, are the elements ("mssize": its last key is called size - as an
			// array it still is its values, that many of them)
			ms := yaml.MapSlice{}
			for i, e := range out {
				key := fmt.Sprintf("k%d", i)
				if h == "mssize" && i == len(out)-1 {
					key = "size"
				}
				ms = append(ms, yaml.MapItem{Key: key, Value: e})
			}
			return ms, nil
		case "anyslices": // [][]any: the element type is itself a slice type
			t := make([][]any, len(out))
			for i, e := range out {
				sl, ok := e.([]any)
				if !ok {
					return nil, fmt.Errorf("repr anyslices: element %d is %T", i, e)
				}
				t[i] = sl
			}
			return t, nil
		case "maps":
			t := make([]map[string]any, len(out))
			for i, e := range out {
				m, ok := e.(map[string]any)
				if !ok {
					return nil, fmt.Errorf("repr maps: element %d is %T", i, e)
				}
				t[i] = m
			}
			return t, nil
		}
		return out, nil
	case "map":
		pairs := jarr(v, "v")
		out := make(map[string]any, len(pairs))
		keys := make([]string, 0, len(pairs))
		for _, p := range pairs {
			pa, _ := p.([]any)
			if len(pa) != 2 {
				return nil, fmt.Errorf("bad map pair")
			}
			k := bytesOf(pa[0])
			e, err := realise(jobj(pa[1]), r, path+"/"+k)
			if err != nil {
				return nil, err
			}
			out[k] = e
			keys = append(keys, k)
		}
		switch h {
		case "nilmap":
			if len(out) == 0 {
				return map[string]any(nil), nil
			}
		case "mapslice", "ptrmapslice":
			ms := yaml.MapSlice{}
			for _, k := range keys {
				ms = append(ms, yaml.MapItem{Key: k, Value: out[k]})
			}
			return ms, nil
		case "mapint":
			t := map[string]int{}
			for k, e := range out {
				n, ok := e.(int)
				if !ok {
					return nil, fmt.Errorf("repr mapint: %q is %T", k, e)
				}
				t[k] = n
			}
			return t, nil
		case "mapstr":
			t := map[string]string{}
			for k, e := range out {
				s, ok := e.(string)
				if !ok {
					return nil, fmt.Errorf("repr mapstr: %q is %T", k, e)
				}
				t[k] = s
			}
			return t, nil
		case "acct", "acctptr": // a named Go struct with methods on the value and on the pointer
			a := lqAcct{}
			if s, ok := out["name"].(string); ok {
				a.Name = s
			}
			if n, ok := out["n"].(int); ok {
				a.N = n
			}
			if h == "acctptr" {
				return &a, nil
			}
			return a, nil
		case "struct", "structptr": // a Go struct whose fields carry the keys as `liquid:"key"` tags
			sort.Strings(keys)
			fields := make([]reflect.StructField, len(keys))
			for i, k := range keys {
				if strings.ContainsAny(k, "\"\\`") {
					return nil, fmt.Errorf("repr struct: key %q", k)
				}
				fields[i] = reflect.StructField{Name: fmt.Sprintf("F%d", i), Type: reflect.TypeOf((*any)(nil)).Elem(),
					Tag: reflect.StructTag(fmt.Sprintf(`liquid:"%s"`, k))}
			}
			sv := reflect.New(reflect.StructOf(fields)).Elem()
			for i, k := range keys {
				if out[k] != nil {
					sv.Field(i).Set(reflect.ValueOf(out[k]))
				}
			}
			if h == "structptr" {
				return sv.Addr().Interface(), nil
			}
			return sv.Interface(), nil
		case "mixedkeys": // keys of several kinds, named by a prefix: "i:1" the integer 1 ("l:1", "u:1", "f:1": as int64, uint8, float64), "s:1" the text "1", "b:true" the boolean
			t := map[any]any{}
			for _, k := range keys {
				switch {
				case strings.HasPrefix(k, "i:"):
					n, err := strconv.Atoi(k[2:])
					if err != nil {
						return nil, fmt.Errorf("repr mixedkeys: %q", k)
					}
					t[n] = out[k]
				case strings.HasPrefix(k, "l:"), strings.HasPrefix(k, "u:"), strings.HasPrefix(k, "f:"):
					// the same number as an int64, a uint8, a float64 key: different keys of one map
					n, err := strconv.Atoi(k[2:])
					if err != nil {
						return nil, fmt.Errorf("repr mixedkeys: %q", k)
					}
					switch k[0] {
					case 'l':
						t[int64(n)] = out[k]
					case 'u':
						t[uint8(n)] = out[k]
					default:
						t[float64(n)] = out[k]
					}
				case strings.HasPrefix(k, "b:"):
					t[k[2:] == "true"] = out[k]
				case strings.HasPrefix(k, "s:"):
					t[k[2:]] = out[k]
				default:
					t[k] = out[k]
				}
			}
			return t, nil
		case "ptrkeys", "dropkeys": // keys held indirectly: pointers to the strings / Drops (on a pointer type) yielding them
			// the keys are allocated in an order that changes with every map built, so that their addresses are
			// not in the order of what they stand for (nor in the same order in two builds of the same map)
			order := allocOrder(len(keys))
			if h == "ptrkeys" {
				t := map[*string]any{}
				ptrs := make([]*string, len(keys))
				for _, i := range order {
					kk := keys[i]
					ptrs[i] = &kk
				}
				for i, k := range keys {
					t[ptrs[i]] = out[k]
				}
				return t, nil
			}
			t := map[any]any{}
			ptrs := make([]*ptrDrop, len(keys))
			for _, i := range order {
				ptrs[i] = &ptrDrop{keys[i]}
			}
			for i, k := range keys {
				t[ptrs[i]] = out[k]
			}
			return t, nil
		case "anystrkeys": // the same string keys in a map[any]any, as a YAML decoder produces
			t := map[any]any{}
			for k, e := range out {
				t[k] = e
			}
			return t, nil
		case "intkeys", "anykeys":
			// the same entries under integer keys (the keys spell integers), as YAML decoders produce
			ti := map[int]any{}
			ta := map[any]any{}
			for _, k := range keys {
				n, err := strconv.Atoi(k)
				if err != nil {
					return nil, fmt.Errorf("repr intkeys: key %q", k)
				}
				ti[n] = out[k]
				ta[n] = out[k]
			}
			if h == "intkeys" {
				return ti, nil
			}
			return ta, nil
		case "shuffled":
			// same contents, built in reverse insertion order (C02)
			t := make(map[string]any, len(out))
			sort.Sort(sort.Reverse(sort.StringSlice(keys)))
			for _, k := range keys {
				t[k] = out[k]
			}
			return t, nil
		}
		return out, nil
	case "range":
		return values.NewRange(jint(v, "a"), jint(v, "b")), nil
	}
	return nil, fmt.Errorf("unknown value kind %q", jstr(v, "k"))
}

// autoRepr draws a representation for every node of a binding environment, within what C18 names: Drops anywhere,
// pointers where a variable or a property lookup reaches them, numeric widths that hold the value exactly, typed
// slices and fixed arrays for homogeneous arrays, string-keyed typed maps for homogeneous maps.
func autoRepr(pairs []any, r *rand.Rand) J {
	if r.Intn(5) == 0 {
		return J{"@share": "1"} // equal arrays / maps as one shared Go value
	}
	hints := J{}
	// (the statement names printing, comparison and arithmetic for the numeric widths - not loop modifiers and range
	// endpoints, for which the generators use the variables i0..i3: those keep their width)
	loopInts := map[string]bool{"i0": true, "i1": true, "i2": true, "i3": true}
	var walk func(v J, path string, viaLookup bool)
	walk = func(v J, path string, viaLookup bool) {
		var choices []string
		switch jstr(v, "k") {
		case "int":
			if loopInts[path] {
				break
			}
			n := jint(v, "v")
			choices = []string{"int64", "int32", "int16"}
			if n >= 0 {
				choices = append(choices, "uint", "uint16", "uint32", "uint64")
			}
			if n >= -128 && n <= 127 {
				choices = append(choices, "int8")
			}
			if n >= 0 && n <= 255 {
				choices = append(choices, "uint8")
			}
			if n > 32767 || n < -32768 {
				choices = []string{"int64"}
			}
		case "flt":
			f := float64(jint(v, "n")) / float64(jint(v, "d"))
			if float64(float32(f)) == f {
				choices = []string{"float32"}
			}
		case "arr":
			items := jarr(v, "v")
			allInt, allStr, nonneg := len(items) > 0, len(items) > 0, true
			for _, it := range items {
				e := jobj(it)
				if jstr(e, "k") != "int" || jint(e, "v") > 32767 || jint(e, "v") < -32768 {
					allInt = false
				} else if jint(e, "v") < 0 {
					nonneg = false
				}
				if jstr(e, "k") != "str" {
					allStr = false
				}
			}
			switch {
			case allInt && r.Intn(2) == 0:
				c := []string{"ints", "int64s", "int32s", "int16s", "float64s"}
				if nonneg {
					c = append(c, "uints", "uint16s", "uint32s", "uint64s")
				}
				hints[path] = pick(r, c)
				return
			case allStr && r.Intn(2) == 0:
				hints[path] = "strings"
				return
			}
			for i, it := range items {
				walk(jobj(it), path+"/"+strconv.Itoa(i), false)
			}
			switch len(items) {
			case 2:
				choices = []string{"array2"}
			case 3:
				choices = []string{"array3"}
			default:
				if len(items) > 0 {
					choices = []string{"array"}
				}
			}
		case "map":
			ps := jarr(v, "v")
			allInt, allStr := len(ps) > 0, len(ps) > 0
			for _, p := range ps {
				e := jobj(p.([]any)[1])
				if jstr(e, "k") != "int" {
					allInt = false
				}
				if jstr(e, "k") != "str" {
					allStr = false
				}
			}
			switch {
			case allInt && r.Intn(2) == 0:
				hints[path] = "mapint"
				return
			case allStr && r.Intn(2) == 0:
				hints[path] = "mapstr"
				return
			}
			for _, p := range ps {
				pa := p.([]any)
				// (a pointer is what it points to where a variable or a property lookup reaches it; inside a map that is
				// itself an element, whole-map operations - uniq, == - would meet the pointer without a lookup)
				walk(jobj(pa[1]), path+"/"+bytesOf(pa[0]), !strings.Contains(path, "/"))
			}
		}
		choices = append(choices, "drop")
		if viaLookup {
			choices = append(choices, "ptr")
		}
		if r.Intn(2) == 0 {
			hints[path] = pick(r, choices)
		}
	}
	for _, p := range pairs {
		pa, _ := p.([]any)
		if len(pa) == 2 {
			walk(jobj(pa[1]), bytesOf(pa[0]), true)
		}
	}
	return hints
}

// realiseEnv builds the binding map from [[name, value], ...].
// No bindings at all is realised as a nil map, which the API accepts.
func realiseEnv(pairs []any, r *Repr) (map[string]any, error) {
	if len(pairs) == 0 {
		return nil, nil
	}
	out := map[string]any{}
	for _, p := range pairs {
		pa, _ := p.([]any)
		if len(pa) != 2 {
			return nil, fmt.Errorf("bad env pair")
		}
		name := bytesOf(pa[0])
		v, err := realise(jobj(pa[1]), r, name)
		if err != nil {
			return nil, err
		}
		out[name] = v
	}
	return out, nil
}

// abstractOf maps a Go value (generic representation) back to tagged JSON;
// used by drivers that generate values on the Go side.
func abstractOf(x any) J {
	switch v := x.(type) {
	case nil:
		return J{"k": "nil"}
	case bool:
		return J{"k": "bool", "v": v}
	case int:
		return J{"k": "int", "v": v}
	case float64:
		n, d := dyadic(v)
		return J{"k": "flt", "n": n, "d": d}
	case string:
		return J{"k": "str", "v": bytesJSON(v)}
	case []any:
		out := make([]any, len(v))
		for i, e := range v {
			out[i] = abstractOf(e)
		}
		return J{"k": "arr", "v": out}
	case map[string]any:
		keys := make([]string, 0, len(v))
		for k := range v {
			keys = append(keys, k)
		}
		sort.Strings(keys)
		out := make([]any, len(keys))
		for i, k := range keys {
			out[i] = []any{bytesJSON(k), abstractOf(v[k])}
		}
		return J{"k": "map", "v": out}
	}
	panic(fmt.Sprintf("abstractOf: %T", x))
}

// dyadic returns n, d with f == n/d exactly, d a power of two.
func dyadic(f float64) (int, int) {
	d := 1
	for f != math.Trunc(f) && d < 1<<20 {
		f *= 2
		d *= 2
	}
	return int(f), d
}
