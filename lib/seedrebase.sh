#!/bin/sh
# seedrebase.sh <worktree> : move a seeded-change worktree to /repo's current HEAD and re-apply its patch
wt=$1; cd $wt || exit 2
git apply -R PATCH.diff 2>/dev/null
git checkout -q --detach main 2>&1 | tail -1
git apply PATCH.diff && echo "rebased $(git log --oneline -1 | cut -c1-60)"
