"""Self-test of the verification machinery (no verdict on /repo)."""
import json
import os
import shutil
import sys
import tempfile

import vcheck
from props import mc_cfg, engine_cfg, C13_INV


def expect_violation(scratch, module, cfg, invariant, what):
    res = vcheck.run_tlc(scratch, module, cfg, workers=8, timeout=900, heap="8g")
    names = invariant if isinstance(invariant, (list, tuple)) else [invariant]
    ok = res.violation is not None and any(n in (res.violation + res.raw_tail) for n in names)
    print("%-70s %s" % (what, "counterexample found" if ok else "NOT DETECTED"))
    return ok


def main():
    scratch = tempfile.mkdtemp(prefix="selftest_")
    ok = True
    try:
        # --- spec side: policies of the pinned commit / plausible defects
        ok &= expect_violation(scratch, "MC_C13", mc_cfg({"N": 3, "Policy": '"pinned"', "Bits": "FALSE"}, C13_INV),
                               ["FacingTextLaw", "BufferIsLastWrite"], "C13 trim writer that appends a trimmed write to the buffered one")
        ok &= expect_violation(scratch, "MC_C20", mc_cfg({"FlushPolicy": '"panic"'}, ["NeverPanics", "AcceptedIsPrefix"]),
                               "NeverPanics", "C20 flush error that panics")
        ok &= expect_violation(scratch, "MC_C07", mc_cfg({"D": 1, "WrapPolicy": '"pathonly"'}, ["ErrLocated"]),
                               "ErrLocated", "C07 error re-wrapped with the outer block's line when no path is given")
        ok &= expect_violation(scratch, "MC_Engine", engine_cfg(pol="NoCopyPol"), "BindingsImmutable",
                               "C03 render that writes into the caller's map (no copy)")
        ok &= expect_violation(scratch, "MC_Engine", engine_cfg(pol="RandomOrderPol"), "Independent",
                               "C02 map iteration in Go's random order")
        ok &= expect_violation(scratch, "MC_Engine", engine_cfg(cells=["cycle.err"]), "NoConflict",
                               "C04 shared cell written by the cycle tag")
        ok &= expect_violation(scratch, "MC_Engine", engine_cfg(cells=["engine.cache"]), "NoConflict",
                               "C04 unguarded template cache written by ParseTemplateAndCache")
        # --- binding side: a corrupted observation is rejected, an honest one accepted
        ctx = vcheck.Ctx("selftest", "quick", 1)
        ctx.lqh = vcheck.build_harness()
        case = {"id": "t1", "kind": "render", "env": [],
                "prog": [{"t": "for", "tag": "for", "var": [120], "coll": {"t": "range", "a": {"t": "lit", "v": {"k": "int", "v": 1}},
                                                                        "b": {"t": "lit", "v": {"k": "int", "v": 3}}},
                          "body": [{"t": "obj", "e": {"t": "prop", "e": {"t": "var", "name": [102, 111, 114, 108, 111, 111, 112]},
                                                      "name": [114, 105, 110, 100, 101, 120]}}]}]}
        obs = ctx.run_cases([case])
        v = ctx.validate(obs)
        good = v["t1"][0] == "ok"
        bad_obs = json.loads(json.dumps(obs[0]))
        bad_obs["out"][0] += 1
        ctx2 = vcheck.Ctx("selftest", "quick", 1)
        v2 = ctx2.validate([bad_obs])
        bad = v2["t1"][0] == "REJECT"
        print("%-70s %s" % ("honest observation accepted / corrupted observation rejected", "ok" if good and bad else "FAILED"))
        ok &= good and bad
        # a dropped event makes the consumed-lines postcondition fail
        ctx.cleanup()
        ctx2.cleanup()
    finally:
        shutil.rmtree(scratch, ignore_errors=True)
    print("selftest", "passed" if ok else "FAILED")
    return 0 if ok else 1
