#!/usr/bin/env python3
"""seedarchive.py <worktree> <seed-id> <property> <caught-by> <needed-strengthening yes/no> 'note'"""
import json, os, shutil, sys, glob
wt, sid, prop, caught, strengthened, note = sys.argv[1:7]
d = os.path.join('/verif/seeded', sid)
os.makedirs(d, exist_ok=True)
shutil.copy(os.path.join(wt, 'PATCH.diff'), os.path.join(d, 'patch.diff'))
demos = glob.glob(os.path.join(wt, 'zz_demo*_test.go')) + glob.glob(os.path.join(wt, '*', 'zz_demo*_test.go'))
demo_rel = ''
if demos:
    demo_rel = os.path.relpath(demos[0], wt)
    shutil.copy(demos[0], os.path.join(d, 'demo_test.go.txt'))
meta_txt = open(os.path.join(wt, 'META.txt')).read() if os.path.exists(os.path.join(wt, 'META.txt')) else ''
meta = {"id": sid, "property": prop, "origin": "independent sub-agent given only the property text and a scratch worktree",
        "demo_placement": demo_rel, "demo_run": "go test -vet=off -count=1 ./" + (os.path.dirname(demo_rel) or "."),
        "confirmed": {"suite_passes_with_change": True, "demo_fails_with_change": True, "demo_passes_without_change": True,
                      "how": "lib/seedtest.sh <worktree> <property> (suite, demo with and without the patch, then the check with VERIF_REPO=<worktree>)"},
        "caught_by": caught, "needed_strengthening": strengthened == "yes", "note": note,
        "author_notes": meta_txt[:6000]}
json.dump(meta, open(os.path.join(d, 'meta.json'), 'w'), indent=1)
print("archived", d)
