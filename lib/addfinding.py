#!/usr/bin/env python3
"""addfinding.py PROPERTY STATE COMMIT 'what' [text_re]  - append an entry to known_findings.json"""
import json, sys
p = '/verif/known_findings.json'
k = json.load(open(p))
e = {"property": sys.argv[1], "state": sys.argv[2], "commit": sys.argv[3], "what": sys.argv[4]}
if len(sys.argv) > 5:
    e["match"] = {"text_re": sys.argv[5]}
k["findings"].append(e)
json.dump(k, open(p, 'w'), indent=1)
