#!/usr/bin/env python3
"""Driver for the TLA+ model-based checks of osteele/liquid (see /verif/DESIGN.md).

  vcheck.py --setup
  vcheck.py <PROPERTY> --tier quick|thorough [--replay FILE]

Exit 0: the property held on everything explored (KNOWN-FINDING lines may be printed).
Exit 1: `VIOLATION property=<id> replay=<path>` was printed.
Exit 2: infrastructure failure (never a verdict).
"""
import concurrent.futures as cf
import glob
import hashlib
import json
import os
import re
import shutil
import subprocess
import sys
import tempfile
import time

VERIF = os.path.dirname(os.path.dirname(os.path.abspath(__file__)))
SPEC = os.path.join(VERIF, "spec")
HARNESS = os.path.join(VERIF, "harness")
BUILD = os.path.join(VERIF, ".build")
REPO = os.environ.get("VERIF_REPO", "/repo")
NCPU = os.cpu_count() or 4
# results of runs against another tree (seeded changes) never overwrite the evidence of /repo
OUTDIR = VERIF if REPO == "/repo" else os.environ.get("VERIF_OUT", "/tmp/verif_alt_out")

GOENV = dict(os.environ, GOFLAGS="-mod=mod", GOPROXY="off", GOSUMDB="off", GOTOOLCHAIN="local",
             CGO_ENABLED=os.environ.get("CGO_ENABLED", "0"))


class Infra(Exception):
    """Infrastructure failure: exit 2, never a violation."""


def log(*a):
    print(*a, file=sys.stderr, flush=True)


# ----------------------------------------------------------------------------- build

def build_harness(race=False):
    os.makedirs(BUILD, exist_ok=True)
    name = "lqh-race" if race else "lqh"
    src = HARNESS
    tmp = None
    if REPO != "/repo":
        # a scratch copy of the harness module bound to another tree (seeded changes in a worktree)
        tmp = tempfile.mkdtemp(prefix="harness_")
        for f in glob.glob(os.path.join(HARNESS, "*.go")):
            shutil.copy(f, tmp)
        with open(os.path.join(HARNESS, "go.mod")) as f:
            mod = f.read().replace("=> /repo", "=> " + REPO)
        with open(os.path.join(tmp, "go.mod"), "w") as f:
            f.write(mod)
        src = tmp
        name += "-" + hashlib.sha1(REPO.encode()).hexdigest()[:8]
    shutil.copyfile(os.path.join(REPO, "go.sum"), os.path.join(src, "go.sum"))
    out = os.path.join(BUILD, "%s.%d" % (name, os.getpid()))
    env = dict(GOENV)
    cmd = ["go", "build", "-o", out]
    if race:
        env["CGO_ENABLED"] = "1"
        cmd.append("-race")
    cmd.append(".")
    p = subprocess.run(cmd, cwd=src, env=env, capture_output=True, text=True)
    if tmp:
        shutil.rmtree(tmp, ignore_errors=True)
    if p.returncode != 0:
        raise Infra("harness build failed (does %s compile?):\n" % REPO + p.stdout + p.stderr)
    final = os.path.join(BUILD, name)
    os.replace(out, final)
    return final


# ----------------------------------------------------------------------------- TLC

TLC_JARS = "/opt/veriftools/tla/tla2tools.jar:/opt/veriftools/tla/CommunityModules-deps.jar"


class TlcResult:
    def __init__(self):
        self.lines = []
        self.states = 0
        self.distinct = 0
        self.ok = False
        self.violation = None
        self.raw_tail = ""


def run_tlc(scratch, module, cfg_text, workers=1, timeout=600, env=None, simulate=None,
            heap="4g", extra=None, keep_all_lines=False, depth=None):
    """Run TLC on spec/<module>.tla with the given cfg text inside a private copy."""
    d = tempfile.mkdtemp(prefix="tlc_", dir=scratch)
    for f in glob.glob(os.path.join(SPEC, "*.tla")):
        shutil.copy(f, d)
    with open(os.path.join(d, module + ".cfg"), "w") as f:
        f.write(cfg_text)
    cmd = ["java", "-XX:+UseParallelGC", "-Xmx" + heap, "-Xss512m", "-cp", TLC_JARS, "tlc2.TLC",
           "-workers", str(workers), "-metadir", os.path.join(d, "md"), "-config", module + ".cfg",
           "-noGenerateSpecTE"]
    if simulate:
        cmd += ["-simulate", simulate]
    if depth:
        cmd += ["-depth", str(depth)]
    if extra:
        cmd += extra
    cmd.append(module + ".tla")
    e = dict(os.environ)
    e.pop("JAVA_TOOL_OPTIONS", None)
    if env:
        e.update(env)
    res = TlcResult()
    try:
        p = subprocess.run(cmd, cwd=d, env=e, capture_output=True, text=True, timeout=timeout)
    except subprocess.TimeoutExpired:
        shutil.rmtree(d, ignore_errors=True)
        raise Infra("TLC timed out after %ds on %s" % (timeout, module))
    out = p.stdout
    k = out.find("Error:")
    res.raw_tail = (out[k:k + 2500] if k >= 0 else out[-3000:]) + p.stderr[-2000:]
    for line in out.splitlines():
        if line.startswith('<<') or line.startswith('"'):
            res.lines.append(line)
        m = re.match(r"^(\d+) states generated, (\d+) distinct states found", line)
        if m:
            res.states, res.distinct = int(m.group(1)), int(m.group(2))
        m = re.match(r"^The number of states generated: (\d+)", line)
        if m:
            res.states = int(m.group(1))
        if "Model checking completed. No error has been found." in line:
            res.ok = True
        if line.startswith("Error:") and res.violation is None:
            res.violation = line
    if simulate and p.returncode == 0 and res.violation is None:
        res.ok = True
    shutil.rmtree(d, ignore_errors=True)
    if not res.ok and res.violation is None:
        raise Infra("TLC failed on %s (exit %d):\n%s" % (module, p.returncode, res.raw_tail))
    return res


def tlc_unquote(s):
    """Decode a TLC-printed string literal body."""
    return s.replace('\\"', '"').replace("\\\\", "\\")


def parse_tuple_line(line):
    """Parse a PrintT'ed tuple of strings / numbers: <<"A", 12, "json...">> -> list."""
    assert line.startswith("<<") and line.endswith(">>"), line[:80]
    body = line[2:-2]
    out, i, n = [], 0, len(body)
    while i < n:
        c = body[i]
        if c in " ,":
            i += 1
        elif c == '"':
            j = i + 1
            buf = []
            while j < n:
                if body[j] == "\\" and j + 1 < n:
                    buf.append(body[j + 1])
                    j += 2
                elif body[j] == '"':
                    break
                else:
                    buf.append(body[j])
                    j += 1
            out.append("".join(buf))
            i = j + 1
        else:
            j = i
            while j < n and body[j] not in ",":
                j += 1
            tok = body[i:j].strip()
            try:
                out.append(int(tok))
            except ValueError:
                out.append(tok)
            i = j
    return out


# ----------------------------------------------------------------------------- context

class Ctx:
    def __init__(self, prop, tier, seed):
        self.prop, self.tier, self.seed = prop, tier, seed
        self.quick = tier == "quick"
        self.t0 = time.time()
        self.scratch = tempfile.mkdtemp(prefix="verif_%s_" % prop)
        self.states = 0
        self.transitions = 0
        self.evaluations = 0
        self.validated = 0
        self.nontrivial = set()
        self.samples = []
        self.rejects = []          # (observation, expectation, note)
        self.notes = []
        self.exhaustive = True
        self.mc_runs = []
        self.lqh = None
        self.known = load_known(prop)
        self.extra_cov = {}

    def cleanup(self):
        shutil.rmtree(self.scratch, ignore_errors=True)

    # -- model checking with case emission ------------------------------------
    def tlc_mc(self, module, cfg_text, workers=None, timeout=900, heap="8g", simulate=None, depth=None,
               expect_violation=False):
        res = run_tlc(self.scratch, module, cfg_text, workers=workers or min(NCPU, 16), timeout=timeout,
                      heap=heap, simulate=simulate, depth=depth)
        self.states += res.distinct if res.distinct else res.states
        self.transitions += res.states
        self.mc_runs.append({"module": module, "generated": res.states, "distinct": res.distinct,
                             "simulate": simulate})
        if res.violation and not expect_violation:
            # a counterexample on the specification alone is a design finding, not a verdict on the code
            raise Infra("TLC reports a property violation in the specification %s itself:\n%s"
                        % (module, res.raw_tail))
        cases = []
        for line in res.lines:
            if line.startswith('"{'):
                cases.append(json.loads(tlc_unquote(line[1:-1])))
        return cases, res

    # -- seeded Go-side drivers ---------------------------------------------------
    def gen(self, kind, n, seed_offset=0):
        out = os.path.join(self.scratch, "gen_%s.ndjson" % kind)
        p = subprocess.run([self.lqh, "gen", "-kind", kind, "-seed", str(self.seed + seed_offset), "-n", str(n),
                            "-out", out], capture_output=True, text=True)
        if p.returncode != 0:
            raise Infra("lqh gen %s failed: %s" % (kind, p.stderr))
        with open(out) as f:
            cases = [json.loads(l) for l in f if l.strip()]
        os.remove(out)
        return cases

    # -- run cases through the implementation ---------------------------------
    def run_cases(self, cases, deadline=20, workers=None, binary=None, max_timeouts=None):
        """max_timeouts: once that many cases have run into the deadline the rest is not run (each of them is a
        violation already; a tree that hangs would otherwise hold the check for deadline x cases)"""
        if not cases:
            return []
        binary = binary or self.lqh
        ids = [c["id"] for c in cases]
        if len(set(map(str, ids))) != len(ids):
            raise Infra("duplicate case ids")
        byid = {str(c["id"]): c for c in cases}
        obs = {}
        pending = list(cases)
        w = workers or min(NCPU, 16)
        rounds = 0
        while pending:
            rounds += 1
            if rounds > 50:
                raise Infra("harness keeps dying")
            fin = os.path.join(self.scratch, "cases_%d.ndjson" % rounds)
            fout = os.path.join(self.scratch, "obs_%d.ndjson" % rounds)
            with open(fin, "w") as f:
                for c in pending:
                    f.write(json.dumps(c, separators=(",", ":")) + "\n")
            p = subprocess.run([binary, "run", "-in", fin, "-out", fout, "-workers", str(w),
                                "-deadline", str(deadline)], capture_output=True, text=True,
                               timeout=min(86400, max(600, len(pending) * deadline / max(w, 1) + 600)))
            got = []
            if os.path.exists(fout):
                with open(fout) as f:
                    for line in f:
                        line = line.strip()
                        if line:
                            try:
                                got.append(json.loads(line))
                            except json.JSONDecodeError:
                                pass       # truncated last line of a dying process
            for o in got:
                obs[str(o["id"])] = o
            os.remove(fin)
            if os.path.exists(fout):
                os.remove(fout)
            pending = [c for c in pending if str(c["id"]) not in obs]
            if max_timeouts and sum(1 for o in obs.values() if o.get("outcome") == "timeout") >= max_timeouts and pending:
                self.notes.append("%d cases not run after %d ran into the deadline" % (len(pending), max_timeouts))
                ids = [i for i in ids if str(i) in obs]
                cases = [c for c in cases if str(c["id"]) in obs]
                pending = []
                break
            if p.returncode == 0:
                if pending:
                    raise Infra("harness lost %d cases" % len(pending))
                break
            if not pending:
                break
            if w > 1:
                # the process died (fatal error or a hung case): go on one case at a time
                # so the culprit can be attributed
                w = 1
                continue
            if p.returncode == 3:
                continue               # the timed-out case was recorded; resume with the rest
            # sequential and died without recording: the first pending case killed the process
            culprit = pending[0]
            o = dict(culprit)
            o["outcome"] = "fatal"
            o["msg"] = (p.stderr or "")[-600:]
            obs[str(culprit["id"])] = o
            pending = pending[1:]
        self.evaluations += len(cases)
        # (a case may observe further steps under ids of their own: a "then" case's second render)
        wanted = set(map(str, ids))
        extras = [o for k, o in obs.items() if k not in wanted]
        # a missing second step is an infrastructure failure, not a pass
        for c in cases:
            t = c.get("then")
            if t and str(t.get("id")) not in obs and obs[str(c["id"])].get("outcome") not in ("skip", "fatal", "timeout", "panic"):
                raise Infra("no observation for the second step %s" % t.get("id"))
        self.evaluations += len(extras)
        return [obs[str(i)] for i in ids] + extras

    # -- trace validation -------------------------------------------------------
    def validate(self, observations, module="TraceRender", cfg=None, chunk=4000, jobs=None,
                 timeout=1200, nontrivial_key=None):
        """Validate observations with TLC; returns {id: (verdict, expectation)}."""
        skips = [o for o in observations if o.get("outcome") == "skip"]
        if skips:
            raise Infra("%d cases could not be concretised, e.g. %s: %s"
                        % (len(skips), skips[0].get("id"), skips[0].get("msg")))
        cfg = cfg or open(os.path.join(SPEC, module + ".cfg")).read()
        chunks = [observations[i:i + chunk] for i in range(0, len(observations), chunk)]
        jobs = jobs or max(1, min(NCPU, 12, len(chunks)))
        verdicts = {}

        def one(idx_chunk):
            idx, ch = idx_chunk
            path = os.path.join(self.scratch, "trace_%s_%d.ndjson" % (module, idx))
            with open(path, "w") as f:
                for o in ch:
                    f.write(json.dumps(o, separators=(",", ":")) + "\n")
            res = run_tlc(self.scratch, module, cfg, workers=1, timeout=timeout, env={"LQ_TRACE": path},
                          heap="3g")
            os.remove(path)
            if res.violation:
                raise Infra("trace validation of %s stopped: %s\n%s" % (module, res.violation, res.raw_tail))
            v = {}
            for line in res.lines:
                if line.startswith('<<"V"'):
                    t = parse_tuple_line(line)
                    v[str(t[1])] = (t[2], json.loads(t[3]) if len(t) > 3 else None)
            if len(v) != len(ch):
                raise Infra("trace validation consumed %d of %d events\n%s" % (len(v), len(ch), res.raw_tail))
            return v, res

        with cf.ThreadPoolExecutor(max_workers=jobs) as ex:
            for v, res in ex.map(one, list(enumerate(chunks))):
                verdicts.update(v)
                self.states += res.distinct
                self.transitions += res.states
        for o in observations:
            verdict, exp = verdicts[str(o["id"])]
            if verdict == "REJECT":
                self.rejects.append((o, exp, ""))
            else:
                self.validated += 1
                if verdict == "ok":
                    key = nontrivial_key(o) if nontrivial_key else (o.get("text", str(o["id"])), json.dumps(o.get("env", "")), o.get("k", ""), json.dumps(o.get("files", "")), json.dumps(o.get("cache", "")), json.dumps(o.get("path", "")), json.dumps(o.get("repr", "")), json.dumps(o.get("spell", "")), o.get("entry", ""))
                    self.nontrivial.add(hashlib.sha1(repr(key).encode()).hexdigest())
            if len(self.samples) < 6 and verdict == "ok" and (len(self.samples) == 0 or hash(str(o["id"])) % 97 == 0):
                self.samples.append(sample_of(o))
        return verdicts

    def reject(self, o, exp, note):
        self.rejects.append((o, exp, note))


def sample_of(o):
    s = {"id": o.get("id"), "kind": o.get("kind", "render")}
    if "text" in o:
        s["template"] = o["text"]
    if "env" in o and o["env"]:
        s["bindings"] = short_env(o["env"])
    if "outcome" in o:
        s["outcome"] = o["outcome"]
    if "out" in o:
        s["output"] = bytes(o["out"]).decode("utf-8", "replace")[:200]
    for k in ("errline", "strict", "entry", "k", "note"):
        if k in o:
            s[k] = o[k]
    return s


def show_value(v):
    k = v.get("k")
    if k == "nil":
        return None
    if k in ("bool", "int"):
        return v["v"]
    if k == "flt":
        return v["n"] / v["d"]
    if k == "str":
        return bytes(v["v"]).decode("utf-8", "replace")
    if k == "arr":
        return [show_value(x) for x in v["v"]]
    if k == "map":
        return {bytes(p[0]).decode("utf-8", "replace"): show_value(p[1]) for p in v["v"]}
    if k == "range":
        return "(%d..%d)" % (v["a"], v["b"])
    if k == "big":
        return int(("-" if v.get("neg") else "") + bytes(v["digits"]).decode())
    return "?"


def short_env(env):
    return {bytes(p[0]).decode("utf-8", "replace"): show_value(p[1]) for p in env}


# ----------------------------------------------------------------------------- known findings

def load_known(prop):
    path = os.path.join(VERIF, "known_findings.json")
    if not os.path.exists(path):
        return []
    with open(path) as f:
        data = json.load(f)
    return [k for k in data.get("findings", []) if k.get("property") == prop and k.get("state") == "known"]


def matches(entry, o):
    m = entry.get("match", {})
    if "text_re" in m and not re.search(m["text_re"], o.get("text", ""), re.S):
        return False
    if "outcome" in m and o.get("outcome") != m["outcome"]:
        return False
    if "kind" in m and o.get("kind", "render") != m["kind"]:
        return False
    if "id_re" in m and not re.search(m["id_re"], str(o.get("id"))):
        return False
    if "panic_re" in m and not re.search(m["panic_re"], o.get("panic", "") + " " + o.get("panicat", "")):
        return False
    if "field" in m:
        for k, v in m["field"].items():
            if o.get(k) != v:
                return False
    return True


# ----------------------------------------------------------------------------- verdict

def finish(ctx, level="model_checking", rule="", assumptions=None, checker_cmd=""):
    new_viol = []
    known_hits = {}
    for o, exp, note in ctx.rejects:
        hit = None
        for k in ctx.known:
            if matches(k, o):
                hit = k
                break
        if hit:
            known_hits.setdefault(hit["what"], 0)
            known_hits[hit["what"]] += 1
        else:
            new_viol.append((o, exp, note))
    for what, n in known_hits.items():
        print("KNOWN-FINDING: property=%s %s (%d cases)" % (ctx.prop, what, n))
    replay_paths = []
    if new_viol and os.environ.get("VERIF_DUMP_REJECTS"):
        with open(os.environ["VERIF_DUMP_REJECTS"], "w") as f:
            for o, exp, note in new_viol:
                f.write(json.dumps({"case": o, "expected": exp, "note": note}) + "\n")
    if new_viol:
        rdir = os.path.join(OUTDIR, "replays", ctx.prop)
        os.makedirs(rdir, exist_ok=True)
        for old in glob.glob(os.path.join(rdir, "%s_%d_*.json" % (ctx.tier, ctx.seed))):
            os.remove(old)          # replay files of an earlier run with the same tier and seed
        for i, (o, exp, note) in enumerate(new_viol[:20]):
            path = os.path.join(rdir, "%s_%d_%d.json" % (ctx.tier, ctx.seed, i))
            with open(path, "w") as f:
                json.dump({"property": ctx.prop, "case": o, "expected": exp, "note": note,
                           "summary": summarize(o, exp, note)}, f, indent=1)
            replay_paths.append(path)
    wall = time.time() - ctx.t0
    cov = {
        "states": max(ctx.states, 1), "transitions": max(ctx.transitions, 1),
        "traces_validated_against_impl": ctx.validated,
        "evaluations": max(ctx.evaluations, 1),
        "distinct_nontrivial": len(ctx.nontrivial),
        "rule": rule,
        "samples": ctx.samples or [{"note": "no sample recorded"}],
        "exhaustive": bool(ctx.exhaustive),
        "checker_cmd": checker_cmd or "bin/check %s --tier %s" % (ctx.prop, ctx.tier),
        "tlc_runs": ctx.mc_runs,
        "known_findings_hit": known_hits,
        "notes": ctx.notes,
    }
    cov.update(ctx.extra_cov)
    ev = {"property_id": ctx.prop, "tier": ctx.tier, "seed": ctx.seed, "level": level, "coverage": cov,
          "assumptions": assumptions or [], "wall_s": round(wall, 2), "violations": len(new_viol)}
    # (checks beyond the listed properties - the embedding API, EXT - report under evidence_ext/)
    evdir = "evidence" if re.fullmatch(r"C\d\d", ctx.prop) else "evidence_ext"
    os.makedirs(os.path.join(OUTDIR, evdir), exist_ok=True)
    with open(os.path.join(OUTDIR, evdir, ctx.prop + ".json"), "w") as f:
        json.dump(ev, f, indent=1)
    if new_viol:
        for (o, exp, note), path in list(zip(new_viol, replay_paths))[:8]:
            log("  " + summarize(o, exp, note)[:700])
        log("  %d violating cases in total (first %d written under replays/%s/)" % (len(new_viol), len(replay_paths), ctx.prop))
        print("VIOLATION property=%s replay=%s" % (ctx.prop, replay_paths[0]))
        return 1
    log("%s %s: ok  (%d evaluations, %d validated, %d distinct non-trivial, %d states, %.1fs)"
        % (ctx.prop, ctx.tier, ctx.evaluations, ctx.validated, len(ctx.nontrivial), ctx.states, wall))
    return 0


def summarize(o, exp, note):
    parts = ["[%s]" % o.get("id")]
    if note:
        parts.append(note)
    if o.get("env"):
        parts.append("bindings=%r" % short_env(o["env"]))
    if "text" in o:
        parts.append("template=%r" % o["text"][:240])
    parts.append("observed=%s" % o.get("outcome"))
    if o.get("outcome") == "ok" and "out" in o:
        parts.append("out=%r" % bytes(o["out"]).decode("utf-8", "replace")[:200])
    if o.get("outcome") == "error":
        parts.append("errline=%s msg=%r" % (o.get("errline"), o.get("msg", "")[:160]))
    if o.get("outcome") == "panic":
        parts.append("panic=%r at %s" % (o.get("panic", "")[:160], o.get("panicat")))
    if exp:
        e = dict(exp)
        if "out" in e and isinstance(e["out"], list):
            e["out"] = bytes(e["out"]).decode("utf-8", "replace")[:200]
        parts.append("expected=%r" % e)
    return " ".join(parts)


# ----------------------------------------------------------------------------- main

def setup():
    build_harness()
    d = tempfile.mkdtemp(prefix="sany_")
    try:
        for f in glob.glob(os.path.join(SPEC, "*.tla")):
            shutil.copy(f, d)
        for f in sorted(glob.glob(os.path.join(d, "*.tla"))):
            p = subprocess.run(["java", "-cp", TLC_JARS, "tla2sany.SANY", os.path.basename(f)], cwd=d,
                               capture_output=True, text=True)
            if p.returncode != 0 or "*** Errors" in p.stdout or "Fatal errors" in p.stdout:
                print(p.stdout[-3000:])
                raise Infra("SANY rejects " + f)
    finally:
        shutil.rmtree(d, ignore_errors=True)
    print("setup ok")


def main(argv):
    if "--setup" in argv:
        try:
            setup()
            return 0
        except Infra as e:
            log("INFRA:", e)
            return 2
    import argparse
    ap = argparse.ArgumentParser()
    ap.add_argument("prop")
    ap.add_argument("--tier", default=os.environ.get("VERIF_TIER", "quick"), choices=["quick", "thorough"])
    ap.add_argument("--replay")
    a = ap.parse_args(argv)
    seed = int(os.environ.get("VERIF_SEED", "1") or 1)
    sys.path.insert(0, os.path.join(VERIF, "lib"))
    import props
    ctx = Ctx(a.prop, a.tier, seed)
    try:
        ctx.lqh = build_harness()
        if a.replay:
            return props.replay(ctx, a.replay)
        fn = props.CHECKS.get(a.prop)
        if fn is None:
            raise Infra("no check for " + a.prop)
        return fn(ctx)
    except Infra as e:
        log("INFRA:", e)
        return 2
    finally:
        ctx.cleanup()


if __name__ == "__main__":
    sys.exit(main(sys.argv[1:]))
