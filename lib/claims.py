"""What MANIFEST.json claims, per property."""

DEFAULT_TECHNIQUE = ("TLA+ specification model-checked by TLC (exhaustive bounded exploration with invariants), "
                     "TLC-generated cases replayed into the Go implementation, recorded observations trace-validated "
                     "against the specification by TLC")
DEFAULT_NOTE = ("Trusted: TLC; the harness printer/realiser/codec (abstract syntax -> template text, abstract value -> Go "
                "value); the specification's reading of the statement. Bounded: the exhaustive part covers the small "
                "constants named in the evidence; beyond them only seeded samples.")
NOTES = ("All checks share one explicit TLA+ specification of the Liquid machines (spec/Lq*.tla). "
         "bin/check <ID> --tier quick|thorough; VERIF_SEED seeds the simulation/driver parts. "
         "Exit 2 is an infrastructure failure and never a verdict.")

CLAIMS = {
    "C11": {"text": "TLC explores the render machine (LqRender!Step) step by step on every case of the bounded loop families "
                    "(modifier grid, break/continue positions, ranges, tablerow x cols, nil/empty/map collections, cycle "
                    "groups, nesting), checking forloop consistency and restoration in every intermediate state and the "
                    "final output against an independent declarative definition; every case is then rendered by the real "
                    "engine and the observation validated by TLC against the specification.",
            "ref": "DESIGN.md §6 C11, §4.4"},
}

CLAIMS["C09"] = {"text": "TLC visits every ordered pair of a 28/57-value universe (nil, booleans, ints, exact floats, strings, nested "
                        "arrays, maps), checks the coherence laws of the statement on the reference operators, and emits a probe "
                        "that applies the nine operators in both operand orders; the implementation's bit table is validated by "
                        "TLC both against the decided reference bits and against the coherence laws themselves (so an "
                        "incoherent implementation is rejected even where the reference is silent)."}
CLAIMS["C16"] = {"text": "TLC enumerates every string up to 2 (quick) / 3-4 (thorough) characters over an alphabet with ASCII of both "
                        "cases, whitespace, 2- and 4-byte characters and the HTML/URL specials, times a grid of string-filter "
                        "calls; it checks the algebraic laws (UTF-8 preservation, never-lengthen, escape, url round trip, "
                        "split/join, case laws) on the reference LqFilters and every case is rendered by the implementation and "
                        "trace-validated against the reference."}

CLAIMS["C15"] = {"text": "TLC enumerates every array up to 3 (quick) / 4 (thorough) elements over four element universes times the "
                        "array-filter calls and two-filter chains, checks on the reference that sort is an ascending permutation "
                        "(lacking keys first), reverse an involution, uniq a first-occurrence subsequence, compact/first/last/"
                        "size/concat/map laws, and emits probes that print the result element-wise followed by the input again "
                        "(input unchanged), in every Go representation that can hold the array (generic, typed slice, fixed "
                        "array, ordered map); each is rendered by the implementation and trace-validated."}
CLAIMS["C17"] = {"text": "TLC visits every (receiver, numeric filter, argument) over integers -K..K, quarters, numeric/non-numeric "
                        "strings and nil (K=4 quick, 12 thorough), checks arithmetic laws on the exact-rational reference "
                        "(inverse, commutativity, floor<=x<=ceil, round-half-up, division bounds, zero divisor and non-number "
                        "are errors) and every case is rendered by the implementation and trace-validated (exact output "
                        "spelling where the result has a finite decimal expansion)."}

CLAIMS["C08"] = {"text": "TLC enumerates the expression families of MC_C08 (index grid incl. negative/out-of-range/non-numeric indices, "
                        "lookup paths on 12 bases in default and strict mode, filter chains of <= 2/3 steps written directly and "
                        "decomposed into assigns, unknown filter / too many arguments for every filter, literals, 6 whitespace "
                        "spellings incl. newlines), checks the lookup and pipeline laws on the reference, and every case is "
                        "rendered by the implementation and trace-validated."}
CLAIMS["C10"] = {"text": "TLC explores the render machine step by step on every if/elsif/else chain of 1-3 conditions over a 10-value "
                        "universe (all falsy and falsy-looking values), the if/unless dual for every value, failing conditions "
                        "before and after the selected branch (later conditions must not be evaluated), case/when lists and "
                        "nesting, against a declarative first-truthy definition; every case is rendered and trace-validated; "
                        "thorough adds 20000 random nested programs."}
CLAIMS["C12"] = {"text": "TLC explores every program of <= 3/4 statements over a 9-statement pool (assign, capture, shadowing loops, "
                        "break, assign inside loop/if, capture containing a loop) step by step against a declarative store "
                        "semantics, checks forloop restoration in every state, that no step inside an open capture reaches the "
                        "sink, and the capture law for every program; all programs and their capture-wrapped twins are "
                        "rendered by the implementation and trace-validated."}

CLAIMS["C13"] = {"text": "TLC explores the trim-writer model (one buffered write, right-trim flag, flush at every block end, fresh writer "
                        "for capture) step by step on every flat sequence of <= 2/3 elements with all hyphen combinations and on 7 "
                        "block skeletons x hyphen subsets, checking it against the declarative laws of the statement (weak law, "
                        "only-whitespace-removed, facing-text law); each program and its hyphen-free twin are rendered by the "
                        "implementation and TraceC13 validates the two observed outputs against those laws and the reference; "
                        "plus seeded random programs with hyphens.",
                 "ref": "DESIGN.md §6 C13"}
CLAIMS["C20"] = {"text": "TLC runs the render machine against a sink failing at every call k (keeping 0/1/all bytes) on templates "
                        "covering every write site, with prefix / no-success-after-fault / no-panic / no-call-after-fault "
                        "invariants in every state; the implementation renders each template and seeded random programs into a "
                        "writer failing at each call of its own fault-free run (FRender, ParseAndFRender), every Write call is "
                        "logged, and TraceC20 replays the log through the specification's sink action checking the invariants "
                        "after every event and the final outcome.",
                 "ref": "DESIGN.md §6 C20"}

CLAIMS["C05"] = {"text": "The scanner is a TLA+ state machine (one token per step) run by TLC over every source of <= 5 (quick) / 6-7 "
                        "(thorough) symbols of a delimiter-rich alphabet with partition/line invariants in every scanner state; "
                        "each source is tokenised by parser.Scan and rendered, and TraceC05 demands the laws on the "
                        "implementation's own tokens for every input and equality with the reference scanner on the well-formed "
                        "fragment; raw/comment bodies and string values (random bytes, UTF-8, up to 64 KiB) pass-through is "
                        "validated by TraceRender on seeded programs."}
CLAIMS["C06"] = {"text": "The block parser is a TLA+ pushdown machine; TLC runs it over every token-class sequence of <= 4 (quick) / "
                        "5 (thorough) tokens from the 22-class alphabet and checks in every state that its verdict equals an "
                        "independent recursive-descent recogniser; every prefix is spelled and parsed by ParseTemplate and "
                        "TraceC06 compares accept/reject and the GetRoot tree (blocks, bodies, clauses, leaf positions) with the "
                        "machine's tree; plus seeded deep nestings and one-edit neighbours."}
CLAIMS["C07"] = {"text": "TLC nests one failing construct of each of 13 kinds under every sequence of <= 2/3 wrappers with newlines "
                        "before/inside, with/without path and three starting lines; for render-time failures the render machine "
                        "(intended wrap policy) must end in the error state at the statically computed line; every case goes "
                        "through ParseTemplateLocation/Render and TraceC07 checks SourceError, LineNumber, Path, Cause presence, "
                        "message content, and no output with the error."}
CLAIMS["C19"] = {"text": "TLC checks on the reference scanner that spelling a token list with any quadruple of the pool (lengths 1-4, "
                        "regexp metacharacters, shared characters, each subset of positions empty = default) and scanning it "
                        "gives the list back (types, inner text, hyphen flags, lines), for every token list of <= 2/3 tokens; "
                        "each spelled source is tokenised by parser.Scan with those delimiters (TraceC05) and 8 programs "
                        "(hyphens, raw/comment, default delimiters as text, error lines) are rendered on an engine configured "
                        "with Engine.Delims and validated against the render reference (TraceRender)."}

CLAIMS["C01"] = {"text": "The specification has no panic state: TLC evaluates the filter reference on the whole boundary matrix (49 "
                        "filters x 31 receivers x 0-2 of 16 boundary arguments), the tokenizer on every expression-symbol string of "
                        "<= 2/4 symbols inside 8 tag forms and on all delimiter-alphabet sources, proving totality of the reference "
                        "and a step bound; every emitted case, plus seeded template text with bindings of every representation the "
                        "statement lists, mutants of the repository's test templates and grammar programs, is parsed and rendered "
                        "under a deadline and TraceC01/TraceC05 accept only output or a SourceError.",
                 "note": "Trusted: TLC, the harness. Arbitrary-byte coverage is bounded-exhaustive over small alphabets plus seeded "
                         "samples, not coverage-guided fuzzing; the time bound is a per-case deadline (20-30 s), not a measured "
                         "proportionality."}
CLAIMS["C02"] = {"text": "MC_Engine (TLC): same template and bindings give the same result in every history and interleaving of up to 3 "
                        "renders by 2 goroutines and for every order Go may iterate a map in (the RandomOrder policy yields the "
                        "counterexample). The implementation renders pooled templates, incl. maps of 2-12 entries in loops and array "
                        "filters, through all six entry points and the CLI, on fresh parses/engines, with re-built maps, in two "
                        "processes; TraceEngine keeps the first result per (template, bindings) and rejects any later difference "
                        "and any result the render reference does not allow."}
CLAIMS["C03"] = {"text": "MC_Engine (TLC): BindingsImmutable, Independent (each result equals the render run alone), NoCarryOver in "
                        "every state of every interleaving of 3 renders over templates that re-assign binding names, keep loop/"
                        "cycle/capture state and fail half-way (the NoCopy policy yields the counterexample). The implementation "
                        "runs seeded histories of 2-40 renders on one engine with deep snapshots of the bindings before and after "
                        "each, and TraceEngine validates every event (snapshots equal, result equals memo and the reference)."}
CLAIMS["C04"] = {"text": "The shared cells written at render time are extracted from the current tree (go/ssa) into the cells constant "
                        "of MC_Engine, where TLC explores every interleaving (NoConflict; each concurrent render returns what it "
                        "returns alone); a conflict found there is a candidate that the dynamic part must reproduce: sessions of 96 "
                        "parses/renders over templates covering every standard tag and filter run from 2/8/32 goroutines sharing "
                        "engine, templates and bindings under the Go race detector at several GOMAXPROCS; any race report is a "
                        "violation and every concurrent result is validated by TraceEngine against the run alone.",
                 "technique": "TLA+ engine model checked by TLC over an access table extracted from the code (go/ssa), plus trace "
                              "validation of concurrent executions observed under the Go race detector",
                 "note": "Data-race detection is the Go race detector observing the executions that happen; the all-interleavings "
                         "result is TLC's over the extracted closure-variable / package-variable access table."}
CLAIMS["C14"] = {"text": "TLC runs the render machine on include layouts (includer depth 0-2, target beside/below it, argument as "
                        "literal/variable/filtered/assigned, target on disk / cache / both / missing, decoy relative to the working "
                        "directory, nested includes, include in a loop, six failure kinds) checking include = inlining with a copy "
                        "of the variables; each layout is materialised in temporary directories (cache via ParseTemplateAndCache), "
                        "rendered, and trace-validated."}
CLAIMS["C18"] = {"text": "Values of the specification carry no representation, so every realisation of an environment must give the "
                        "reference output: TLC enumerates the representation assignments the statement allows (all integer and "
                        "float widths printed/compared/in arithmetic, typed slices and fixed arrays, typed and ordered maps, "
                        "[]byte, pointers, Drops at every subset of nodes of a nested environment) and every realisation is "
                        "rendered by the implementation and trace-validated against the reference."}

NOT_CLAIMED = {}
