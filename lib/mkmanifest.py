#!/usr/bin/env python3
"""Regenerate /verif/MANIFEST.json from the table of claimed checks in lib/claims.py."""
import json
import os
import sys

VERIF = os.path.dirname(os.path.dirname(os.path.abspath(__file__)))
sys.path.insert(0, os.path.join(VERIF, "lib"))
import claims  # noqa: E402

props = [json.loads(l) for l in open(os.path.join(VERIF, "properties.jsonl"))]
checks = []
for p in props:
    c = claims.CLAIMS.get(p["id"])
    if not c:
        continue
    checks.append({
        "property_id": p["id"],
        "quick_cmd": "./bin/check %s --tier quick" % p["id"],
        "thorough_cmd": "./bin/check %s --tier thorough" % p["id"],
        "evidence_file": "evidence/%s.json" % p["id"],
        "replay_cmd_template": "./bin/check %s --replay {path}" % p["id"],
        "engine": "tlc+lqh",
        "level_claimed": {"category": "model_checking", "text": c["text"], "design_ref": c.get("ref", "DESIGN.md §6 " + p["id"])},
        "level_note": c.get("note", claims.DEFAULT_NOTE),
        "technique": c.get("technique", claims.DEFAULT_TECHNIQUE),
    })
m = {
    "version": 1,
    "setup_cmd": "./bin/setup",
    "hooks": {"guard": "verif",
              "enable": "no hooks are needed: every observation is taken at the public API (DESIGN.md §7); the tag `verif` is reserved",
              "baseline_off_cmd": "cd /repo && go test -vet=off -count=1 ./...",
              "source_commits": [], "add_only": True},
    "engines": [{"name": "tlc+lqh", "path": "lib/vcheck.py",
                 "serves_properties": [c["property_id"] for c in checks],
                 "kind_free_text": "explicit TLA+ specification (spec/*.tla) checked by TLC; cases emitted by TLC are replayed "
                                   "into the Go implementation by harness/ (lqh) and the recorded observations are "
                                   "validated against the specification by TLC trace validation"}],
    "checks": checks,
    "notes": claims.NOTES,
    "not_applicable": [{"property_id": p["id"], "reason": claims.NOT_CLAIMED.get(p["id"], "check not built yet (work in progress)")}
                       for p in props if p["id"] not in claims.CLAIMS],
}
json.dump(m, open(os.path.join(VERIF, "MANIFEST.json"), "w"), indent=1)
print("claimed:", [c["property_id"] for c in checks])
