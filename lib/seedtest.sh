#!/bin/sh
# seedtest.sh <worktree> <property...>  - confirm a seeded change (tests pass, demo fails with it and passes without),
# then run the named checks (quick tier) against the worktree.
wt=$1; shift
export GOFLAGS=-mod=mod GOPROXY=off GOSUMDB=off GOTOOLCHAIN=local
cd $wt || exit 2
demo=$(ls zz_demo*_test.go */zz_demo*_test.go 2>/dev/null | head -1)
[ -z "$demo" ] && demo=$(git status --short | grep '??' | grep _test.go | awk '{print $2}' | head -1)
echo "demo file: $demo"
mkdir -p /tmp/seedtmp; mv $demo /tmp/seedtmp/demo_test.go.keep
echo -n "suite with change: "; go test -vet=off -count=1 ./... > /tmp/seedtmp/suite.out 2>&1 && echo PASS || { echo FAIL; tail -5 /tmp/seedtmp/suite.out; }
cp /tmp/seedtmp/demo_test.go.keep $demo
pkg=./$(dirname $demo)
echo -n "demo with change: "; go test -vet=off -count=1 $pkg > /tmp/seedtmp/demo1.out 2>&1 && echo "PASS (unexpected)" || echo "FAIL (expected)"
git apply -R PATCH.diff || { echo "cannot reverse patch"; exit 2; }
echo -n "demo without change: "; go test -vet=off -count=1 $pkg > /tmp/seedtmp/demo2.out 2>&1 && echo "PASS (expected)" || { echo "FAIL (unexpected)"; tail -5 /tmp/seedtmp/demo2.out; }
git apply PATCH.diff
for p in "$@"; do
  echo "--- check $p against $wt"
  (cd /verif && VERIF_REPO=$wt VERIF_OUT=/tmp/seedtmp/out timeout 1800 ./bin/check $p --tier ${TIER:-quick} 2>&1 | grep -v '^"{' | tail -4 | cut -c1-420)
done
