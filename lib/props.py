"""Per-property check recipes (DESIGN.md section 6)."""
import json
import re
import os

from vcheck import Infra, finish, log, VERIF

TRUSTED = ["TLC evaluates the specification faithfully",
           "harness printer/realiser/codec (abstract syntax -> template text, abstract value -> Go value)",
           "the specification's reading of the property statement (spec/*.tla)"]


def mc_cfg(constants, invariants, props=None, view=None):
    s = ""
    for k, v in constants.items():
        s += "CONSTANT %s = %s\n" % (k, v)
    s += "INIT Init\nNEXT Next\nCHECK_DEADLOCK FALSE\n"
    if invariants:
        s += "INVARIANTS " + " ".join(invariants) + "\n"
    if props:
        s += "PROPERTIES " + " ".join(props) + "\n"
    if view:
        s += "VIEW " + view + "\n"
    return s


def replay(ctx, path):
    with open(path) as f:
        r = json.load(f)
    case = {k: v for k, v in r["case"].items()
            if k not in ("outcome", "out", "errline", "errpath", "hascause", "msg", "srcerr", "stage", "panic",
                         "panicat", "src", "text")}
    obs = ctx.run_cases([case])
    module = r.get("trace_module", "TraceRender")
    ctx.validate(obs, module=module)
    return finish(ctx, rule="replay of " + path)


# --------------------------------------------------------------------------- C11

def check_C11(ctx):
    L = 4 if ctx.quick else 7
    cases, _ = ctx.tlc_mc("MC_C11", mc_cfg({"L": L}, ["Terminates", "OutputLaw", "ForloopConsistent",
                                                      "RestoredOutside", "StepBound", "EmitCase"]))
    if not cases:
        raise Infra("MC_C11 emitted no cases")
    for c in cases:
        c["finalenv"] = True        # a loop binds its variable and forloop, gives them back, and binds nothing else
    # every case whose loop carries two or more modifiers once more with the modifiers written in another order
    def n_mods(nodes):
        m = 0
        for n in nodes:
            if isinstance(n, dict):
                if n.get("t") == "for":
                    m = max(m, sum(1 for f in ("rev", "off", "lim", "cols") if f in n))
                for f in ("body", "else"):
                    if isinstance(n.get(f), list):
                        m = max(m, n_mods(n[f]))
        return m
    twins = []
    for k, c in enumerate(cases):
        if n_mods(c["prog"]) >= 2:
            c2 = dict(c)
            c2["id"] = "%s~mo%d" % (c["id"], k % 5 + 1)
            c2["spell"] = dict(c.get("spell") or {}, modorder=k % 5 + 1)
            twins.append(c2)
    obs = ctx.run_cases(cases + twins)
    ctx.validate(obs)
    omni(ctx, offset=11)
    return finish(ctx, rule="every case of the bounded families G1-G7 of MC_C11 (L=%d) is explored step by step by TLC "
                            "(invariants in every render state), emitted, rendered by the implementation and the "
                            "observation validated against LqRender; non-trivial = the specification decides the "
                            "output (not Unspec); distinct by template text" % L,
                  assumptions=TRUSTED)



def omni(ctx, quick_n=1500, thorough_n=20000, offset=0, altreprs=0):
    """Seeded programs from the whole grammar over rich environments in random representations and spellings,
    each parsed once and rendered several times; decided by the render reference (TraceRender)."""
    cases = ctx.gen("omni", quick_n if ctx.quick else thorough_n, seed_offset=1000 * offset)
    for c in cases:
        c["id"] = "omni%d-%s" % (offset, c["id"])
        c["snaploops"] = True             # C12: the harness's probe tag around every loop (same value bound before and after)
        c["finalenv"] = True              # C12: what is bound when the render is over, compared with the reference
        if altreprs:
            c["altreprs"] = altreprs      # C18: the same bindings in other Go representations must render the same
    ctx.validate(ctx.run_cases(cases))
    ctx.exhaustive = False
    ctx.notes.append("plus %d seeded `omni` programs (whole grammar, rich bindings, random representations/spellings, "
                     "multi-line tags, each rendered 2-3 times) validated by TraceRender" % len(cases))


def validate_by_module(ctx, obs, default="TraceRender"):
    groups = {}
    for o in obs:
        groups.setdefault(o.get("tm", default), []).append(o)
    for module, os_ in groups.items():
        ctx.validate(os_, module=module)


# --------------------------------------------------------------------------- C09

C09_LAWS = ["EqReflexive", "EqSymmetric", "NilOnlyNil", "UnlikeNeverEqual", "UnlikeNeverOrdered", "NilNeverOrdered",
            "LessAsymmetric", "Trichotomy", "ArraysElementwise", "ContainsMembership", "TruthyOnlyNilFalse"]


def check_C09(ctx):
    big = "FALSE" if ctx.quick else "TRUE"
    cases, _ = ctx.tlc_mc("MC_C09", mc_cfg({"Big": big}, C09_LAWS + ["EmitCase"]))
    obs = ctx.run_cases(cases)
    validate_by_module(ctx, obs)
    return finish(ctx, rule="every ordered pair of the value universe of MC_C09 (Big=%s) x 9 operators in both operand "
                            "orders, as `if` conditions (bit table validated by TraceC09: decided bits + coherence laws "
                            "on the observed table) and as objects (TraceRender); TLC also checks the coherence laws on "
                            "the specification's own operators for every pair; maps held as ordered maps / Go structs: no failure and "
                            "a coherent table only" % big,
                  assumptions=TRUSTED)



# --------------------------------------------------------------------------- C16

C16_LAWS = ["Utf8Preserved", "NeverLengthens", "FitsUnchanged", "FitsUnchangedWords", "EscapeLeavesNoSpecials", "EscapeOnceIdempotent",
            "EscapedIsFixedPoint", "StripHtmlLaw", "UrlRoundTrip", "StripIsBoth", "CaseLaws", "SizeCountsChars", "SplitJoinInverse", "AppendPrepend",
            "RemoveIsReplaceEmpty"]


def check_C16(ctx):
    runs = [({"N": 2, "Wide": "TRUE"}, "all strings of <= 2 characters over the 11-symbol alphabet")] if ctx.quick else \
           [({"N": 3, "Wide": "TRUE"}, "all strings of <= 3 characters over the 11-symbol alphabet"),
            ({"N": 4, "Wide": "FALSE"}, "all strings of <= 4 characters over the 6-symbol core alphabet")]
    seen = set()
    for consts, what in runs:
        cases, _ = ctx.tlc_mc("MC_C16", mc_cfg(consts, C16_LAWS + ["EmitCase"]), timeout=1800)
        cases = [c for c in cases if c["id"] not in seen]
        seen.update(c["id"] for c in cases)
        obs = ctx.run_cases(cases)
        ctx.validate(obs)
        ctx.notes.append("%s x the string-filter call grid: %d cases" % (what, len(cases)))
    # numbers (also floats Go prints in exponent notation), booleans and nil as receivers: the text they print as
    scases, _ = ctx.tlc_mc("MC_C16S", mc_cfg({}, ["TextDecided", "ReceiverAsText", "EmitCase"]), timeout=1800)
    ctx.validate(ctx.run_cases(scases))
    omni(ctx, offset=16)
    return finish(ctx, rule="every (string, string-filter call) of the bounded grids of MC_C16; TLC checks the algebraic laws "
                            "of the statement on LqFilters for each, the implementation renders {{ s | f: args }}#{{ s }} and "
                            "TraceRender validates the observation; non-trivial = LqFilters decides the result",
                  assumptions=TRUSTED)


# --------------------------------------------------------------------------- C17

C17_LAWS = ["PlusMinusInverse", "Commutative", "FloorCeil", "RoundNearest", "AbsNonNeg", "DivisionUndoes",
            "IntDivisionBounds", "ZeroDivisorIsError", "NotANumberIsError", "ModuloRange", "BigModuloDecided"]


def check_C17(ctx):
    k = 4 if ctx.quick else 12
    cases, _ = ctx.tlc_mc("MC_C17", mc_cfg({"K": k}, C17_LAWS + ["EmitCase"]), timeout=1800)
    obs = ctx.run_cases(cases)
    ctx.validate(obs)
    omni(ctx, offset=17)
    return finish(ctx, rule="every (receiver, numeric filter, argument) over integers -K..K (K=%d), quarters, numeric and "
                            "non-numeric strings and nil; TLC checks the arithmetic laws on the exact-rational reference, the "
                            "implementation renders {{ x | f: y }} and TraceRender validates it; non-trivial = decided" % k,
                  assumptions=TRUSTED)


# --------------------------------------------------------------------------- C15

C15_LAWS = ["SortIsAscendingPermutation", "SortByKeyLackingFirst", "ReverseInvolution", "UniqLaw", "CompactLaw",
            "FirstLastSize", "ConcatLaw", "MapLaw"]


def check_C15(ctx):
    n = 3 if ctx.quick else 4
    cases, _ = ctx.tlc_mc("MC_C15", mc_cfg({"N": n, "Reprs": "TRUE"}, C15_LAWS + ["EmitCase"]), timeout=1800)
    obs = ctx.run_cases(cases)
    ctx.validate(obs)
    big = ctx.gen("bigarrays", 300 if ctx.quick else 6000)
    ctx.validate(ctx.run_cases(big), chunk=100)
    omni(ctx, offset=15)
    return finish(ctx, rule="every array of <= %d elements over four element universes (numbers with nil, strings, maps with "
                            "present/absent/nil key, ints) x the array-filter calls and two-filter chains x the Go "
                            "representations that can hold it (generic, typed slice, fixed array, ordered map); the probe "
                            "prints the result element by element and then the input again; non-trivial = decided" % n,
                  assumptions=TRUSTED)


# --------------------------------------------------------------------------- C10

def check_C10(ctx):
    cases, _ = ctx.tlc_mc("MC_C10", mc_cfg({}, ["Decided", "OutputLaw", "OneBranchAtATime", "OutputIsPrefix",
                                                 "IfUnlessDual", "EmitCase"]))
    obs = ctx.run_cases(cases)
    ctx.validate(obs)
    if not ctx.quick:
        gen_cases = ctx.gen("cond", 20000)
        ctx.validate(ctx.run_cases(gen_cases))
        ctx.exhaustive = False
    omni(ctx, offset=10)
    return finish(ctx, rule="every case of the families chain (1-3 conditions over a 10-value universe, with/without else), "
                            "dual (if vs unless), later (failing condition before/after the selected branch), case/when lists "
                            "and nest of MC_C10, explored step by step by TLC against the declarative first-truthy definition, "
                            "rendered by the implementation and trace-validated" +
                            ("" if ctx.quick else "; plus seeded random nested conditionals (Go driver) validated by TraceRender"),
                  assumptions=TRUSTED)


# --------------------------------------------------------------------------- C12

def check_C12(ctx):
    n = 3 if ctx.quick else 4
    cases, _ = ctx.tlc_mc("MC_C12", mc_cfg({"N": n}, ["Terminates", "OutputLaw", "ForloopRestored", "CaptureLaw", "EmitCase"], props=["CaptureSilent"]),
                          timeout=1800)
    for c in cases:
        c["finalenv"] = True        # what is bound when the render is over is what the reference says is bound
    ctx.validate(ctx.run_cases(cases))
    if not ctx.quick:
        ctx.validate(ctx.run_cases(ctx.gen("prog", 20000)))
        ctx.exhaustive = False
    omni(ctx, offset=12)
    return finish(ctx, rule="every program of <= %d statements over the 9-statement pool of MC_C12 (plus its capture-wrapped "
                            "twin), explored step by step by TLC against a declarative store semantics and the capture law, "
                            "rendered by the implementation and trace-validated" % n +
                            ("" if ctx.quick else "; plus 20000 seeded random programs (assign/capture/loops/conditionals)"),
                  assumptions=TRUSTED)


# --------------------------------------------------------------------------- C08

C08_LAWS = ["RangeLaw", "NamesLaw", "LitNamesLaw", "IndexLaw", "SizeFirstLast", "MapSizeFallback", "NilPropagates", "StrictOnlyFinal", "PipelineIsSequential",
            "BadIsError"]


def check_C08(ctx):
    d = 2 if ctx.quick else 3
    cases, _ = ctx.tlc_mc("MC_C08", mc_cfg({"D": d}, C08_LAWS + ["EmitCase"]), timeout=1800)
    ctx.validate(ctx.run_cases(cases))
    omni(ctx, offset=8)
    return finish(ctx, rule="every case of the families index (length 0..5 x 23 index values x literal/variable), look (12 bases x "
                            "18 paths x strict), pipe (chains <= %d of 13 steps x 5 receivers, direct and assign-decomposed), bad "
                            "(unknown filter, too many arguments for each of 43 filters), lit, space (8 programs x 6 spacings x "
                            "tight) of MC_C08; TLC checks the lookup/pipeline laws on the reference, every case is rendered by the "
                            "implementation and trace-validated" % d,
                  assumptions=TRUSTED)


# --------------------------------------------------------------------------- C13

C13_INV = ["Terminates", "WeakLaw", "OnlyWhitespaceRemoved", "FacingTextLaw", "BufferIsLastWrite"]


def check_C13(ctx):
    consts = {"N": 2 if ctx.quick else 3, "Policy": '"intended"', "Bits": "FALSE" if ctx.quick else "TRUE"}
    cases, _ = ctx.tlc_mc("MC_C13", mc_cfg(consts, C13_INV + ["EmitCase"]), timeout=3000)
    # each case once more written tight (no blanks inside the delimiters: "{{-x-}}", "{%-assign q = 1-%}")
    tight = []
    for c in cases:
        c2 = dict(c)
        c2["id"] = "tight-" + str(c["id"])
        c2["spell"] = {"tight": True}
        tight.append(c2)
    validate_by_module(ctx, ctx.run_cases(cases + tight))
    gen = ctx.gen("progtrim", 3000 if ctx.quick else 40000)
    for g in gen:
        g["tm"] = "TraceC13"
    validate_by_module(ctx, ctx.run_cases(gen))
    omni(ctx, offset=13)
    ctx.exhaustive = False
    return finish(ctx, rule="MC_C13: every flat sequence of <= %s elements (6 texts, 3 objects and an assign with all hyphen "
                            "combinations) and 7 block skeletons x hyphen subsets x rotating texts, explored on the trim-writer "
                            "model and checked against the declarative laws; each (program, hyphen-free twin) pair is rendered "
                            "by the implementation and validated by TraceC13 (no-hyphen identity, weak law on the observed "
                            "outputs, facing-text law against the reference); plus seeded random programs with hyphens"
                            % consts["N"], assumptions=TRUSTED)


# --------------------------------------------------------------------------- C20

def fault_events(obs):
    """Flatten the runs of `fault` observations into the event stream TraceC20 consumes."""
    events, runs = [], {}
    for o in obs:
        if o.get("outcome") == "skip":
            raise Infra("fault case could not be concretised: %s" % o.get("msg"))
        for j, r in enumerate(o["runs"]):
            rid = "%s#%d" % (o["id"], j)
            runs[rid] = (o, r)
            events.append({"ev": "start", "id": rid, "prog": o["prog"], "env": o["env"], "ref": o["ref"]})
            for w in r["writes"]:
                events.append({"ev": "write", "id": rid, "b": w["b"], "n": w["n"], "failed": w["failed"]})
            events.append({"ev": "end", "id": rid, "outcome": r["outcome"], "srcerr": bool(r["srcerr"]),
                           "carries": bool(r["carries"])})
    return events, runs


def validate_faults(ctx, obs):
    import vcheck
    events, runs = fault_events(obs)
    # cut the stream into chunks at run boundaries
    chunks, cur = [], []
    for e in events:
        cur.append(e)
        if e["ev"] == "end" and len(cur) > 6000:
            chunks.append(cur)
            cur = []
    if cur:
        chunks.append(cur)
    cfg = open(os.path.join(vcheck.SPEC, "TraceC20.cfg")).read()
    for ch in chunks:
        path = os.path.join(ctx.scratch, "trace_c20.ndjson")
        with open(path, "w") as f:
            for e in ch:
                f.write(json.dumps(e, separators=(",", ":")) + "\n")
        res = vcheck.run_tlc(ctx.scratch, "TraceC20", cfg, workers=1, timeout=1200, env={"LQ_TRACE": path}, heap="3g")
        os.remove(path)
        if res.violation:
            raise Infra("TraceC20 stopped: %s\n%s" % (res.violation, res.raw_tail))
        ctx.states += res.distinct
        ctx.transitions += res.states
        nend = sum(1 for e in ch if e["ev"] == "end")
        seen = 0
        for line in res.lines:
            if line.startswith('<<"V"'):
                t = vcheck.parse_tuple_line(line)
                seen += 1
                o, r = runs[t[1]]
                if t[2] == "REJECT":
                    oo = dict(o)
                    oo.pop("runs", None)
                    oo.update({"id": t[1], "outcome": r["outcome"], "k": r["k"], "keep": r["keep"], "entry": r["entry"],
                               "panic": r.get("panic", ""), "panicat": r.get("panicat", ""), "msg": r.get("msg", ""),
                               "writes": len(r["writes"])})
                    ctx.reject(oo, json.loads(t[3]), "writer fails at call %d keeping %d (%s)" % (r["k"], r["keep"], r["entry"]))
                else:
                    ctx.validated += 1
                    ctx.nontrivial.add((o["text"], r["k"], r["keep"], r["entry"]))
        if seen != nend:
            raise Infra("TraceC20 judged %d of %d runs" % (seen, nend))
    for o in obs[:3]:
        ctx.samples.append({"template": o["text"], "reference_output": bytes(o["ref"]).decode("utf-8", "replace"),
                            "runs": len(o["runs"]),
                            "example_run": {k: v for k, v in o["runs"][min(2, len(o["runs"]) - 1)].items() if k != "writes"}})


def check_C20(ctx):
    cases, _ = ctx.tlc_mc("MC_C20", mc_cfg({"FlushPolicy": '"return"'},
                                           ["NeverPanics", "AcceptedIsPrefix", "NoSuccessAfterFault", "FaultReported",
                                            "NoFaultNoError", "Terminates", "EmitCase"], props=["NoCallAfterFault"]))
    gen = ctx.gen("prognoerr", 40 if ctx.quick else 1500) + ctx.gen("omni", 60 if ctx.quick else 1500, seed_offset=20000)
    for g in gen:
        g["kind"] = "fault"
        g.pop("strict", None)
        g.pop("repeat", None)
    obs = ctx.run_cases(cases + gen)
    validate_faults(ctx, obs)
    ctx.exhaustive = False
    return finish(ctx, rule="MC_C20: 12 templates covering every place the implementation writes x every failing call k x "
                            "{0, 1, all} bytes kept, explored on the render machine with the prefix/no-success/no-panic "
                            "invariants in every state; the implementation renders each template (and seeded random programs) "
                            "into a writer failing at every call of its own fault-free run (FRender and ParseAndFRender), every "
                            "Write is logged and TraceC20 replays the log through the specification's sink; non-trivial = "
                            "distinct (template, k, keep, entry) runs", assumptions=TRUSTED)


# --------------------------------------------------------------------------- C05

ALPHA8 = "{123, 125, 37, 45, 34, 32, 10, 97}"
ALPHA6 = "{123, 125, 37, 45, 32, 97}"
ALPHA_BOM = "{239, 187, 191, 123, 125, 37, 10}"


def check_C05(ctx):
    # (the last alphabet: the three bytes of a byte order mark next to the delimiters)
    runs = [(5, ALPHA8), (4, ALPHA_BOM)] if ctx.quick else [(6, ALPHA8), (7, ALPHA6), (5, ALPHA_BOM)]
    inv = ["PartitionSoFar", "LinesSoFar", "NoEmptyTokens", "IdentityAtEnd", "AgreesWithFunction", "TextIsMaximal", "EmitCase"]
    seen = set()
    for L, alpha in runs:
        cases, _ = ctx.tlc_mc("MC_C05", mc_cfg({"L": L, "Alpha": alpha}, inv, props=["Progress"]), timeout=3000, heap="16g")
        cases = [c for c in cases if c["id"] not in seen]
        seen.update(c["id"] for c in cases)
        ctx.validate(ctx.run_cases(cases), module="TraceC05", nontrivial_key=lambda o: o["text"], chunk=8000, timeout=3000)
    # pass-through of raw / comment bodies and string values, beyond the alphabet: seeded
    gen = ctx.gen("passthrough", 400 if ctx.quick else 20000)
    ctx.validate(ctx.run_cases(gen), chunk=150, timeout=3000)     # (values of up to 60 kB: small chunks for the JSON reader)
    gen2 = ctx.gen("scanbytes", 300 if ctx.quick else 20000)
    ctx.validate(ctx.run_cases(gen2), module="TraceC05", nontrivial_key=lambda o: o["text"], chunk=500, timeout=3000)
    # string values handed to the command-line tool (--env NAME=VALUE) and printed by it: emitted exactly
    build_cli(ctx)
    validate_sessions(ctx, [ctx.run_cases(ctx.gen("clisession", 6 if ctx.quick else 60), deadline=120)])
    # text inside blocks and clauses (also where a body holds nothing else but tags that print nothing): whole programs
    omni(ctx, offset=5)
    ctx.exhaustive = False
    return finish(ctx, rule="MC_C05: the scanner as a state machine over every source of <= L symbols of a delimiter-rich "
                            "alphabet %s (partition/line invariants in every scanner state), each source tokenised by "
                            "parser.Scan and rendered, validated by TraceC05 (laws on the implementation's own tokens for "
                            "every input; equality with the reference scanner on the well-formed fragment); plus seeded "
                            "raw/comment/string pass-through programs (TraceRender) and random byte / UTF-8 sources"
                            % [r[0] for r in runs], assumptions=TRUSTED)


# --------------------------------------------------------------------------- C19

def check_C19(ctx):
    n = 2 if ctx.quick else 3
    cases, _ = ctx.tlc_mc("MC_C19", mc_cfg({"N": n}, ["SpellScanRoundTrip", "DelimEquivalence", "EmptySelectsDefault", "EmitCase"]),
                          timeout=3000, heap="16g")
    validate_by_module(ctx, ctx.run_cases(cases))
    return finish(ctx, rule="MC_C19: every token list of <= %d tokens (texts, objects, tags x hyphen combinations) x 11 delimiter "
                            "quadruples (lengths 1-4, regexp metacharacters, shared characters) and the 16 empty-position subsets; "
                            "TLC checks spell/scan round trip and equivalence with the default spelling on the reference scanner; "
                            "each spelled source is tokenised by parser.Scan with those delimiters (TraceC05) and 8 programs "
                            "(hyphens, raw/comment, default delimiters as text, failing object on a later line) are rendered on "
                            "an engine configured with Delims and validated by TraceRender incl. the error line" % n,
                  assumptions=TRUSTED)


# --------------------------------------------------------------------------- C06

def check_C06(ctx):
    n = 4 if ctx.quick else 5
    cases, _ = ctx.tlc_mc("MC_C06", mc_cfg({"N": n, "Ext": "FALSE"}, ["AcceptanceLaw", "RejectionIsFinal", "StackDepth", "FunctionAgrees", "EmitCase"]),
                          timeout=3000, heap="24g")
    def styled(cs):
        """each case once more under another spelling of its tags and objects (glued, hyphenated, spread over lines)"""
        out = []
        for k, c in enumerate(cs):
            c2 = dict(c)
            c2["style"] = k % 9 + 1
            c2["id"] = "%s~s%d" % (c["id"], c2["style"])
            out.append(c2)
        return cs + out

    ctx.validate(ctx.run_cases(styled(cases)), module="TraceC06", nontrivial_key=lambda o: o["text"], chunk=20000)
    gen = ctx.gen("nesting", 2000 if ctx.quick else 60000)
    ctx.validate(ctx.run_cases(styled(gen)), module="TraceC06", nontrivial_key=lambda o: o["text"], chunk=20000)
    # ... and rendered: every piece of content under exactly the blocks and clauses that enclose it (whole programs)
    omni(ctx, offset=6)
    ctx.exhaustive = False
    return finish(ctx, rule="MC_C06: the parser machine over every token-class sequence of <= %d tokens from the 22-class alphabet "
                            "(extension stops at rejection), compared in every state with an independent recursive-descent "
                            "recogniser; every prefix is spelled, parsed by ParseTemplate, and TraceC06 compares accept/reject "
                            "and the GetRoot tree with the machine's; plus seeded deep well-nested templates and their one-edit "
                            "neighbours; non-trivial = decided (no clause after an else)" % n, assumptions=TRUSTED)


# --------------------------------------------------------------------------- C07

def check_C07(ctx):
    d = 2 if ctx.quick else 3
    cases, _ = ctx.tlc_mc("MC_C07", mc_cfg({"D": d, "WrapPolicy": '"keepinner"'}, ["ErrLocated", "NoOutputAfterError", "EmitCase"]),
                          timeout=3000, heap="16g")
    # every third case goes through ParseTemplateAndCache; half of those that have a path spell it uncleanly (./x, a//b):
    # Path is the path the template was parsed with, as given
    for k, c in enumerate(cases):
        if k % 3 == 2:
            c["entry"] = "CacheRender"
            if c.get("path") and (k // 3) % 2 == 0:
                p = bytes(c["path"]).decode()
                p = ("./" + p) if (k // 6) % 2 == 0 else p.replace("/", "//", 1)
                c["path"] = list(p.encode())
                c["rawpath"] = True
    validate_by_module(ctx, ctx.run_cases(cases))
    return finish(ctx, rule="MC_C07: 29 kinds of failing construct x every sequence of <= %d wrappers (if, for, case, capture, "
                            "unless) x newlines before/inside (0-2, 0-1) x with/without path x starting line 0/1/5; for "
                            "render-time kinds the render machine reports the static line in its error state; each case is "
                            "parsed with ParseTemplateLocation and rendered, and TraceC07 checks SourceError, LineNumber, Path, "
                            "Cause presence and which error it is (the conversion error / the filter's error), message mentions the "
                            "filter/tag, no output with the error" % d,
                  assumptions=TRUSTED)


# --------------------------------------------------------------------------- C14

def check_C14(ctx):
    cases, _ = ctx.tlc_mc("MC_C14", mc_cfg({}, ["Decided", "IncludeIsInlining", "NestedAndLoop", "EmptyIsIncluded", "ChangedFilesSeen", "CrossDirLaw", "TrimStopsAtTheEdge", "FailuresFail", "IncluderEnvKept", "ExactName", "TailKept",
                                                 "EmitCase"]))
    ctx.validate(ctx.run_cases(cases))
    return finish(ctx, rule="MC_C14: includer depth 0-2 x target in the same directory / below x argument as literal, variable, "
                            "filtered expression, earlier-assigned variable x target on disk / cache only / both / missing x decoy "
                            "file relative to the working directory; nested includes (disk and cache), include inside a loop, and "
                            "six failure kinds; the render machine runs each (include = inlining with a copy of the variables) and "
                            "the layouts are materialised in temporary directories (cache through ParseTemplateAndCache), "
                            "rendered, and trace-validated", assumptions=TRUSTED)


# --------------------------------------------------------------------------- C18

def check_C18(ctx):
    cases, _ = ctx.tlc_mc("MC_C18", mc_cfg({"Full": "FALSE" if ctx.quick else "TRUE"}, ["ReferenceDecides", "EmitCase"]))
    for c in cases:
        c["altreprs"] = 1
    ctx.validate(ctx.run_cases(cases))
    omni(ctx, offset=18, altreprs=3)
    return finish(ctx, rule="MC_C18: nine families of probe templates (numbers of every width printed/compared/in arithmetic, typed "
                            "slices and fixed arrays, typed and ordered maps, []byte, pointers, Drops at every subset of the nodes of "
                            "a nested environment) x the representation assignments the statement allows; each realisation is "
                            "rendered by the implementation and must give the reference output (hence all agree)",
                  assumptions=TRUSTED)


# --------------------------------------------------------------------------- C02 / C03 / C04 (engine level)

ENGINE_INV = ["BindingsImmutable", "Independent", "NoCarryOver", "Deterministic", "NoConflict"]


def engine_cfg(pol="MCPol", budget=3, cells=()):
    return ("CONSTANT ExtractedCells = {%s}\n" % ", ".join('"%s"' % c for c in cells) +
            "CONSTANT G = 2\nCONSTANT Budget = %d\nCONSTANT Templates <- MCTemplates\nCONSTANT Envs <- MCEnvs\nCONSTANT Cache <- MCCache\n"
            "CONSTANT Pol <- %s\nINIT EInit\nNEXT ENext\nCHECK_DEADLOCK FALSE\nINVARIANTS %s\n"
            % (budget, pol, " ".join(ENGINE_INV)))


PARSE_KINDS = {"badobj", "badtag", "unknowntag", "strayend", "strayclause", "strayelse", "badif", "openif", "openraw", "opencomment"}


def ill_formed(nodes):
    """does the program contain a construct that cannot parse (the kinds of MC_C06/MC_C07)?"""
    for n in nodes:
        if not isinstance(n, dict):
            continue
        if n.get("t") in PARSE_KINDS:
            return True
        for f in ("body", "else"):
            if isinstance(n.get(f), list) and ill_formed(n[f]):
                return True
        for f in ("branches", "whens"):
            for b in n.get(f, []) or []:
                if isinstance(b, dict) and ill_formed(b.get("body", [])):
                    return True
    return False


def session_events(obs_list, tag=""):
    events, index = [], {}
    for o in obs_list:
        if o.get("outcome") == "skip":
            raise Infra("session could not be concretised: %s" % o.get("msg"))
        if o.get("outcome") != "ok":
            # the whole session died: one rejected pseudo-event
            index[str(o["id"]) + "#*"] = (o, {"entry": "?", "t": -1, "b": -1, "outcome": o.get("outcome")})
            continue
        for ev in o["events"]:
            eid = "%s#%d%s" % (o["id"], ev["i"], tag)
            index[eid] = (o, ev)
            e = {"id": eid, "sid": str(o["id"]), "t": ev["t"], "b": ev["b"], "entry": ev["entry"],
                 "prog": o["templates"][ev["t"]], "env": o["envabs"][ev["b"]], "before": ev["before"], "after": ev["after"], "beforesig": ev.get("beforesig", ""), "aftersig": ev.get("aftersig", ""),
                 "outcome": ev["outcome"], "out": ev.get("out", [])}
            if ev["outcome"] == "error":
                e["msg"] = re.sub(r"/tmp/lqh\d+", "<tmp>", ev.get("msg", ""))
            if ill_formed(e["prog"]):
                e["illformed"] = True
            if o.get("noref") or ev["t"] in (o.get("noreft") or []):
                e["noref"] = True
            if o.get("strict"):
                e["strict"] = True
            if o.get("anyorder"):
                e["anyorder"] = o["anyorder"]
            if o.get("cache"):
                e["cache"] = o["cache"]
            events.append(e)
    return events, index


def validate_sessions(ctx, obs_lists):
    """obs_lists: one list of session observations per process; events of the same session share a memo."""
    import vcheck
    by_sid = {}
    index = {}
    for pi, obs in enumerate(obs_lists):
        ev, idx = session_events(obs, tag="@p%d" % pi if pi else "")
        index.update(idx)
        for e in ev:
            by_sid.setdefault(e["sid"], []).append(e)
    for eid, (o, ev) in index.items():
        if eid.endswith("#*"):
            oo = dict(o)
            oo["text"] = " / ".join(o.get("texts", []))[:300]
            ctx.reject(oo, None, "the session did not complete: %s" % o.get("outcome"))
    # chunks of whole sessions
    chunks, cur = [], []
    for sid, evs in by_sid.items():
        cur.extend(evs)
        if len(cur) > 3000:
            chunks.append(cur)
            cur = []
    if cur:
        chunks.append(cur)
    cfg = open(os.path.join(vcheck.SPEC, "TraceEngine.cfg")).read()
    import concurrent.futures as cf

    def one(k_ch):
        k, ch = k_ch
        path = os.path.join(ctx.scratch, "trace_engine_%d.ndjson" % k)
        with open(path, "w") as f:
            for e in ch:
                f.write(json.dumps(e, separators=(",", ":")) + "\n")
        res = vcheck.run_tlc(ctx.scratch, "TraceEngine", cfg, workers=1, timeout=1800, env={"LQ_TRACE": path}, heap="3g")
        os.remove(path)
        if res.violation:
            raise Infra("TraceEngine stopped: %s\n%s" % (res.violation, res.raw_tail))
        return ch, res

    with cf.ThreadPoolExecutor(max_workers=8) as ex:
        for ch, res in ex.map(one, list(enumerate(chunks))):
            ctx.states += res.distinct
            ctx.transitions += res.states
            seen = 0
            for line in res.lines:
                if line.startswith('<<"V"'):
                    t = vcheck.parse_tuple_line(line)
                    seen += 1
                    o, ev = index[t[1]]
                    if t[2] == "REJECT":
                        oo = {"id": t[1], "kind": "session", "text": o["texts"][ev["t"]], "env": o["envabs"][ev["b"]],
                              "outcome": ev["outcome"], "out": ev.get("out", []), "entry": ev["entry"],
                              "history": [(e["t"], e["b"], e["entry"]) for e in o["events"][:ev["i"]]][-12:],
                              "panic": ev.get("panic", ""), "panicat": ev.get("panicat", ""), "msg": ev.get("msg", "")}
                        ctx.reject(oo, json.loads(t[3]), json.loads(t[3]).get("why", ""))
                    else:
                        ctx.validated += 1
                        if t[2] == "ok":
                            ctx.nontrivial.add((o["texts"][ev["t"]], json.dumps(o["envabs"][ev["b"]]), ev["entry"]))
            if seen != len(ch):
                raise Infra("TraceEngine judged %d of %d events" % (seen, len(ch)))
    for obs in obs_lists[:1]:
        for o in obs[:2]:
            if o.get("outcome") == "ok":
                ctx.samples.append({"session": o["id"], "templates": o["texts"][:4],
                                    "history": [(e["t"], e["b"], e["entry"], e["outcome"]) for e in o["events"][:8]]})


def build_cli(ctx):
    import subprocess
    import vcheck
    out = os.path.join(vcheck.BUILD, "liquid-cli")
    p = subprocess.run(["go", "build", "-o", out, "./cmd/liquid"], cwd=vcheck.REPO, env=vcheck.GOENV, capture_output=True, text=True)
    if p.returncode != 0:
        raise Infra("building cmd/liquid failed: " + p.stderr)
    os.environ["LQ_CLI"] = out


def check_C03(ctx):
    ctx.tlc_mc("MC_Engine", engine_cfg(), timeout=1800, heap="16g")
    sessions = ctx.gen("session", 150 if ctx.quick else 4000)
    obs = ctx.run_cases(sessions, deadline=60)
    validate_sessions(ctx, [obs])
    ctx.exhaustive = False
    return finish(ctx, rule="MC_Engine: every interleaving of up to 3 renders by 2 goroutines over 3 templates (one re-assigning a "
                            "binding name to its sorted self and iterating a map, one with loop/cycle/capture state, one failing "
                            "half-way) x 2 binding environments, with BindingsImmutable / Independent / NoCarryOver in every "
                            "state; the implementation runs seeded histories of 2-40 renders (all entry points, fresh parses and "
                            "engines, successes and failures mixed) on one engine with deep snapshots of the bindings before and "
                            "after every render, and TraceEngine validates every event", assumptions=TRUSTED)


def check_C02(ctx):
    cases, _ = ctx.tlc_mc("MC_Engine", engine_cfg(), timeout=1800, heap="16g")
    build_cli(ctx)
    sessions = (ctx.gen("mapsession", 40 if ctx.quick else 600) + ctx.gen("session", 60 if ctx.quick else 2000)
                + ctx.gen("clisession", 6 if ctx.quick else 60))
    obs1 = ctx.run_cases(sessions, deadline=120)
    obs2 = ctx.run_cases(sessions, deadline=120)          # a second process
    validate_sessions(ctx, [obs1, obs2])
    ctx.exhaustive = False
    return finish(ctx, rule="MC_Engine: Deterministic (same template and bindings give the same result in every history and "
                            "interleaving, for every order Go may iterate a map in) checked by TLC; the implementation renders "
                            "pooled templates (incl. maps of 2-12 entries in loops, tablerow and array filters) repeatedly through "
                            "Render, RenderString, FRender, ParseAndRender, ParseAndRenderString, ParseAndFRender, the CLI, on "
                            "fresh parses and engines, with re-built maps, in two processes; TraceEngine requires every result to "
                            "equal the first one seen for that (template, bindings) and to be allowed by the reference",
                  assumptions=TRUSTED)


# --------------------------------------------------------------------------- C04

def extract_cells(ctx):
    import shutil
    import subprocess
    import vcheck
    ex = os.path.join(vcheck.VERIF, "extract")
    shutil.copyfile(os.path.join(vcheck.REPO, "go.sum"), os.path.join(ex, "go.sum"))
    out = os.path.join(vcheck.BUILD, "lqextract")
    p = subprocess.run(["go", "build", "-o", out, "."], cwd=ex, env=vcheck.GOENV, capture_output=True, text=True)
    if p.returncode != 0:
        raise Infra("building the extractor failed: " + p.stderr)
    p = subprocess.run([out, vcheck.REPO], capture_output=True, text=True, env=vcheck.GOENV)
    if p.returncode != 0:
        raise Infra("extractor failed: " + p.stderr[-800:])
    return json.loads(p.stdout)


def check_C04(ctx):
    import glob
    import vcheck
    found = extract_cells(ctx)
    def cell_name(c):
        if "cycleTag" in c["func"]:
            return "cycle.err"
        if c["kind"] == "sharedmap" and "render.Config" in c["var"]:
            return "engine.cache"
        return "%s.%s" % (c["func"].split("/")[-1], c["var"])
    cells = sorted({cell_name(c) for c in found})
    ctx.extra_cov["extracted_shared_cells"] = found
    # all interleavings of the engine model over the extracted access table
    import vcheck as vc
    res_conflict = None
    cfg = engine_cfg(cells=cells)
    try:
        ctx.tlc_mc("MC_Engine", cfg, timeout=1800, heap="16g")
    except Infra as e:
        if "NoConflict" in str(e):
            res_conflict = str(e)[:1500]
        else:
            raise
    # dynamic part: the race detector observing real concurrent executions
    race_bin = vcheck.build_harness(race=True)
    sessions = ctx.gen("consession", 12 if ctx.quick else 120)
    seq_obs = ctx.run_cases(sessions, deadline=120, workers=1)       # alone, sequentially (one session at a time)
    racedir = os.path.join(ctx.scratch, "race")
    os.makedirs(racedir, exist_ok=True)
    os.environ["GORACE"] = "log_path=%s/r halt_on_error=0 exitcode=0" % racedir
    con_obs_all = []
    combos = [(2, 4), (8, 16), (32, 1)] if ctx.quick else [(2, 1), (2, 16), (8, 4), (8, 16), (32, 16), (32, 1)]
    for n, procs in combos:
        cs = []
        for s in sessions:
            c = dict(s)
            c["concurrent"] = n
            c["gomaxprocs"] = procs
            cs.append(c)
        con_obs_all.append(ctx.run_cases(cs, deadline=90, workers=2, binary=race_bin, max_timeouts=2))
        if sum(1 for o in con_obs_all[-1] if o.get("outcome") == "timeout") >= 2:
            break           # (the tree hangs under concurrency: reported below, no need to wait for the other settings)
    os.environ.pop("GORACE", None)
    # a session whose set-up (parsing its templates, registering its cached sources) works alone but fails while
    # other goroutines of the process are parsing and rendering is itself a concurrent result that differs
    seq_ok = {str(o["id"]) for o in seq_obs if o.get("outcome") == "ok"}
    for k, obs in enumerate(con_obs_all):
        kept = []
        for o in obs:
            if o.get("outcome") == "skip" and str(o["id"]) in seq_ok:
                oo = {"id": str(o["id"]) + "#setup", "kind": "session", "text": str(o.get("msg", ""))[:600], "outcome": "differs"}
                ctx.reject(oo, None, "setting the session up (parsing its templates) failed while other goroutines were at work, "
                                     "though it succeeds alone: " + str(o.get("msg", ""))[:200])
            else:
                kept.append(o)
        con_obs_all[k] = kept
    validate_sessions(ctx, [seq_obs] + con_obs_all)
    for obs in con_obs_all:
        for o in obs:
            if o.get("colddiffs"):
                oo = {"id": str(o["id"]) + "#cold", "kind": "session", "text": "; ".join(o["colddiffs"][:6])[:1500], "outcome": "differs"}
                ctx.reject(oo, None, "a parse on an engine used for the first time by several goroutines at once did not "
                                     "report what the same parse reports alone (%d differences)" % len(o["colddiffs"]))
    reports = []
    for f in glob.glob(os.path.join(racedir, "r.*")):
        txt = open(f).read()
        if "DATA RACE" in txt:
            reports.append(txt)
    if reports:
        first = reports[0]
        ctx.reject({"id": "race-report", "kind": "race", "text": first[:3000], "outcome": "race"}, None,
                   "the race detector reported %d data race(s) between concurrent parse/render" % sum(r.count("DATA RACE") for r in reports))
    elif res_conflict:
        ctx.notes.append("static candidate not reproduced by the race detector: " + res_conflict[:400])
    ctx.exhaustive = False
    return finish(ctx, rule="the shared mutable cells written at render time are extracted from the current tree (go/ssa: stores to "
                            "variables captured by escaping closures and to package variables) and become the `cells` constant of "
                            "MC_Engine, on which TLC explores every interleaving of 2 goroutines x 3 renders (NoConflict, "
                            "Independent = each concurrent render returns what it returns alone); the implementation runs "
                            "sessions of 96 parses/renders over templates covering every standard tag and filter from 2/8/32 "
                            "goroutines sharing one engine, one set of parsed templates and one set of bindings, built with "
                            "-race, at GOMAXPROCS 1/4/16; any race report is a violation and every concurrent result is "
                            "validated by TraceEngine against the same render run alone",
                  assumptions=TRUSTED + ["Go race detector (observes the executions that happen)",
                                         "extraction covers closure-captured and package-level variables, not arbitrary heap aliasing"])


# --------------------------------------------------------------------------- C01

EXPR_ALPHA = "{97, 49, 46, 124, 58, 44, 91, 93, 40, 34, 32, 45}"      # a 1 . | : , [ ] ( " space -


def check_C01(ctx):
    cases, _ = ctx.tlc_mc("MC_C01", mc_cfg({"Two": "FALSE" if ctx.quick else "TRUE"}, ["Totality", "StepBound", "EmitCase"]),
                          timeout=3000, heap="16g")
    validate_by_module(ctx, ctx.run_cases(cases))
    L = 2 if ctx.quick else 4
    ecases, _ = ctx.tlc_mc("MC_C01E", mc_cfg({"L": L, "Alpha": EXPR_ALPHA}, ["ScannerTotal", "EmitCase"]), timeout=3000, heap="16g")
    ctx.validate(ctx.run_cases(ecases), module="TraceC05", nontrivial_key=lambda o: o["text"], chunk=20000)
    scases, _ = ctx.tlc_mc("MC_C05", mc_cfg({"L": 4 if ctx.quick else 6, "Alpha": ALPHA8},
                                            ["PartitionSoFar", "LinesSoFar", "IdentityAtEnd", "EmitCase"]), timeout=3000, heap="16g")
    ctx.validate(ctx.run_cases(scases), module="TraceC05", nontrivial_key=lambda o: o["text"], chunk=20000)
    n = 3000 if ctx.quick else 60000
    def some_without_bindings(cases, every):
        """every n-th case is rendered with no bindings at all (the caller passes nil)"""
        for k, g in enumerate(cases):
            if k % every == every - 1:
                g["env"] = []
                for f in ("weird", "testenv", "repr"):
                    g.pop(f, None)
        return cases

    for kind in ("fuzztext", "mutants"):
        gen = some_without_bindings(ctx.gen(kind, n), 6)
        ctx.validate(ctx.run_cases(gen, deadline=30, max_timeouts=5), module="TraceC01", nontrivial_key=lambda o: o.get("text", ""))
    # every filter on something big (and two-filter chains): back within the deadline
    scal = ctx.gen("scaling", 600 if ctx.quick else 3000)
    scal += [dict(c, id="huge-%d" % k) for k, c in enumerate(ctx.gen("scaling", 3 * 6 * 49 + 16)[-16:])]
    scal += ctx.gen("deepexpr", 4000)       # every operator nested 12 / 30 / 48 levels deep; lookup chains of 30 / 48 links
    ctx.validate(ctx.run_cases(scal, deadline=30, workers=4, max_timeouts=5), module="TraceC01", nontrivial_key=lambda o: o.get("text", ""))
    pairs = ctx.gen("weirdpairs", 53 * 53 * 22)
    ctx.validate(ctx.run_cases(pairs, deadline=30, max_timeouts=5), module="TraceC01", nontrivial_key=lambda o: o.get("text", ""))
    # every binding asked for properties it has and lacks (by dot, by subscript, through contains)
    props_ = ctx.gen("weirdprops", 200 * 16 * 4)
    ctx.validate(ctx.run_cases(props_, deadline=30, max_timeouts=5), module="TraceC01", nontrivial_key=lambda o: o.get("text", ""))
    progs = ctx.gen("prog", 2000 if ctx.quick else 30000)
    for g in progs:
        g["weird"] = True
    some_without_bindings(progs, 5)
    ctx.validate(ctx.run_cases(progs), module="TraceC01", nontrivial_key=lambda o: o.get("text", ""))
    ctx.exhaustive = False
    return finish(ctx, rule="MC_C01: the filter boundary matrix (49 filters x 31 boundary receivers x 0-2 arguments from 16 boundary "
                            "values) with totality of the reference and a step bound; MC_C01E: every string of <= %d expression "
                            "symbols inside object/if/assign/for/limit/when/include/cycle; MC_C05 sources; seeded template text over "
                            "a syntax-rich vocabulary with bindings of every representation named in the statement (structs, "
                            "pointers, nil pointers, times, byte slices, ordered maps, typed maps, huge and tiny numbers, Drops), "
                            "mutants of the templates harvested from the repository's tests, and grammar programs; every case is "
                            "parsed and rendered under a deadline and must return output or a SourceError (TraceC01 / TraceC05)"
                            % L, assumptions=TRUSTED)


# --------------------------------------------------------------------------- EXT (beyond the listed properties)

def check_EXT(ctx):
    n = 2 if ctx.quick else 3
    cases, _ = ctx.tlc_mc("MC_Ext", mc_cfg({"N": n}, ["Decided", "TwinLaw", "Terminates", "EmitCase"], props=["BlockSilent"]), timeout=3000)
    ctx.validate(ctx.run_cases(cases))
    # the block parser with a block registered by the embedding program in its alphabet
    pcases, _ = ctx.tlc_mc("MC_C06", mc_cfg({"N": 4 if ctx.quick else 5, "Ext": "TRUE"},
                                             ["AcceptanceLaw", "RejectionIsFinal", "StackDepth", "FunctionAgrees", "EmitCase"]), timeout=3000, heap="16g")
    ctx.validate(ctx.run_cases(pcases), module="TraceC06", nontrivial_key=lambda o: o["text"], chunk=20000)
    return finish(ctx, rule="MC_Ext: every program of <= %d statements over a pool of 23 statements that use constructs registered "
                            "through the embedding API (RegisterTag / RegisterBlock / RegisterFilter; render.Context: TagName, TagArgs, "
                            "EvaluateString, Set, Get, ExpandTagArg, Errorf, SourceFile, RenderFile, InnerString), run step by step on the "
                            "render machine and compared with its twin in standard constructs; the implementation renders the "
                            "program, its twin, and the program under custom delimiters, validated by TraceRender" % n,
                  assumptions=TRUSTED)


CHECKS = {"EXT": check_EXT, "C11": check_C11, "C09": check_C09, "C16": check_C16, "C17": check_C17, "C15": check_C15, "C10": check_C10, "C12": check_C12, "C08": check_C08, "C13": check_C13, "C20": check_C20, "C05": check_C05, "C19": check_C19, "C06": check_C06, "C07": check_C07, "C14": check_C14, "C18": check_C18, "C03": check_C03, "C02": check_C02, "C04": check_C04, "C01": check_C01}
